#!/venv/bin/python
"""Regenerates MANIFEST.json from the tables below and known_findings.json."""
import json
import os

HERE = os.path.dirname(os.path.dirname(os.path.abspath(__file__)))
import sys
sys.path.insert(0, HERE)
from sa.levels import LEVELS  # noqa: E402
from sa.registry import CHECKS, NOT_APPLICABLE, ENGINES  # noqa: E402

known = json.load(open(os.path.join(HERE, "known_findings.json")))
with_known = {k["property"] for k in known["known"]}

checks = []
for pid, c in sorted(CHECKS.items()):
    cat = LEVELS[pid]
    if pid in with_known and cat == "proof":
        cat = "other"
    if pid in with_known:
        cat = "other" if cat != "translation_validation" else cat
    checks.append({
        "property_id": pid,
        "quick_cmd": f"./check {pid} --tier quick",
        "thorough_cmd": f"./check {pid} --tier thorough",
        "evidence_file": f"evidence/{pid}.json",
        "replay_cmd_template": f"./check {pid} --replay {{path}}",
        "engine": c["engine"],
        "level_claimed": {"category": cat, "text": c["level_text"], "design_ref": c["design_ref"]},
        "level_note": c["level_note"],
        "technique": c["technique"],
    })
manifest = {
    "version": 1,
    "setup_cmd": "/venv/bin/python -B -c \"import mypy, lark, sys; sys.path.insert(0,'.'); import sa.core\"",
    "hooks": {
        "guard": "MEASURED_VERIF",
        "enable": "none: static analysis needs no instrumentation; /repo carries no guarded hook commits",
        "baseline_off_cmd": "cd /repo && /venv/bin/python -m pytest -ra -q -p no:cacheprovider --timeout=900 --continue-on-collection-errors",
        "source_commits": [],
        "add_only": True,
    },
    "engines": ENGINES,
    "checks": checks,
    "notes": "Technique family: static analysis (ast + mypy-as-library + Lark table construction); nothing from /repo is imported or executed by any check. Exit 0/1/2 = held / VIOLATION / ANALYSIS-ERROR. Known findings: known_findings.json. See DESIGN.md.",
    "not_applicable": [{"property_id": k, "reason": v} for k, v in sorted(NOT_APPLICABLE.items()) if k not in CHECKS],
}
json.dump(manifest, open(os.path.join(HERE, "MANIFEST.json"), "w"), indent=1, ensure_ascii=False)
print("checks:", [c["property_id"] for c in checks], "n/a:", [x["property_id"] for x in manifest["not_applicable"]])
