#!/venv/bin/python
"""Confirm a seeded change independently of the sub-agent that wrote it: in a scratch
worktree of /repo's HEAD, the demonstration passes on the clean tree and fails with the
patch, and the existing suite still passes (907 passed, the same 9 environmental failures).

usage: tools/confirm_seed.py <dir with patch.diff demo.py meta.json>...   -> prints JSON lines
"""
from __future__ import annotations

import json
import os
import re
import shutil
import subprocess
import sys

BASE_FAIL = {
    "tests/test_cli.py::test_can_handle_no_conversions", "tests/test_cli.py::test_can_list_units",
    "tests/test_cli.py::test_can_print_conversions", "tests/test_cli.py::test_can_run_as_module",
    "tests/test_cli.py::test_can_run_as_script", "tests/test_cli.py::test_handles_parse_errors_gracefully",
    "tests/test_cli.py::test_prints_help_with_no_arguments", "tests/test_pydantic_and_json.py::test_example_api_roundtrip",
    "tests/test_pydantic_and_json.py::test_parent_api_roundtrip",
}
FLAKY = {"tests/test_parsing.py::test_each_unit_roundtrips", "tests/test_parsing.py::test_float_quantities_are_parsable"}


def sh(cmd, **kw):
    return subprocess.run(cmd, capture_output=True, text=True, **kw)


def confirm(d: str) -> dict:
    name = d.rstrip("/").replace("/", "_").strip("_")
    wt = f"/tmp/vconf/{name}"
    os.makedirs("/tmp/vconf", exist_ok=True)
    sh(["git", "-C", "/repo", "worktree", "remove", "--force", wt])
    shutil.rmtree(wt, ignore_errors=True)
    sh(["git", "-C", "/repo", "worktree", "add", "-q", "--detach", wt, "HEAD"])
    env = dict(os.environ, PYTHONPATH=f"{wt}/src")
    out = {"dir": d, "head": sh(["git", "-C", "/repo", "rev-parse", "--short", "HEAD"]).stdout.strip()}
    try:
        demo = os.path.join(d, "demo.py")
        c = sh(["/venv/bin/python", demo], env=env, cwd="/tmp")
        out["demo_clean_rc"] = c.returncode
        a = sh(["git", "-C", wt, "apply", os.path.join(d, "patch.diff")])
        out["applies"] = a.returncode == 0
        if not out["applies"]:
            return out
        p = sh(["/venv/bin/python", demo], env=env, cwd="/tmp")
        out["demo_patched_rc"] = p.returncode
        for attempt in range(3):
            shutil.rmtree(os.path.join(wt, ".hypothesis"), ignore_errors=True)
            t = sh(["/venv/bin/python", "-m", "pytest", "-q", "-p", "no:cacheprovider", "-n", "4"], env=env, cwd=wt)
            failed = set(re.findall(r"^(?:FAILED|ERROR) (\S+)", t.stdout, re.M))
            m = re.search(r"(\d+) failed, (\d+) passed", t.stdout)
            out["suite"] = m.group(0) if m else t.stdout[-200:]
            extra = {f.split(" ")[0] for f in failed} - BASE_FAIL
            out["new_failures"] = sorted(extra)
            if not (extra and extra <= FLAKY):
                break
        out["confirmed"] = bool(out["demo_clean_rc"] == 0 and out["demo_patched_rc"] != 0 and not out["new_failures"]
                                and m and m.group(2) == "907")
    finally:
        sh(["git", "-C", "/repo", "worktree", "remove", "--force", wt])
        shutil.rmtree(wt, ignore_errors=True)
    return out


if __name__ == "__main__":
    for d in sys.argv[1:]:
        print(json.dumps(confirm(d)))
        sys.stdout.flush()
