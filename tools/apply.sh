#!/bin/sh
# usage: tools_apply.sh <patch> <prop...>   -- apply a seeded patch to /repo, run checks, undo
P="$1"; shift
cd /repo || exit 3
if ! git apply --check "$P" 2>/dev/null; then echo "PATCH DOES NOT APPLY: $P"; exit 3; fi
git apply "$P"
for c in "$@"; do
  /verif/check "$c" --tier quick > /tmp/apply_out_$c.txt 2>&1; rc=$?
  echo "$c rc=$rc $(grep -c FINDING /tmp/apply_out_$c.txt) findings"; grep -E "FINDING|ANALYSIS-ERROR" /tmp/apply_out_$c.txt | cut -c1-260 | head -8
done
git checkout -- . ; git status --short | head -3
