#!/venv/bin/python
"""Kill matrix: apply each seeded patch to a scratch worktree of /repo's HEAD (never to
/repo itself), run every registered check against it with VERIF_REPO pointing there, and
report which checks raise a VIOLATION (exit 1), break (exit 2) or stay silent.

usage: tools/seed_matrix.py [--tier quick] [--jobs 16] <dir-with-patch.diff>...
Scratch worktrees live under /tmp/vsm and are removed as soon as a patch is done.
"""
from __future__ import annotations

import argparse
import concurrent.futures as cf
import json
import os
import re
import shutil
import subprocess
import sys
import tempfile

HERE = os.path.dirname(os.path.dirname(os.path.abspath(__file__)))
CHECKS = ["C01", "C02", "C03", "C05", "C06", "C07", "C08", "C09", "C10", "C11", "C12", "C13", "C14", "C15", "C16", "C17", "C18", "C19", "C20"]


def sh(*a: str, **kw) -> subprocess.CompletedProcess:
    return subprocess.run(a, capture_output=True, text=True, **kw)


ONLY: list = []


def run_patch(pdir: str, tier: str) -> dict:
    name = pdir.rstrip("/").replace("/", "_").strip("_")
    patch = os.path.abspath(os.path.join(pdir, "patch.diff"))
    root = "/tmp/vsm"
    os.makedirs(root, exist_ok=True)
    wt = os.path.join(root, name)
    sh("git", "-C", "/repo", "worktree", "remove", "--force", wt)
    shutil.rmtree(wt, ignore_errors=True)
    r = sh("git", "-C", "/repo", "worktree", "add", "-q", "--detach", wt, "HEAD")
    if r.returncode:
        return {"patch": pdir, "error": r.stderr[:200]}
    res = {"patch": pdir, "applies": True, "checks": {}}
    try:
        a = sh("git", "-C", wt, "apply", patch)
        if a.returncode:
            res["applies"] = False
            res["error"] = a.stderr[:200]
            return res
        env = dict(os.environ, VERIF_REPO=wt, VERIF_EVIDENCE_DIR=os.path.join(wt, ".ev"), VERIF_REPLAY_DIR=os.path.join(wt, ".replay"))
        for c in (ONLY or CHECKS):
            p = sh(os.path.join(HERE, "check"), c, "--tier", tier, env=env)
            new = re.findall(r"^  FINDING (\S+) (.*?) @", p.stdout, re.M)
            err = re.findall(r"^ANALYSIS-ERROR.*$", p.stdout, re.M)
            res["checks"][c] = {"rc": p.returncode, "new": [f"{r_} {k}" for r_, k in new][:6], "error": err[0][:200] if err else ""}
    finally:
        sh("git", "-C", "/repo", "worktree", "remove", "--force", wt)
        shutil.rmtree(wt, ignore_errors=True)
    return res


def main() -> int:
    ap = argparse.ArgumentParser()
    ap.add_argument("dirs", nargs="+")
    ap.add_argument("--tier", default="quick")
    ap.add_argument("--jobs", type=int, default=8)
    ap.add_argument("--json", default=None)
    ap.add_argument("--checks", default="", help="comma-separated subset of checks to run (default: all)")
    a = ap.parse_args()
    ONLY.extend(c for c in a.checks.split(",") if c)
    out = []
    with cf.ThreadPoolExecutor(max_workers=a.jobs) as ex:
        for r in ex.map(lambda d: run_patch(d, a.tier), a.dirs):
            out.append(r)
            if not r.get("applies", False):
                print(f"{r['patch']}: DOES NOT APPLY {r.get('error', '')[:80]}")
                continue
            fired = [c for c, v in r["checks"].items() if v["rc"] == 1]
            broke = [c for c, v in r["checks"].items() if v["rc"] == 2]
            print(f"{r['patch']}: VIOLATION {fired or '-'}  ANALYSIS-ERROR {broke or '-'}")
            for c in fired:
                for n in r["checks"][c]["new"][:2]:
                    print(f"      {c}: {n[:150]}")
            for c in broke:
                print(f"      {c}: {r['checks'][c]['error'][:160]}")
            sys.stdout.flush()
    if a.json:
        with open(a.json, "w") as fh:
            json.dump(out, fh, indent=1)
    return 0


if __name__ == "__main__":
    sys.exit(main())
