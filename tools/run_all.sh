#!/bin/sh
# run every registered check in parallel; print one line per check
TIER="${1:-quick}"
cd "$(dirname "$0")/.."
for c in C01 C02 C03 C05 C06 C07 C08 C09 C10 C11 C12 C13 C14 C15 C16 C17 C18 C19 C20; do
  ( ./check $c --tier $TIER > /tmp/runall_$c.txt 2>&1; echo "$c rc=$? $(grep -c '^KNOWN-FINDING' /tmp/runall_$c.txt) known $(grep -c '  FINDING' /tmp/runall_$c.txt) new $(grep -E 'ANALYSIS-ERROR' /tmp/runall_$c.txt | head -1 | cut -c1-150)" ) &
done
wait
