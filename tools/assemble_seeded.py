#!/venv/bin/python
"""Copy confirmed seeded changes into /verif/seeded/<id>/ (patch.diff, demo.py, meta.json).
usage: tools/assemble_seeded.py <confirm.jsonl> [<suffix-map>]"""
import json, os, re, shutil, sys
HERE = os.path.dirname(os.path.dirname(os.path.abspath(__file__)))
titles = {json.loads(l)["id"]: json.loads(l)["title"] for l in open(os.path.join(HERE, "properties.jsonl"))}
for line in open(sys.argv[1]):
    r = json.loads(line)
    d = r["dir"]
    m = re.search(r"(C\d\d)[/_]([a-z])$", d)
    if not m:
        continue
    prop, v = m.group(1), m.group(2)
    sid = f"{prop}{v}"
    if not r.get("confirmed"):
        print("NOT CONFIRMED", d, r)
        continue
    out = os.path.join(HERE, "seeded", sid)
    os.makedirs(out, exist_ok=True)
    shutil.copy(os.path.join(d, "patch.diff"), os.path.join(out, "patch.diff"))
    shutil.copy(os.path.join(d, "demo.py"), os.path.join(out, "demo.py"))
    src = json.load(open(os.path.join(d, "meta.json")))
    meta = {
        "id": sid,
        "property": prop,
        "property_title": titles[prop],
        "origin": "written by a fresh sub-agent given only the property text and a scratch worktree" + (" (round 1, written against 17aaa5b and rebased by a second sub-agent onto the repaired tree)" if "rebased" in d else ""),
        "summary": src.get("summary"),
        "files": src.get("files"),
        "needs_to_manifest": src.get("needs_to_manifest"),
        "why_tests_pass": src.get("why_tests_pass"),
        "rebase_notes": src.get("rebase_notes"),
        "applies_to": r["head"],
        "confirmed_by_me": {
            "how": "tools/confirm_seed.py in a scratch worktree of /repo HEAD: demo on the clean tree, git apply, demo again, full suite",
            "demo_clean_rc": r["demo_clean_rc"], "demo_patched_rc": r["demo_patched_rc"], "suite_with_patch": r["suite"],
            "new_failures": r["new_failures"],
        },
        "agent_commands_run": src.get("commands_run"),
    }
    json.dump(meta, open(os.path.join(out, "meta.json"), "w"), indent=1, ensure_ascii=False)
    print("kept", sid)
