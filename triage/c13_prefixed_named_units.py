"""Demonstration for the known findings R13.9 / R15.14: for which shipped named units does a registered prefix give a
unit whose str() the parser rejects (leading magnitude, section 5 of DESIGN.md)?  Run against the real code:

    PYTHONPATH=/repo/src /venv/bin/python triage/c13_prefixed_named_units.py

Prints one line per named unit with at least one such prefix; the checks derive the same set statically (first factor
with |exponent| >= 2) and list each member in known_findings.json."""
import measured.systems  # noqa: F401
from measured import Prefix, Unit
from measured.parsing import ParseError

prefixes = sorted({id(p): p for p in Prefix._by_name.values()}.values(), key=lambda p: (p.base, p.exponent))
seen = set()
for name, unit in sorted(Unit._by_name.items()):
    if id(unit) in seen or not unit.symbol:
        continue
    seen.add(id(unit))
    bad = []
    for p in prefixes:
        if p.base == 0:
            continue
        try:
            prefixed = p * unit
            text = str(prefixed)
            if Unit.parse(text) is not prefixed and Unit.parse(text) != prefixed:
                pass  # a different unit: the symbol-collision findings (R13.2), not this one
        except (ParseError, KeyError):
            bad.append((p.name, str(p * unit)))
        except Exception as e:  # noqa: BLE001
            bad.append((p.name, type(e).__name__))
    # a leading magnitude is a number followed by a blank ('1000 m²⋅kg⋅s⁻³'); '2¹³b' is the other recorded piece (INT@term)
    lead = [b for b in bad if b[1][:1].isdigit() and " " in b[1].split("⋅")[0]]
    if lead:
        print(f"{name}: {len(lead)} prefixes, e.g. {lead[0][0]} -> {lead[0][1]!r}")
