"""Triage aid (not a check): str() output outside the parser's language."""
from measured import Prefix, Quantity, Unit
from measured.parsing import ParseError
from measured.si import Kilo, Meter, Milli, Watt

for text, parse in ((str(Kilo * Watt), Unit.parse), (str(Milli * Watt), Unit.parse), (str(Prefix(2, 3) * Meter), Unit.parse),
                    (str(5 * (Prefix(2, 3) * Meter)), Quantity.parse), (str(float("inf") * Meter), Quantity.parse)):
    try:
        parse(text)
        raise SystemExit(f"unexpectedly parsed {text!r}")
    except ParseError as e:
        print(repr(text), "->", type(e).__name__)
