"""Triage aid (not a check): quantities whose JSON decodes to a quantity of another unit, because
the stored unit text (str(unit)) is also the registered symbol of a different unit."""
import json

from measured import systems  # noqa: F401
from measured.astronomical import JulianYear
from measured.json import MeasuredJSONDecoder, MeasuredJSONEncoder
from measured.si import Centi, Day, Hecto, Hour, Milli, Nano, Peta, Tera
from measured.us import Inch, Mile, Rankine

bad = 0
for q in (3 * (Centi * Day), 2 * (Hecto * Hour), 1 * (Peta * JulianYear), 1 * (Hecto * JulianYear),
          1 * (Tera * Rankine), 1 * (Milli * Inch), 1 * (Nano * Mile)):
    text = json.dumps(q, cls=MeasuredJSONEncoder)
    back = json.loads(text, cls=MeasuredJSONDecoder)
    same = back == q
    bad += not same
    print(text, "->", repr(back), "equal" if same else "DIFFERENT")
print(f"{bad} of 7 quantities come back as something else")
