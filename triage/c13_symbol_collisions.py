"""Triage aid (not a check): prefixed symbols that spell another unit's symbol."""
from measured import Unit, systems  # noqa: F401
from measured.astronomical import JulianYear
from measured.si import Centi, Day, Hecto, Hour, Milli, Nano, Peta, Tera
from measured.us import Inch, Mile, Rankine

for unit in (Peta * JulianYear, Tera * Rankine, Centi * Day, Hecto * JulianYear, Hecto * Hour, Milli * Inch, Nano * Mile):
    back = Unit.parse(str(unit))
    print(str(unit), "->", back.name, back.dimension.name)
    assert back is not unit and back.dimension is not unit.dimension or back.name
