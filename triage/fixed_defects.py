"""Triage aid (not a check, no verdict depends on it): reproduces, against whichever
`measured` is on PYTHONPATH, every genuine defect that was repaired by a fix: commit.

    PYTHONPATH=<worktree of 17aaa5b>/src /venv/bin/python triage/fixed_defects.py   -> every line says PRESENT (except c19_half_built_dimension, see there)
    PYTHONPATH=/repo/src                /venv/bin/python triage/fixed_defects.py   -> every line says absent

Each function returns True when the defect is present.
"""
import sys
import threading
import warnings

warnings.filterwarnings("ignore")

from measured import (Dimension, Length, Measurement, Prefix, Quantity, Speed, Time, Unit,  # noqa: E402
                      conversions, systems)  # noqa: F401
from measured.conversions import ConversionNotFound  # noqa: E402
from measured.si import Hectare, Kelvin, Meter, Milli, Second  # noqa: E402


def c09_metric_foot() -> bool:
    from measured.iso import MetricFoot
    try:
        (1 * MetricFoot).in_unit(Meter)
        return False
    except ConversionNotFound:
        return True


def c09_dry_gallon() -> bool:
    from measured.us import Bushel, DryGallon, DryPint, DryQuart, Peck
    direct = (1 * Bushel).in_unit(DryPint).magnitude                       # through the litre definitions
    chain = (1 * Bushel).in_unit(Peck).in_unit(DryGallon).in_unit(DryQuart).in_unit(DryPint).magnitude
    return abs(direct / chain - 1) > 1e-5                                   # 64 vs 32: the size depends on the route


def c09_donkeypower() -> bool:
    from measured.energy import Donkeypower
    from measured.si import Watt
    try:
        (1 * Donkeypower).in_unit(Watt)
        return False
    except (ConversionNotFound, AssertionError):
        return True


def c01_as_ratio() -> bool:
    X = Speed.unit("c01 speed", "cxs")
    W = Time.unit("c01 time", "cxt")
    f"{X * W**-2:/}"
    return (W**2).dimension is not Time**2


def c01_root() -> bool:
    Z = Speed.unit("c01 z", "czz")
    M = Length.unit("c01 m", "czm")
    S = Time.unit("c01 s", "czs")
    try:
        r = (Z**-3 * M**-3 * S**-3).root(2)
    except Exception:
        return False
    want = Dimension.__mul__(Number := (Z.dimension**-2), (M.dimension**-2)) * (S.dimension**-2)  # noqa: F841
    return r.dimension is not want


def c14_pow() -> bool:
    m = Measurement(2 * Meter, 0.1) ** 2
    return abs(m.uncertainty.magnitude - 0.4) > 1e-9


def c14_zero() -> bool:
    try:
        Measurement(0 * Meter, 0.1) * Measurement(2 * Meter, 0.1)
        return False
    except ZeroDivisionError:
        return True


def c10_prefixed_target() -> bool:
    from measured.si import Celsius
    return abs((274.15 * Kelvin).in_unit(Milli * Celsius).magnitude - 1000) > 1e-6


def c07_assert() -> bool:
    from measured.us import Mile
    try:
        (1 * Hectare / Meter).in_unit(Mile)
    except AssertionError:
        return True
    except ConversionNotFound:
        return False
    return False


def c08_stale_plan() -> bool:
    P = Length.unit("c08 p", "c8p")
    Q = Length.unit("c08 q", "c8q")
    try:
        (1 * P).in_unit(Q)
    except ConversionNotFound:
        pass
    P.equals(2 * Q)
    try:
        (1 * P).in_unit(Q)
        return False
    except ConversionNotFound:
        return True


def c17_long_digits() -> bool:
    from measured.parsing import ParseError
    try:
        Quantity.parse("1" * 5000 + " m")
    except ParseError:
        return False
    except ValueError:
        return True
    return False


def c19_alias_leak() -> bool:
    u = Meter / Second**7
    try:
        Unit.derive(u, "c19leak", "c19 leak")
    except ValueError:
        pass
    return "c19leak" in Unit._by_name


def c19_deci() -> bool:
    from measured.si import Deci
    return Deci.name is None


def c19_deca_symbol() -> bool:
    from measured.si import Deca
    # both deca and deci were declared with the symbol d; the SI symbol of deca is da
    return Prefix._by_symbol.get("da") is not Deca


def c19_prefix_rebind() -> bool:
    from measured.si import Kilo
    try:
        Prefix(10, 99, name="kilo", symbol="k")
    except ValueError:
        return False
    return Prefix._by_symbol["k"] is not Kilo


def c19_dimension_rebind() -> bool:
    before = Dimension._by_name["area"]
    try:
        Dimension.derive(Length**7, name="area")
    except ValueError:
        return False
    return Dimension._by_name["area"] is not before


def c19_half_built_dimension() -> bool:
    """Not in the pinned commit: introduced by the name guard of fix 7c8ba86, repaired by c4c2ae2."""
    key = tuple([0, 7] + [0] * (len(Dimension._fundamental) - 2))
    try:
        Dimension(key, name="area")
    except ValueError:
        pass
    # Dimension.define re-keys every interned dimension by its exponents
    return any(not hasattr(d, "exponents") for d in Dimension._known.values())


def c12_asymmetric_eq() -> bool:
    a, b = Measurement(5 * Meter, 1), Measurement(5 * Meter, 3)
    return (a == b) != (b == a)


def c20_race() -> bool:
    """Deterministic schedule: thread A is parked right after its failed membership test
    in Dimension.__new__ while thread B interns the same key."""
    key = tuple([0] * (len(Dimension._fundamental) - 1) + [41])
    results = {}
    parked = threading.Event()
    release = threading.Event()

    def tracer(frame, event, arg):
        if frame.f_code.co_name == "__new__" and frame.f_code.co_filename.endswith("measured/__init__.py"):
            def line(frame, event, arg):
                if event == "line" and threading.current_thread().name == "A" and "super().__new__" in _src(frame) and not parked.is_set():
                    parked.set()
                    release.wait(5)
                return line
            return line
        return None

    def _src(frame):
        import linecache
        return linecache.getline(frame.f_code.co_filename, frame.f_lineno)

    def a():
        sys.settrace(tracer)
        results["A"] = Dimension(key)
        sys.settrace(None)

    ta = threading.Thread(target=a, name="A")
    ta.start()
    parked.wait(5)
    results["B"] = Dimension(key)
    release.set()
    ta.join()
    return results["A"] is not results["B"]


CHECKS = [c09_metric_foot, c09_dry_gallon, c09_donkeypower, c01_as_ratio, c01_root, c14_pow, c14_zero, c10_prefixed_target, c07_assert,
          c08_stale_plan, c17_long_digits, c19_alias_leak, c19_deci, c19_deca_symbol, c19_prefix_rebind,
          c19_dimension_rebind, c19_half_built_dimension, c12_asymmetric_eq, c20_race]

if __name__ == "__main__":
    present = 0
    for f in CHECKS:
        try:
            r = f()
        except Exception as e:  # noqa: BLE001
            r = f"error: {type(e).__name__}: {e}"
        present += r is True
        print(f"{f.__name__:24s} {'PRESENT' if r is True else ('absent' if r is False else r)}")
    print(f"{present} of {len(CHECKS)} defects present")
