"""Triage aid (not a check): quantities whose JSON does not decode."""
import json

from measured import Prefix
from measured.json import MeasuredJSONDecoder, MeasuredJSONEncoder
from measured.parsing import ParseError
from measured.si import Kilo, Meter, Milli, Watt

for q in (3 * (Kilo * Watt), 3 * (Milli * Watt), 1 * (Prefix(2, 3) * Meter)):
    text = json.dumps(q, cls=MeasuredJSONEncoder)
    try:
        json.loads(text, cls=MeasuredJSONDecoder)
        raise SystemExit(f"unexpectedly decoded {text}")
    except ParseError as e:
        print(text, "->", type(e).__name__)
