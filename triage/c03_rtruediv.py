"""Triage aid (not a check): number / quantity keeps the unit instead of inverting it."""
from measured.si import Meter, Centi

q = 2 / (4 * Meter)
print(q, q.unit.dimension)
assert q.unit is Meter          # should be Meter**-1
a, b = 1 / (5 * Meter), 1 / (500 * (Centi * Meter))
print(a, b, a == b)
assert (5 * Meter) == (500 * (Centi * Meter)) and a != b   # equal operands, different results
