"""Triage aid (not a check): the TonOfRefrigeration inconsistency against the real library.
12 000 BTU per hour is 3516.85 W when the conversion is routed through the
TonOfRefrigeration definitions, but 3514.50 W when the same energy is converted through
the BTU -> joule definition and divided by the same hour."""
from measured import systems  # noqa: F401
from measured.energy import BritishThermalUnit, TonOfRefrigeration  # noqa: F401
from measured.si import Hour, Joule, Watt

via_ton = (12000 * BritishThermalUnit / Hour).in_unit(Watt).magnitude
via_joule = (12000 * BritishThermalUnit).in_unit(Joule).magnitude / 3600
print(via_ton, via_joule, via_ton / via_joule)
assert abs(via_ton / via_joule - 1) > 6e-5
