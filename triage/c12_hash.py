"""Triage aid (not a check): equal quantities with different hashes."""
from measured.si import Kilo, Meter

a, b = 1 * (Kilo * Meter), 1000 * Meter
print(a == b, hash(a) == hash(b))
assert a == b and hash(a) != hash(b)
