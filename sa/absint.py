"""E4 - physical-value abstract interpretation ("dimensional analysis of the
dimensional-analysis library").

A syntax-directed abstract interpreter for the short operator bodies of measured,
with idiom recognisers for the loop shapes the repository uses to build exponent
vectors and factor maps.  It evaluates no repository code; it folds expressions into
normal forms (sa/poly.py) over named atoms and explores only the `isinstance` /
identity arms of one function at a time.  Calls into lower layers are replaced by the
*specification* of that layer (each layer is verified against its own specification
by its own rule); helpers without a specification are inlined to a bounded depth.

Abstract values
  NumV(rat, ut)        number with normal form `rat`, expressed in unit type `ut`
  GroupV(kind, mono)   element of one of the three abelian groups
                        kind 'D' dimension / 'F' factor map / 'P' prefix (unit level)
  PrefixS(base, exp)   prefix at the Prefix layer: log-value = exp * ln(base)
  UnitV(p, f, d)       three separately tracked components
  QuantV(mag, unit)    physical value = mag * val(p) * val(f)
  MeasV(measurand, uncertainty)
"""
from __future__ import annotations

import ast
import copy
from dataclasses import dataclass, field
from fractions import Fraction
from typing import Any, Callable, Dict, List, Optional, Set, Tuple, Union

from .calls import Resolver
from .core import AnalysisError
from .model import BINOPS, CMPOPS, FuncInfo, Program
from .poly import Lin, Mono, Poly, Rat, mono_mul, mono_pow


class Unsupported(AnalysisError):
    """A construct outside the interpreted subset inside an anchored function."""


# --------------------------------------------------------------------------- values
class AV:
    pass


@dataclass
class NotImpl(AV):
    pass


@dataclass
class NoneV(AV):
    pass


@dataclass
class BoolV(AV):
    value: Optional[bool] = None
    cond: Any = None  # description of an undecided condition (for refinement)


@dataclass
class StrV(AV):
    value: Optional[str] = None


@dataclass
class OpaqueV(AV):
    why: str = ""


@dataclass
class TupleV(AV):
    items: List[AV]


@dataclass
class IntParam(AV):
    """A symbolic integer parameter (power, degree)."""
    name: str
    lin: Lin


@dataclass
class GroupV(AV):
    kind: str                    # 'D' | 'F' | 'P'
    mono: Mono
    flags: Set[str] = field(default_factory=set)   # for 'F': simplified, fallback, floordiv, pos, neg, raw
    vec: bool = False            # True: this is the raw exponent container (.exponents / .factors view)

    def mul(self, o: "GroupV", sign: int = 1) -> "GroupV":
        om = o.mono if sign == 1 else (mono_pow(o.mono, Lin(-1)) or ())
        return GroupV(self.kind, mono_mul(self.mono, om), set(self.flags) | set(o.flags), self.vec)

    def pow(self, e: Lin) -> "GroupV":
        m = mono_pow(self.mono, e)
        if m is None:
            raise Unsupported("power of a group element by a non-linear exponent")
        return GroupV(self.kind, m, set(self.flags), self.vec)


def G(kind: str, name: str) -> GroupV:
    return GroupV(kind, ((f"{kind}:{name}", Lin(1)),))


def identity(kind: str) -> GroupV:
    return GroupV(kind, ())


@dataclass
class UnitV(AV):
    p: GroupV
    f: GroupV
    d: GroupV
    tag: str = ""

    def value(self) -> Rat:
        r = Rat.const(1)
        for g in (self.p, self.f):
            for a, e in g.mono:
                r = r * Rat(Poly({((a, e),): Fraction(1)}))
        return r

    def same(self, o: "UnitV") -> bool:
        return self.p.mono == o.p.mono and self.f.mono == o.f.mono


def unit_atom(name: str) -> UnitV:
    return UnitV(G("P", name), G("F", name), G("D", name), name)


ONE = UnitV(identity("P"), identity("F"), identity("D"), "One")


@dataclass
class NumV(AV):
    rat: Rat
    ut: Optional[UnitV] = None        # unit the number is expressed in (None: dimensionless)
    decimalish: bool = False

    def unit_type(self) -> UnitV:
        return self.ut or ONE


@dataclass
class PrefixS(AV):
    """Prefix at the Prefix layer."""
    base: Rat
    exponent: Rat
    logv: Rat
    tag: str = ""


def prefix_struct(name: str) -> PrefixS:
    b = Rat.atom(f"b:{name}")
    e = Rat.atom(f"e:{name}")
    return PrefixS(b, e, e * Rat.atom(f"ln(b:{name})"), name)


@dataclass
class QuantV(AV):
    mag: NumV
    unit: UnitV

    def value(self) -> Rat:
        return self.mag.rat * self.unit.value()


@dataclass
class MeasV(AV):
    measurand: QuantV
    uncertainty: QuantV


@dataclass
class LogUnitV(AV):
    """LogarithmicUnit: base, prefix value p, power ratio k, reference quantity."""
    base: Rat
    pval: Rat
    k: Rat
    reference: QuantV


@dataclass
class LevelV(AV):
    mag: NumV
    unit: LogUnitV


@dataclass
class ObjV(AV):
    """A record with named abstract fields (logarithm objects, json dicts...)."""
    cls: str
    fields: Dict[str, AV]


@dataclass
class DictV(AV):
    """A mutable local factor map under construction."""
    g: GroupV


@dataclass
class Outcome:
    kind: str                       # 'return' | 'raise' | 'fall'
    value: Optional[AV]
    path: List[Tuple[str, bool]]
    node: Optional[ast.AST] = None
    exc: str = ""
    ren: Dict[str, str] = field(default_factory=dict)   # atom identifications the path implies
    trivial: List[Tuple[str, Mono]] = field(default_factory=list)  # group elements the path states to be trivial
    plan: int = 0


@dataclass
class Event:
    kind: str           # 'div' | 'ctor' | 'add' | 'cmp' | 'floordiv'
    node: ast.AST
    data: Dict[str, Any]
    path: List[Tuple[str, bool]] = field(default_factory=list)
    ren: Dict[str, str] = field(default_factory=dict)
    trivial: List[Any] = field(default_factory=list)
    plan: int = 0       # which re-interpretation (combination of choice points) produced it


class Env(dict):
    def fork(self) -> "Env":
        e = Env()
        for k, v in self.items():
            e[k] = copy.deepcopy(v) if isinstance(v, (DictV,)) else (dict(v) if k == "__ren__" else (list(v) if k == "__trivial__" else v))
        return e


# ------------------------------------------------------------------ opaque heads
class Heads:
    """Opaque atoms with a known square: sqrt(E) (a^2 = E) and abs(E) (a^2 = E^2)."""

    def __init__(self) -> None:
        self.square: Dict[str, Rat] = {}
        self.pows: Dict[str, Tuple[Rat, Rat]] = {}
        self.n = 0

    def power(self, base: Rat, exponent: Rat) -> str:
        for k, (b, e) in self.pows.items():
            if b == base and e == exponent:
                return k
        self.n += 1
        name = f"POW#{self.n}"
        self.pows[name] = (base, exponent)
        return name

    def sqrt(self, e: Rat) -> Rat:
        # monomial: exact half power
        if e.d == Poly.const(1) and e.n.is_monomial():
            (m, c), = e.n.terms.items()
            half = mono_pow(m, Lin(Fraction(1, 2)))
            if half is not None and c > 0:
                from .num import _exact_root
                r = _exact_root(Fraction(c), 2)
                if r is not None:
                    return Rat(Poly({half: r}))
        for k, v in self.square.items():
            if k.startswith("sqrt") and v == e:
                return Rat.atom(k)
        self.n += 1
        name = f"sqrt#{self.n}"
        self.square[name] = e
        return Rat.atom(name)

    def abs(self, e: Rat) -> Rat:
        sq = e * e
        for k, v in self.square.items():
            if k.startswith("abs") and v == sq:
                return Rat.atom(k)
        self.n += 1
        name = f"abs#{self.n}"
        self.square[name] = sq
        return Rat.atom(name)

    def squared(self, r: Rat) -> Rat:
        """r*r with a^2 rewritten for every opaque head a."""
        s = r * r
        changed = True
        guard = 0
        while changed and guard < 20:
            guard += 1
            changed = False
            for a, e in self.square.items():
                if a in s.atoms():
                    s2 = self._rewrite(s, a, e)
                    if s2 is not None:
                        s = s2
                        changed = True
        return s

    @staticmethod
    def _rewrite(r: Rat, atom: str, sq: Rat) -> Optional[Rat]:
        def rw(p: Poly) -> Optional[Rat]:
            total = Rat(Poly())
            for m, c in p.terms.items():
                term = Rat(Poly.const(c))
                for k, e in m:
                    if k == atom:
                        # an even power (symbolic integer parameters included: 2n-2 is even for every integer n)
                        coeffs = [e.c] + list(e.t.values())
                        if any(c_.denominator != 1 or int(c_) % 2 for c_ in coeffs):
                            return None
                        pw = sq.pow_lin(e.scale(Fraction(1, 2)))
                        if pw is None:
                            return None
                        term = term * pw
                    else:
                        term = term * Rat(Poly({((k, e),): Fraction(1)}))
                total = total + term
            return total
        n, d = rw(r.n), rw(r.d)
        if n is None or d is None:
            return None
        return n / d


class _EventList(list):
    def __init__(self, owner: Any) -> None:
        super().__init__()
        self.owner = owner

    def append(self, ev: Any) -> None:
        ev.path = list(getattr(self.owner, "cur_path", []))
        ev.ren = dict(getattr(self.owner, "cur_ren", {}))
        ev.trivial = list(getattr(self.owner, "cur_trivial", [])) + list(getattr(self.owner, "active_trivial", []))
        super().append(ev)


# --------------------------------------------------------------------- interpreter
Spec = Callable[["Interp", ast.AST, List[AV], Dict[str, AV]], Optional[AV]]


class Interp:
    def __init__(self, prog: Program, resolver: Resolver, specs: Optional[Dict[str, Spec]] = None,
                 inline_depth: int = 2) -> None:
        self.prog = prog
        self.r = resolver
        self.specs: Dict[str, Spec] = specs if specs is not None else {}
        self.inline_depth = inline_depth
        self.heads = Heads()
        self.events: List[Event] = _EventList(self)
        self.depth = 0
        self.trace_inlined: List[str] = []
        self.globals: Dict[str, AV] = {}
        self.cur_path: List[Tuple[str, bool]] = []
        self.choice_plan: List[int] = []
        self.choice_log: List[int] = []
        self.choice_notes: List[Tuple[str, List[Tuple[str, bool]]]] = []
        self.active_ren: Dict[str, str] = {}
        self.active_trivial: List[Tuple[str, Mono]] = []

    # ------------------------------------------------------------ functions
    def run(self, qual: str, args: Dict[str, AV]) -> List[Outcome]:
        fi = self.prog.func(qual)
        env = Env()
        for p in fi.params():
            if p in args:
                env[p] = args[p]
        a = fi.node.args  # type: ignore[attr-defined]
        pos = a.posonlyargs + a.args
        for x, d in zip(reversed(pos), reversed(a.defaults)):
            if x.arg not in env:
                env[x.arg] = self.eval(fi, d, env)
        for p in fi.params():
            if p not in env:
                env[p] = OpaqueV(f"unbound parameter {p}")
        if self.depth == 0 and self.active_ren:
            env["__ren__"] = dict(self.active_ren)
        return self.exec_block(fi, fi.node.body, 0, env, [])  # type: ignore[attr-defined]

    def exec_block(self, fi: FuncInfo, stmts: List[ast.stmt], i: int, env: Env,
                   path: List[Tuple[str, bool]], cont: Optional[Callable[[Env, List[Tuple[str, bool]]], List[Outcome]]] = None) -> List[Outcome]:
        while i < len(stmts):
            st = stmts[i]
            i += 1
            self.cur_path = list(path)
            self.cur_ren = dict(env.get("__ren__", {}))
            self.cur_trivial = list(env.get("__trivial__", []))
            if isinstance(st, ast.Expr):
                if isinstance(st.value, ast.Constant):
                    continue
                self.eval(fi, st.value, env)
                continue
            if isinstance(st, ast.Pass):
                continue
            if isinstance(st, (ast.Assign, ast.AnnAssign)):
                if isinstance(st, ast.AnnAssign) and st.value is None:
                    continue
                targets = st.targets if isinstance(st, ast.Assign) else [st.target]
                single = self._single_factor(fi, st.value, targets, env)  # type: ignore[arg-type]
                if single:
                    continue
                v = self.eval(fi, st.value, env)  # type: ignore[arg-type]
                for t in targets:
                    self.assign(fi, t, v, env)
                continue
            if isinstance(st, ast.AugAssign):
                cur = self.eval(fi, _as_load(st.target), env)
                v = self.eval(fi, st.value, env)
                self.assign(fi, st.target, self.binop(fi, st, st.op, cur, v, env), env)
                continue
            if isinstance(st, ast.Return):
                v = self.eval(fi, st.value, env) if st.value is not None else NoneV()
                return [Outcome("return", v, list(path), st, ren=dict(env.get("__ren__", {})), trivial=list(env.get("__trivial__", [])))]
            if isinstance(st, ast.Raise):
                exc = ast.unparse(st.exc.func) if isinstance(st.exc, ast.Call) else (ast.unparse(st.exc) if st.exc else "")
                return [Outcome("raise", None, list(path), st, exc, ren=dict(env.get("__ren__", {})))]
            if isinstance(st, ast.Assert):
                # an assert states a belief; the analysis keeps the true branch and records it
                self.events.append(Event("assert", st, {"text": ast.unparse(st.test)}))
                t = self.eval(fi, st.test, env)
                self.refine(fi, st.test, True, env)
                continue
            if isinstance(st, ast.If):
                t = self.eval(fi, st.test, env)
                rest = stmts[i:]

                def run_arm(body: List[ast.stmt], truth: bool, e: Env) -> List[Outcome]:
                    self.refine(fi, st.test, truth, e)
                    p2 = path + [(ast.unparse(st.test), truth)]
                    outs = self.exec_block(fi, body, 0, e, p2)
                    final: List[Outcome] = []
                    for o in outs:
                        if o.kind == "fall":
                            final += self.exec_block(fi, rest, 0, o.value, o.path, cont)  # type: ignore[arg-type]
                        else:
                            final.append(o)
                    return final
                if isinstance(t, BoolV) and t.value is not None:
                    arm = st.body if t.value else st.orelse
                    outs = self.exec_block(fi, arm, 0, env, path)
                    final: List[Outcome] = []
                    for o in outs:
                        if o.kind == "fall":
                            final += self.exec_block(fi, rest, 0, o.value, o.path, cont)  # type: ignore[arg-type]
                        else:
                            final.append(o)
                    return final
                return run_arm(st.body, True, env.fork()) + run_arm(st.orelse, False, env.fork())
            if isinstance(st, ast.For):
                it_ = st.iter
                if isinstance(it_, (ast.Tuple, ast.List)) and not st.orelse and len(it_.elts) <= 8 and not any(isinstance(x, ast.Starred) for x in it_.elts) \
                        and not any(isinstance(x, (ast.Break, ast.Continue)) for b in st.body for x in ast.walk(b)):
                    # a loop over a literal sequence is its body written out once per element
                    unrolled: List[ast.stmt] = []
                    for el in it_.elts:
                        asg = ast.Assign(targets=[st.target], value=el, lineno=st.lineno)
                        ast.copy_location(asg, st)
                        ast.fix_missing_locations(asg)
                        unrolled += [asg] + list(st.body)
                    stmts = unrolled + list(stmts[i:])
                    i = 0
                    continue
                self.exec_for(fi, st, env)
                continue
            if isinstance(st, ast.Try):
                outs = self.exec_block(fi, st.body, 0, env, path)
                final2: List[Outcome] = []
                for o in outs:
                    if o.kind == "fall":
                        final2 += self.exec_block(fi, stmts[i:], 0, o.value, o.path, cont)  # type: ignore[arg-type]
                    else:
                        final2.append(o)
                # handlers: explored as separate outcomes from the state at try entry
                for h in st.handlers:
                    hp = path + [(f"except {ast.unparse(h.type) if h.type else ''}", True)]
                    for o in self.exec_block(fi, h.body, 0, env.fork(), hp):
                        if o.kind == "fall":
                            final2 += self.exec_block(fi, stmts[i:], 0, o.value, o.path, cont)  # type: ignore[arg-type]
                        else:
                            final2.append(o)
                return final2
            raise Unsupported(f"statement {type(st).__name__} at {fi.where(st)} is outside the interpreted subset")
        return [Outcome("fall", env, list(path))]  # type: ignore[arg-type]

    # -------------------------------------------------------------- idioms
    @staticmethod
    def _guard_only(stmts: List[ast.stmt]) -> bool:
        """A block that can only raise (or do nothing): `if <test>: raise ...`, nested."""
        for s_ in stmts:
            if isinstance(s_, (ast.Raise, ast.Pass)):
                continue
            if isinstance(s_, ast.Expr) and isinstance(s_.value, ast.Constant):
                continue
            if isinstance(s_, ast.If) and Interp._guard_only(s_.body) and Interp._guard_only(s_.orelse):
                continue
            return False
        return True

    def exec_for(self, fi: FuncInfo, st: ast.For, env: Env) -> None:
        """for k, e in X.items(): m[k] += e   (merge)   /  -= e"""
        it = st.iter
        if self._guard_only(st.body) and not st.orelse:
            # an exactness / validation loop: it can raise but computes nothing
            self.events.append(Event("guard-loop", st, {"func": fi.qual}))
            return
        # filter-copy loop:  for k, e in X.items(): [if <filters>:] D[k] = f(e)
        if (isinstance(it, ast.Call) and isinstance(it.func, ast.Attribute) and it.func.attr == "items"
                and isinstance(st.target, ast.Tuple) and len(st.target.elts) == 2
                and all(isinstance(x, ast.Name) for x in st.target.elts) and st.body and not st.orelse):
            # each body statement is `[if <filters>:] D[k] = f(e)` into its own fresh dict: independent comprehensions
            plans = []

            def _flatten(node_: ast.stmt, conds_: List[ast.AST]) -> Optional[List[Tuple[ast.stmt, List[ast.AST]]]]:
                """`if a: S1 elif b: S2 else: S3` -> (S1, [a]), (S2, [not a, b]), (S3, [not a, not b]); one statement per arm"""
                if isinstance(node_, ast.If) and len(node_.body) == 1 and len(node_.orelse) <= 1:
                    first = _flatten(node_.body[0], conds_ + [node_.test])
                    if first is None:
                        return None
                    if not node_.orelse:
                        return first
                    inv = {ast.GtE: ast.Lt, ast.Lt: ast.GtE, ast.Gt: ast.LtE, ast.LtE: ast.Gt, ast.Eq: ast.NotEq, ast.NotEq: ast.Eq}
                    t_ = node_.test
                    if isinstance(t_, ast.Compare) and len(t_.ops) == 1 and type(t_.ops[0]) in inv:
                        neg: ast.AST = ast.copy_location(ast.Compare(left=t_.left, ops=[inv[type(t_.ops[0])]()], comparators=list(t_.comparators)), t_)
                    else:
                        neg = ast.copy_location(ast.UnaryOp(op=ast.Not(), operand=t_), t_)
                    rest = _flatten(node_.orelse[0], conds_ + [neg])
                    return None if rest is None else first + rest
                if isinstance(node_, ast.If):
                    return None
                return [(node_, conds_)]
            body_items: List[Tuple[ast.stmt, List[ast.AST]]] = []
            flat_ok = True
            for inner0 in st.body:
                if self._guard_only([inner0]):
                    # `if <element is not exact>: raise` fused into the copy loop: it can raise but computes nothing
                    self.events.append(Event("guard-loop", inner0, {"func": fi.qual}))
                    continue
                fl = _flatten(inner0, [])
                if fl is None:
                    flat_ok = False
                    break
                body_items += fl
            for inner, conds in (body_items if flat_ok else []):
                if not (isinstance(inner, ast.Assign) and len(inner.targets) == 1 and isinstance(inner.targets[0], ast.Subscript)
                        and isinstance(inner.targets[0].value, ast.Name) and isinstance(inner.targets[0].slice, ast.Name)):
                    plans = []
                    break
                dname = inner.targets[0].value.id
                cur = env.get(dname)
                fresh = (isinstance(cur, GroupV) and cur.vec and not cur.mono and "empty" in cur.flags) or \
                        (isinstance(cur, DictV) and not cur.g.mono)
                if not fresh or any(p_[0] == dname for p_ in plans):
                    plans = []
                    break
                plans.append((dname, inner, conds))
            if plans:
                results = []
                for dname, inner, conds in plans:
                    comp = ast.DictComp(
                        key=inner.targets[0].slice, value=inner.value,
                        generators=[ast.comprehension(target=st.target, iter=it, ifs=conds, is_async=0)])
                    ast.copy_location(comp, st)
                    ast.fix_missing_locations(comp)
                    res = self.dictcomp(fi, comp, env)
                    if not isinstance(res, GroupV):
                        results = []
                        break
                    results.append((dname, res))
                if results:
                    for dname, res in results:
                        res.flags.discard("empty")
                        env[dname] = res
                    return
        if (isinstance(it, ast.Call) and isinstance(it.func, ast.Attribute) and it.func.attr == "items"
                and isinstance(st.target, ast.Tuple) and len(st.target.elts) == 2
                and all(isinstance(x, ast.Name) for x in st.target.elts) and len(st.body) == 1):
            src = self.eval(fi, it.func.value, env)
            kvar, evar = (x.id for x in st.target.elts)  # type: ignore[attr-defined]
            b = st.body[0]
            if (isinstance(src, GroupV) and isinstance(b, ast.AugAssign) and isinstance(b.target, ast.Subscript)
                    and isinstance(b.target.value, ast.Name) and isinstance(b.target.slice, ast.Name)
                    and b.target.slice.id == kvar):
                tgt = env.get(b.target.value.id)
                if isinstance(tgt, DictV):
                    if not tgt.g.mono and tgt.g.kind != src.kind:
                        tgt.g = GroupV(src.kind, (), set(tgt.g.flags), True)   # an empty accumulator takes the kind of what is merged in
                    kind, coefs = self.elementwise(fi, b.value, [evar], env)
                    if kind != "lin":
                        raise Unsupported(f"merge loop with a non-linear update at {fi.where(st)}")
                    c = coefs[evar]
                    if isinstance(b.op, ast.Sub):
                        c = -c
                    elif not isinstance(b.op, ast.Add):
                        raise Unsupported(f"merge loop with operator {type(b.op).__name__} at {fi.where(st)}")
                    tgt.g = tgt.g.mul(src.pow(c))
                    tgt.g.flags.discard("simplified")
                    return
            # fold: acc = acc * k.dimension ** e   (image of the factor map under `dimension`)
            if isinstance(src, (GroupV, DictV)) and len(st.body) == 1:
                g = src.g if isinstance(src, DictV) else src
                b = st.body[0]
                tname, val = None, None
                if isinstance(b, ast.Assign) and len(b.targets) == 1 and isinstance(b.targets[0], ast.Name) \
                        and isinstance(b.value, ast.BinOp) and isinstance(b.value.op, ast.Mult):
                    tname = b.targets[0].id
                    for acc, term in ((b.value.left, b.value.right), (b.value.right, b.value.left)):
                        if isinstance(acc, ast.Name) and acc.id == tname:
                            val = term
                elif isinstance(b, ast.AugAssign) and isinstance(b.op, ast.Mult) and isinstance(b.target, ast.Name):
                    tname, val = b.target.id, b.value
                if tname and val is not None and self._is_dim_power(val, kvar, evar):
                    acc_v = env.get(tname)
                    if isinstance(acc_v, GroupV) and acc_v.kind == "D":
                        env[tname] = acc_v.mul(self.fold_image(g))
                        return
        raise Unsupported(f"for-loop shape at {fi.where(st)} is not a recognised factor-merge idiom")

    @staticmethod
    def _is_dim_power(val: ast.AST, kvar: str, evar: str) -> bool:
        return (isinstance(val, ast.BinOp) and isinstance(val.op, ast.Pow)
                and isinstance(val.left, ast.Attribute) and val.left.attr == "dimension"
                and isinstance(val.left.value, ast.Name) and val.left.value.id == kvar
                and isinstance(val.right, ast.Name) and val.right.id == evar)

    @staticmethod
    def fold_image(g: GroupV) -> GroupV:
        """prod k.dimension**e over a factor map: its image under the homomorphism dim."""
        m = tuple(sorted((("D:" + a[2:] if a.startswith("F:") else a, e) for a, e in g.mono), key=lambda x: x[0]))
        return GroupV("D", m, {"fold"})

    def elementwise(self, fi: FuncInfo, expr: ast.AST, evars: List[str], env: Env) -> Tuple[str, Dict[str, Lin]]:
        """Classify an element expression over exponent variables:
        ('lin', {var: coef})  a linear form (coef may be symbolic: power, 1/degree)
        ('pos', {var: 1}) / ('neg', {var: 1})  sign filters (e if e >= 0 else 0 / -e if e < 0 else 0)
        """
        if isinstance(expr, ast.IfExp):
            t = expr.test
            if (isinstance(t, ast.Compare) and len(t.ops) == 1 and isinstance(t.left, ast.Name) and t.left.id in evars
                    and isinstance(t.comparators[0], ast.Constant) and t.comparators[0].value == 0
                    and isinstance(expr.orelse, ast.Constant) and expr.orelse.value == 0):
                v = t.left.id
                k, c = self.elementwise(fi, expr.body, evars, env)
                if k == "lin" and set(c) == {v}:
                    if isinstance(t.ops[0], (ast.GtE, ast.Gt)) and c[v] == Lin(1):
                        return "pos", {v: Lin(1)}
                    if isinstance(t.ops[0], (ast.Lt, ast.LtE)) and c[v] == Lin(-1):
                        return "neg", {v: Lin(1)}
            raise Unsupported(f"conditional element expression {ast.unparse(expr)} at {fi.where(expr)}")
        if isinstance(expr, ast.Name) and expr.id in evars:
            return "lin", {expr.id: Lin(1)}
        if isinstance(expr, ast.UnaryOp) and isinstance(expr.op, ast.USub):
            k, c = self.elementwise(fi, expr.operand, evars, env)
            return k, {v: -x for v, x in c.items()}
        if isinstance(expr, ast.Call) and isinstance(expr.func, ast.Name) and expr.func.id == "int" and len(expr.args) == 1:
            return self.elementwise(fi, expr.args[0], evars, env)
        if isinstance(expr, ast.BinOp):
            if isinstance(expr.op, (ast.Add, ast.Sub)):
                k1, c1 = self.elementwise(fi, expr.left, evars, env)
                k2, c2 = self.elementwise(fi, expr.right, evars, env)
                if k1 == k2 == "lin":
                    out = dict(c1)
                    for v, x in c2.items():
                        out[v] = out.get(v, Lin(0)) + (x if isinstance(expr.op, ast.Add) else -x)
                    return "lin", out
            if isinstance(expr.op, (ast.Mult, ast.FloorDiv, ast.Div)):
                # element * scalar / scalar * element / element // scalar
                sides = [(expr.left, expr.right), (expr.right, expr.left)] if isinstance(expr.op, ast.Mult) else [(expr.left, expr.right)]
                for el, sc in sides:
                    try:
                        k, c = self.elementwise(fi, el, evars, env)
                    except Unsupported:
                        continue
                    if k != "lin":
                        continue
                    s = self.eval(fi, sc, env)
                    lin = self.as_lin(s)
                    if lin is None:
                        continue
                    if isinstance(expr.op, ast.Mult):
                        out2 = {}
                        for v, x in c.items():
                            y = x.mul(lin)
                            if y is None:
                                raise Unsupported("non-linear element scaling")
                            out2[v] = y
                        return "lin", out2
                    inv = self.inverse_param(lin)
                    if inv is None:
                        raise Unsupported(f"division of an element by {ast.unparse(sc)}")
                    self.events.append(Event("floordiv" if isinstance(expr.op, ast.FloorDiv) else "truediv-elem",
                                             expr, {"by": ast.unparse(sc), "func": fi.qual}))
                    return "lin", {v: x.mul(inv) or Lin(0) for v, x in c.items()}
        if isinstance(expr, ast.Call) and isinstance(expr.func, ast.Name) and not expr.keywords and self.depth < self.inline_depth:
            r = self._elementwise_helper(fi, expr, evars, env)
            if r is not None:
                return r
        raise Unsupported(f"element expression {ast.unparse(expr)} at {fi.where(expr)}")

    @staticmethod
    def _consistent(path: List[Tuple[str, bool]]) -> bool:
        """sign facts a path states about plain names (`<abs: x >= 0>`, `<ifexp: not x < 0>`) must not contradict each other"""
        import re as _re
        facts: Dict[str, Set[str]] = {}
        for text, truth in path:
            if not truth:
                continue
            body = text[text.index(": ") + 2:].rstrip(">") if text.startswith("<") and ": " in text else text
            for part in body.split(" & "):
                neg = part.startswith("not ")
                m = _re.fullmatch(r"(\w+) (>=|<|>|<=) 0", part[4:] if neg else part)
                if not m:
                    continue
                nm, op = m.group(1), m.group(2)
                if neg:
                    op = {">=": "<", "<": ">=", ">": "<=", "<=": ">"}[op]
                facts.setdefault(nm, set()).add(op)
        for ops in facts.values():
            if (">=" in ops or ">" in ops) and "<" in ops:
                return False
            if ">" in ops and "<=" in ops:
                return False
        return True

    def _elementwise_helper(self, fi: FuncInfo, expr: ast.Call, evars: List[str], env: Env) -> Optional[Tuple[str, Dict[str, Lin]]]:
        """`helper(element, scalar...)` with a same-module integer helper: the helper is interpreted on a symbolic element; a
        None result is its way of saying "no whole result" (the caller's guard); every other consistent path must be a
        multiple of the element.  Several different multiples (a sign that depends on a scalar's sign) are a choice point."""
        mi = self.prog.modules[fi.module]
        target = mi.functions.get(expr.func.id)  # type: ignore[union-attr]
        if target is None or target not in self.prog.functions:
            return None
        callee = self.prog.functions[target]
        params = callee.params()
        if len(params) != len(expr.args):
            return None
        bind: Dict[str, AV] = {}
        elem_var: Optional[str] = None
        coef: Optional[Lin] = None
        for p_, a_ in zip(params, expr.args):
            try:
                k, c = self.elementwise(fi, a_, evars, env)
            except Unsupported:
                k, c = "", {}
            if k == "lin" and len(c) == 1 and elem_var is None and any(isinstance(x, ast.Name) and x.id in evars for x in ast.walk(a_)):
                (elem_var, coef), = c.items()
                bind[p_] = IntParam("@elem", Lin.sym("@elem"))
            else:
                bind[p_] = self.eval(fi, a_, env)
        if elem_var is None or coef is None:
            return None
        self.depth += 1
        try:
            outs = self.run(target, bind)
        except Unsupported:
            return None
        finally:
            self.depth -= 1
        alts: List[Tuple[Lin, List[Tuple[str, bool]]]] = []
        for o in outs:
            if o.kind != "return" or isinstance(o.value, NoneV) or not self._consistent(o.path):
                continue
            n_ = self.to_num(o.value)
            if n_ is None:
                return None
            q = n_.rat / Rat.atom("@elem")
            if "@elem" in q.atoms():
                return None
            l = self.rat_as_lin(q)
            if l is None:
                return None
            if not any(l == a for a, _ in alts):
                alts.append((l, o.path))
        if not alts:
            return None
        self.events.append(Event("elem-helper", expr, {"helper": target, "alternatives": len(alts), "func": fi.qual}))
        pick = 0
        if len(alts) > 1:
            i = len(self.choice_log)
            pick = self.choice_plan[i] if i < len(self.choice_plan) else 0
            self.choice_log.append(len(alts))
            if pick >= len(alts):
                pick = 0
            self.choice_notes.append((target, alts[pick][1]))
        y = coef.mul(alts[pick][0])
        if y is None:
            raise Unsupported("non-linear element scaling through a helper")
        return "lin", {elem_var: y}

    @staticmethod
    def as_lin(v: AV) -> Optional[Lin]:
        if isinstance(v, IntParam):
            return v.lin
        if isinstance(v, NumV) and v.rat.d == Poly.const(1):
            terms = v.rat.n.terms
            if not terms:
                return Lin(0)
            if len(terms) == 1 and () in terms:
                return Lin(terms[()])
        return None

    @staticmethod
    def inverse_param(l: Lin) -> Optional[Lin]:
        if l.is_const and l.c != 0:
            return Lin(1 / l.c)
        if l.c == 0 and len(l.t) == 1:
            (k, v), = l.t.items()
            if k.startswith("1/"):
                return Lin(0, {k[2:]: 1 / v})
            return Lin(0, {"1/" + k: 1 / v})
        return None

    def _single_factor(self, fi: FuncInfo, value: ast.AST, targets: List[ast.AST], env: Env) -> bool:
        """`((base, exponent),) = unit.factors.items()` (also `[(base, exponent)] = ...`, `list(...)[0]`): the one factor of
        a unit that is a power of a single base unit.  Exact when the unit's factor component is one atom to some power."""
        if len(targets) != 1 or not isinstance(targets[0], (ast.Tuple, ast.List)) or len(targets[0].elts) != 1:
            return False
        inner = targets[0].elts[0]
        if not (isinstance(inner, (ast.Tuple, ast.List)) and len(inner.elts) == 2 and all(isinstance(x, ast.Name) for x in inner.elts)):
            return False
        if not (isinstance(value, ast.Call) and isinstance(value.func, ast.Attribute) and value.func.attr == "items" and not value.args):
            return False
        g = self.eval(fi, value.func.value, env)
        if not (isinstance(g, GroupV) and g.kind == "F" and len(g.mono) == 1):
            return False
        atom, e = g.mono[0]
        tag = atom.split(":", 1)[1]
        env[inner.elts[0].id] = UnitV(identity("P"), GroupV("F", ((f"F:{tag}", Lin(1)),)), GroupV("D", ((f"D:{tag}", Lin(1)),)))  # type: ignore[attr-defined]
        env[inner.elts[1].id] = IntParam(f"exp:{tag}", e) if not e.is_const else IntParam(f"exp:{tag}", e)  # type: ignore[attr-defined]
        return True

    # ---------------------------------------------------------- assignment
    def assign(self, fi: FuncInfo, t: ast.AST, v: AV, env: Env) -> None:
        if isinstance(t, ast.Name):
            env[t.id] = v
            return
        if isinstance(t, ast.Tuple):
            if isinstance(v, TupleV) and len(v.items) == len(t.elts):
                for tt, vv in zip(t.elts, v.items):
                    self.assign(fi, tt, vv, env)
                return
            raise Unsupported(f"tuple assignment from {type(v).__name__} at {fi.where(t)}")
        if isinstance(t, ast.Attribute):
            # attribute stores on self inside __init__: record on an ObjV if we have one
            base = self.eval(fi, t.value, env)
            if isinstance(base, ObjV):
                base.fields[t.attr] = v
                return
            return
        if isinstance(t, ast.Subscript):
            # store into a (module-level) table: recorded, not modelled
            keys: List[AV] = []
            cur: ast.AST = t
            while isinstance(cur, ast.Subscript):
                keys.insert(0, self.eval(fi, cur.slice, env))
                cur = cur.value
            self.events.append(Event("store", t, {"table": ast.unparse(cur), "keys": keys, "value": v, "func": fi.qual}))
            return
        raise Unsupported(f"assignment target {ast.unparse(t)} at {fi.where(t)}")

    # --------------------------------------------------------- refinement
    def refine(self, fi: FuncInfo, test: ast.AST, truth: bool, env: Env) -> None:
        """Apply what a branch condition tells us about the abstract state."""
        neg = False
        while isinstance(test, ast.UnaryOp) and isinstance(test.op, ast.Not):
            neg = not neg
            test = test.operand
        t = truth != neg
        if isinstance(test, ast.Name) and t:
            v = env.get(test.id)
            g = v.g if isinstance(v, DictV) else v
            if isinstance(g, GroupV) and g.vec:
                g2 = GroupV(g.kind, g.mono, set(g.flags) | {"nonempty"}, True)
                env[test.id] = DictV(g2) if isinstance(v, DictV) else g2
        if isinstance(test, ast.Name) and not t:
            # `if not factors:` taken: the mapping is empty, i.e. its group element is trivial
            v = env.get(test.id)
            g = v.g if isinstance(v, DictV) else v
            if isinstance(g, GroupV) and g.vec and g.mono:
                tl = list(env.get("__trivial__", []))
                tl.append((g.kind, g.mono))
                env["__trivial__"] = tl
        if isinstance(test, ast.Compare) and len(test.ops) == 1:
            op = test.ops[0]
            l, r = test.left, test.comparators[0]
            eq = (isinstance(op, (ast.Eq, ast.Is)) and t) or (isinstance(op, (ast.NotEq, ast.IsNot)) and not t)
            if eq and not isinstance(r, ast.Constant):
                # U is V for two units: one unit from here on (rename V's atoms to U's)
                try:
                    lv, rv = self.eval(fi, l, env), self.eval(fi, r, env)
                except Unsupported:
                    lv = rv = None
                if isinstance(lv, UnitV) and isinstance(rv, UnitV) and not lv.same(rv):
                    ren = _unit_renaming(rv, lv)
                    if ren:
                        for k in list(env.keys()):
                            if k != "__ren__":
                                env[k] = rename_av(env[k], ren)
                        d = dict(env.get("__ren__", {}))
                        d.update(ren)
                        env["__ren__"] = d
                        return
            if eq:
                # X.base == 0  => X is the identity prefix;  X.base == Y.base => same base
                if isinstance(l, ast.Attribute) and l.attr == "base" and isinstance(l.value, ast.Name):
                    x = env.get(l.value.id)
                    if isinstance(x, PrefixS):
                        if isinstance(r, ast.Constant) and r.value == 0:
                            env[l.value.id] = PrefixS(Rat.const(0), Rat.const(0), Rat.const(0), x.tag + "=identity")
                            return
                        if isinstance(r, ast.Attribute) and r.attr == "base" and isinstance(r.value, ast.Name):
                            y = env.get(r.value.id)
                            if isinstance(y, PrefixS):
                                # rewrite x's base (and ln) to y's
                                nb = y.base
                                lnx = [a for a in x.logv.atoms() if a.startswith("ln(")]
                                lny = [a for a in y.logv.atoms() if a.startswith("ln(")]
                                lv = x.logv
                                if lnx and lny:
                                    lv = lv.subst(lnx[0], Rat.atom(lny[0]))
                                env[l.value.id] = PrefixS(nb, x.exponent, lv, x.tag)
                                return

    # --------------------------------------------------------- expressions
    def eval(self, fi: FuncInfo, e: Optional[ast.AST], env: Env) -> AV:
        if e is None:
            return NoneV()
        if isinstance(e, ast.Constant):
            if e.value is None:
                return NoneV()
            if isinstance(e.value, bool):
                return BoolV(e.value)
            if isinstance(e.value, (int, float)):
                return NumV(Rat.const(Fraction(e.value) if isinstance(e.value, int) else Fraction(repr(e.value))))
            if isinstance(e.value, str):
                return StrV(e.value)
            return OpaqueV("constant")
        if isinstance(e, ast.Name):
            if e.id in env:
                return env[e.id]
            if e.id in self.globals:
                return self.globals[e.id]
            if e.id == "NotImplemented":
                return NotImpl()
            # a module-level function passed around as a value (`self._combine(other, _add)`)
            mi_ = self.prog.modules.get(fi.module)
            if mi_ is not None and e.id in mi_.functions and mi_.functions[e.id] in self.prog.functions:
                return OpaqueV(f"func:{mi_.functions[e.id]}")
            return OpaqueV(f"global {e.id}")
        if isinstance(e, ast.Attribute):
            return self.getattr(fi, e, env)
        if isinstance(e, ast.Tuple):
            return TupleV([self.eval(fi, x, env) for x in e.elts])
        if isinstance(e, ast.BinOp):
            return self.binop(fi, e, e.op, self.eval(fi, e.left, env), self.eval(fi, e.right, env), env)
        if isinstance(e, ast.UnaryOp):
            v = self.eval(fi, e.operand, env)
            if isinstance(e.op, ast.Not):
                if isinstance(v, BoolV) and v.value is not None:
                    return BoolV(not v.value)
                return BoolV(None)
            if isinstance(v, NumV):
                if isinstance(e.op, ast.USub):
                    return NumV(-v.rat, v.ut, v.decimalish)
                if isinstance(e.op, ast.UAdd):
                    return v
            if isinstance(v, IntParam) and isinstance(e.op, ast.USub):
                return IntParam("-" + v.name, -v.lin)
            return self.dispatch(fi, e, env, None)
        if isinstance(e, ast.BoolOp):
            vals = [self.eval(fi, x, env) for x in e.values]
            if isinstance(e.op, ast.Or) and len(vals) == 2:
                # `simplified or {One: 1}` : the fallback keeps the group element (One is neutral)
                a, b = vals
                if isinstance(a, GroupV) and isinstance(b, GroupV) and not b.mono:
                    g = GroupV(a.kind, a.mono, set(a.flags) | {"fallback"}, a.vec)
                    return g
                if isinstance(a, (UnitV, QuantV, NumV)) and isinstance(b, (UnitV, QuantV, NumV)):
                    # `x or default`: which one is used depends on x's truthiness - a choice point
                    i = len(self.choice_log)
                    k = self.choice_plan[i] if i < len(self.choice_plan) else 0
                    self.choice_log.append(2)
                    self.choice_notes.append(("or", [(ast.unparse(e.values[0]), k == 0)]))
                    return a if k == 0 else b
            known = [v.value for v in vals if isinstance(v, BoolV)]
            if len(known) == len(vals) and None not in known:
                return BoolV(all(known) if isinstance(e.op, ast.And) else any(known))
            if isinstance(e.op, ast.Or) and any(k is True for k in known):
                return BoolV(True)
            if isinstance(e.op, ast.And) and any(k is False for k in known):
                return BoolV(False)
            return BoolV(None)
        if isinstance(e, ast.Compare):
            return self.compare(fi, e, env)
        if isinstance(e, ast.Call):
            return self.call(fi, e, env)
        if isinstance(e, ast.IfExp):
            t = self.eval(fi, e.test, env)
            if isinstance(t, BoolV) and t.value is not None:
                return self.eval(fi, e.body if t.value else e.orelse, env)
            # undecided: a choice point (the function is re-interpreted for the other arm)
            i = len(self.choice_log)
            k = self.choice_plan[i] if i < len(self.choice_plan) else 0
            self.choice_log.append(2)
            truth = (k == 0)
            self.choice_notes.append(("ifexp", [(ast.unparse(e.test), truth)]))
            return self.eval(fi, e.body if truth else e.orelse, env)
        if isinstance(e, ast.Dict):
            if not e.keys:
                return GroupV("F", (), {"empty"}, True)
            if len(e.keys) == 1 and isinstance(e.keys[0], ast.Name) and e.keys[0].id == "One":
                return GroupV("F", (), {"one"}, True)
            # {operand: 1}: a unit used as its own factor key
            if len(e.keys) == 1 and isinstance(e.values[0], ast.Constant):
                k = self.eval(fi, e.keys[0], env)
                if isinstance(k, UnitV):
                    lin = Lin(e.values[0].value)
                    g = k.f.pow(lin)
                    g.flags = set(g.flags) | {"selfkey"}
                    g.vec = True
                    return g
            # {base: <integer expression>, ...}: a factor map written out
            g2 = GroupV("F", (), {"simplified", "no_one"}, True)
            for k_, v_ in zip(e.keys, e.values):
                if k_ is None:
                    return OpaqueV("dict literal")
                kk, vv = self.eval(fi, k_, env), self.eval(fi, v_, env)
                ll = self.as_lin(vv)
                if ll is None and isinstance(vv, NumV):
                    ll = self.rat_as_lin(vv.rat)
                if not (isinstance(kk, UnitV) and not kk.p.mono and len(kk.f.mono) == 1 and ll is not None):
                    return OpaqueV("dict literal")
                g2 = GroupV("F", g2.mul(kk.f.pow(ll)).mono, set(g2.flags), True)
            return g2
        if isinstance(e, ast.DictComp):
            return self.dictcomp(fi, e, env)
        if isinstance(e, (ast.GeneratorExp, ast.ListComp)):
            return self.genexp(fi, e, env)
        if isinstance(e, ast.JoinedStr):
            return StrV(None)
        if isinstance(e, ast.Subscript):
            return self.dispatch(fi, e, env, None)
        if isinstance(e, ast.Lambda):
            return OpaqueV("lambda")
        raise Unsupported(f"expression {type(e).__name__} at {fi.where(e)}")

    def dictcomp(self, fi: FuncInfo, e: ast.DictComp, env: Env) -> AV:
        if len(e.generators) != 1:
            raise Unsupported(f"nested dict comprehension at {fi.where(e)}")
        g = e.generators[0]
        it = g.iter
        if not (isinstance(it, ast.Call) and isinstance(it.func, ast.Attribute) and it.func.attr == "items"
                and isinstance(g.target, ast.Tuple) and len(g.target.elts) == 2
                and all(isinstance(x, ast.Name) for x in g.target.elts)):
            raise Unsupported(f"dict comprehension shape at {fi.where(e)}")
        src = self.eval(fi, it.func.value, env)
        if isinstance(src, DictV):
            src = src.g
        if not isinstance(src, GroupV):
            raise Unsupported(f"dict comprehension over {type(src).__name__} at {fi.where(e)}")
        kvar, evar = (x.id for x in g.target.elts)  # type: ignore[attr-defined]
        flags = set(src.flags)
        if not (isinstance(e.key, ast.Name) and e.key.id == kvar):
            flags.add("rekeyed")
        kind, coefs = self.elementwise(fi, e.value, [evar], env)
        part = None
        for cnd in g.ifs:
            for c in (cnd.values if isinstance(cnd, ast.BoolOp) and isinstance(cnd.op, ast.And) else [cnd]):
                cls = self._classify_filter(c, kvar, evar)
                if cls is None:
                    raise Unsupported(f"filter {ast.unparse(c)} in a factor comprehension at {fi.where(e)}")
                if cls in ("pos", "neg"):
                    part = cls
                else:
                    flags.add(cls)
        if kind != "lin" or set(coefs) - {evar}:
            raise Unsupported(f"dict comprehension value {ast.unparse(e.value)} at {fi.where(e)}")
        c = coefs.get(evar, Lin(0))
        out = src.pow(c)
        if c != Lin(1):
            # changed exponents: zero entries / a scaled {One: 1} may appear again
            flags = {f for f in flags if f not in ("simplified", "no_zero", "no_one", "fallback")} | \
                    {f for f in flags if f in ("no_zero", "no_one") and any(self._classify_filter(x, kvar, evar) == f for cnd in g.ifs for x in (cnd.values if isinstance(cnd, ast.BoolOp) else [cnd]))}
        out.flags = flags
        out.vec = True
        if part:
            sign = Lin(1) if part == "pos" else Lin(-1)
            # the sign-subset of a factor map is not a group operation: opaque atoms
            if c != sign:
                raise Unsupported(f"sign-filtered comprehension with value {ast.unparse(e.value)} at {fi.where(e)}")
            m = tuple((f"{a}{'+' if part == 'pos' else '-'}", x) for a, x in src.mono)
            out = GroupV(src.kind, m, flags | {part}, True)
        return out

    @staticmethod
    def _classify_filter(c: ast.AST, kvar: str, evar: str) -> Optional[str]:
        if isinstance(c, ast.Compare) and len(c.ops) == 1 and isinstance(c.left, ast.Name):
            op, r = c.ops[0], c.comparators[0]
            if c.left.id == kvar and isinstance(op, ast.IsNot) and isinstance(r, ast.Name) and r.id == "One":
                return "no_one"
            if c.left.id == evar and isinstance(r, ast.Constant) and r.value == 0:
                if isinstance(op, ast.NotEq):
                    return "no_zero"
                if isinstance(op, (ast.GtE, ast.Gt)):
                    return "pos"
                if isinstance(op, (ast.Lt,)):
                    return "neg"
        return None

    def genexp(self, fi: FuncInfo, e: Any, env: Env) -> AV:
        """tuple(s + o for s, o in zip(a.exponents, b.exponents)) and friends."""
        if len(e.generators) != 1 or e.generators[0].ifs:
            # any(... for ... if ...) guards are boolean tests; not values
            return OpaqueV("generator with filters")
        g = e.generators[0]
        it = g.iter
        srcs: List[AV] = []
        names: List[str] = []
        if isinstance(it, ast.Call) and isinstance(it.func, ast.Name) and it.func.id == "zip":
            srcs = [self.eval(fi, a, env) for a in it.args]
            if isinstance(g.target, ast.Tuple):
                names = [x.id for x in g.target.elts if isinstance(x, ast.Name)]
        else:
            srcs = [self.eval(fi, it, env)]
            if isinstance(g.target, ast.Name):
                names = [g.target.id]
        if not srcs or len(names) != len(srcs) or not all(isinstance(s, GroupV) and s.vec for s in srcs):
            return OpaqueV("generator over a non-vector")
        try:
            kind, coefs = self.elementwise(fi, e.elt, names, env)
        except Unsupported:
            return OpaqueV("non-linear element expression")
        k0 = srcs[0].kind  # type: ignore[union-attr]
        if kind in ("pos", "neg"):
            (v, _), = coefs.items()
            s = srcs[names.index(v)]
            m = tuple((f"{a}{'+' if kind == 'pos' else '-'}", x) for a, x in s.mono)  # type: ignore[union-attr]
            return GroupV(k0, m, {kind}, True)
        out = GroupV(k0, (), set(), True)
        for v, c in coefs.items():
            out = out.mul(srcs[names.index(v)].pow(c))  # type: ignore[union-attr]
        out.vec = True
        return out

    # ------------------------------------------------------------ attributes
    def getattr(self, fi: FuncInfo, e: ast.Attribute, env: Env) -> AV:
        if isinstance(e.value, ast.Name) and e.value.id == "math":
            if e.attr == "e":
                return NumV(Rat.atom("const:e"))
            if e.attr == "pi":
                return NumV(Rat.atom("const:pi"))
            return OpaqueV(f"math.{e.attr}")
        base = self.eval(fi, e.value, env)
        a = e.attr
        if isinstance(base, QuantV):
            if a == "magnitude":
                return base.mag
            if a == "unit":
                return base.unit
        if isinstance(base, UnitV):
            if a == "prefix":
                return base.p
            if a == "factors":
                return GroupV("F", base.f.mono, set(base.f.flags) | {"simplified", "no_one", "no_zero"}, True)
            if a == "dimension":
                return base.d
        if isinstance(base, GroupV) and base.kind == "D" and a == "exponents":
            return GroupV("D", base.mono, set(base.flags), True)
        if isinstance(base, PrefixS):
            if a == "base":
                return NumV(base.base)
            if a == "exponent":
                return NumV(base.exponent)
        if isinstance(base, MeasV):
            if a == "measurand":
                return base.measurand
            if a == "uncertainty":
                return base.uncertainty
        if isinstance(base, LevelV):
            if a == "magnitude":
                return base.mag
            if a == "unit":
                return base.unit
        if isinstance(base, LogUnitV):
            if a == "reference":
                return base.reference
            if a == "power_ratio":
                return NumV(base.k)
            if a == "logarithm":
                return ObjV("Logarithm", {"base": NumV(base.base), "prefix": ObjV("LogPrefix", {"value": NumV(base.pval)})})
        if isinstance(base, ObjV):
            if a in base.fields:
                return base.fields[a]
        # property on a package class?
        return self.dispatch(fi, e, env, None, attr_base=base)

    # ------------------------------------------------------------- compare
    def compare(self, fi: FuncInfo, e: ast.Compare, env: Env) -> AV:
        vals = [self.eval(fi, e.left, env)] + [self.eval(fi, c, env) for c in e.comparators]
        if len(e.ops) == 1:
            op = e.ops[0]
            a, b = vals
            if isinstance(op, (ast.Is, ast.IsNot)) and (isinstance(a, NoneV) or isinstance(b, NoneV)):
                x = b if isinstance(a, NoneV) else a
                if isinstance(x, NoneV):
                    return BoolV(isinstance(op, ast.Is))
                if not isinstance(x, OpaqueV):
                    return BoolV(isinstance(op, ast.IsNot))
                return BoolV(None)
            if isinstance(op, (ast.Is, ast.IsNot, ast.Eq, ast.NotEq)):
                same: Optional[bool] = None
                if isinstance(a, UnitV) and isinstance(b, UnitV):
                    same = True if a.same(b) else None
                elif isinstance(a, GroupV) and isinstance(b, GroupV) and not a.vec and not b.vec:
                    same = True if a.mono == b.mono else None
                elif isinstance(a, NumV) and isinstance(b, NumV):
                    if a.rat == b.rat:
                        same = True
                    elif (a.rat - b.rat).atoms() == [] and not (a.rat - b.rat).is_zero():
                        same = False
                if same is not None:
                    return BoolV(same if isinstance(op, (ast.Is, ast.Eq)) else not same)
                if isinstance(a, (QuantV, MeasV, LevelV)) or isinstance(b, (QuantV, MeasV, LevelV)):
                    self.events.append(Event("cmp", e, {"op": type(op).__name__, "left": a, "right": b, "func": fi.qual}))
                    r = self.dispatch(fi, e, env, None, cmp_vals=(a, b))
                    return r if isinstance(r, NotImpl) else BoolV(None, cond=("cmp", e))
                if isinstance(a, NumV) and isinstance(b, NumV):
                    self.events.append(Event("cmp", e, {"op": type(op).__name__, "left": a, "right": b, "func": fi.qual}))
                    return BoolV(None, cond=("cmp", e))
                return BoolV(None)
            if isinstance(op, (ast.Lt, ast.LtE, ast.Gt, ast.GtE)):
                self.events.append(Event("cmp", e, {"op": type(op).__name__, "left": a, "right": b, "func": fi.qual}))
                if isinstance(a, (QuantV, MeasV, LevelV)) or isinstance(b, (QuantV, MeasV, LevelV)):
                    self.dispatch(fi, e, env, None, cmp_vals=(a, b))
                return BoolV(None, cond=("cmp", e))
            if isinstance(op, (ast.In, ast.NotIn)):
                return BoolV(None)
        else:
            for (op, a, b) in zip(e.ops, vals, vals[1:]):
                self.events.append(Event("cmp", e, {"op": type(op).__name__, "left": a, "right": b, "func": fi.qual}))
        return BoolV(None)

    # ---------------------------------------------------------------- binop
    def binop(self, fi: FuncInfo, node: ast.AST, op: ast.operator, a: AV, b: AV, env: Env) -> AV:
        # pure numbers / symbolic integers
        na, nb = self.to_num(a), self.to_num(b)
        if na is not None and nb is not None and not (isinstance(a, (QuantV, UnitV)) or isinstance(b, (QuantV, UnitV))):
            return self.num_op(fi, node, type(op).__name__, na, nb)
        return self.dispatch(fi, node, env, (a, b))

    @staticmethod
    def to_num(v: AV) -> Optional[NumV]:
        if isinstance(v, NumV):
            return v
        if isinstance(v, IntParam):
            return NumV(Rat(Poly.from_lin(v.lin)))
        return None

    def num_op(self, fi: FuncInfo, node: ast.AST, op: str, a: NumV, b: NumV) -> AV:
        ut_a, ut_b = a.unit_type(), b.unit_type()
        if op in ("Add", "Sub"):
            self.events.append(Event("add", node, {"left": a, "right": b, "homogeneous": ut_a.same(ut_b), "func": fi.qual}))
            r = a.rat + b.rat if op == "Add" else a.rat - b.rat
            return NumV(r, a.ut if a.ut is not None else b.ut)
        if op == "Mult":
            return NumV(a.rat * b.rat, self.unit_mul(ut_a, ut_b, 1))
        if op == "Div":
            self.events.append(Event("div", node, {"den": b.rat, "func": fi.qual}))
            if b.rat.is_zero():
                raise Unsupported(f"division by a literal zero at {fi.where(node)}")
            return NumV(a.rat / b.rat, self.unit_mul(ut_a, ut_b, -1))
        if op == "Pow":
            e = self.rat_as_lin(b.rat)
            if e is None:
                # exp head: base ** <rational function>; kept opaque, base and exponent recorded
                name = self.heads.power(a.rat, b.rat)
                return NumV(Rat.atom(name), None)
            if a.rat.d == Poly.const(1) and a.rat.n.terms and all(not m for m in a.rat.n.terms) and not e.is_const:
                # constant ** symbolic: exp head, keep as atom base
                c = a.rat.n.terms[()]
                return NumV(Rat(Poly({((f"<{c}>", e),): Fraction(1)})))
            r = a.rat.pow_lin(e)
            if r is None:
                if e == Lin(Fraction(1, 2)):
                    return NumV(self.heads.sqrt(a.rat), self.unit_pow(ut_a, e))
                raise Unsupported(f"power of a sum by a symbolic exponent at {fi.where(node)}")
            return NumV(r, self.unit_pow(ut_a, e))
        if op == "FloorDiv" and (a.ut is not None or b.ut is not None):
            # a magnitude rounded down: an opaque number typed by the quotient of the operands' units
            self.events.append(Event("floordiv", node, {"func": fi.qual}))
            return NumV(Rat.atom(f"floor[{(a.rat / b.rat)!r}]"), self.unit_mul(ut_a, ut_b, -1))
        if op == "Mod" and (a.ut is not None or b.ut is not None):
            self.events.append(Event("mod", node, {"left": a, "right": b, "homogeneous": ut_a.same(ut_b), "func": fi.qual}))
            return NumV(Rat.atom(f"mod[{a.rat!r},{b.rat!r}]"), a.ut if a.ut is not None else b.ut)
        if op == "FloorDiv":
            self.events.append(Event("floordiv", node, {"func": fi.qual}))
            return NumV(a.rat / b.rat, self.unit_mul(ut_a, ut_b, -1))
        raise Unsupported(f"numeric operator {op} at {fi.where(node)}")

    @staticmethod
    def rat_as_lin(r: Rat) -> Optional[Lin]:
        """A Rat that is a linear form in integer params (or 1/param) -> Lin."""
        if r.d != Poly.const(1):
            return None
        l = Lin(0)
        for m, c in r.n.terms.items():
            if not m:
                l = l + Lin(c)
            elif len(m) == 1 and m[0][1] == Lin(1):
                l = l + Lin(0, {m[0][0]: c})
            elif len(m) == 1 and m[0][1] == Lin(-1):
                l = l + Lin(0, {"1/" + m[0][0]: c})
            else:
                return None
        return l

    @staticmethod
    def unit_mul(a: UnitV, b: UnitV, sign: int) -> Optional[UnitV]:
        u = UnitV(a.p.mul(b.p, sign), a.f.mul(b.f, sign), a.d.mul(b.d, sign))
        return None if (not u.p.mono and not u.f.mono) else u

    @staticmethod
    def unit_pow(a: UnitV, e: Lin) -> Optional[UnitV]:
        u = UnitV(a.p.pow(e), a.f.pow(e), a.d.pow(e))
        return None if (not u.p.mono and not u.f.mono) else u

    # ----------------------------------------------------------------- calls
    def call(self, fi: FuncInfo, e: ast.Call, env: Env) -> AV:
        f = e.func
        if isinstance(f, ast.Name) and isinstance(env.get(f.id), OpaqueV) and env[f.id].why.startswith("func:") \
                and not any(isinstance(a, ast.Starred) for a in e.args):
            # a parameter that holds a module-level function: the call is a call of that function
            target = env[f.id].why[5:]  # type: ignore[union-attr]
            argv = [self.eval(fi, a, env) for a in e.args]
            kw = {k.arg: self.eval(fi, k.value, env) for k in e.keywords if k.arg}
            r = self.apply(fi, e, target, argv, kw)
            return r if r is not None else OpaqueV(f"call of {target} through a parameter")
        if isinstance(f, ast.Name):
            if f.id == "isinstance" and len(e.args) == 2:
                return self.isinstance_(fi, e, env)
            if f.id in ("cast",) and len(e.args) == 2:
                return self.eval(fi, e.args[1], env)
            if f.id == "tuple" and len(e.args) == 1:
                v = self.eval(fi, e.args[0], env)
                return v
            if f.id == "float" and len(e.args) == 1:
                return self.eval(fi, e.args[0], env)
            if f.id == "int" and len(e.args) == 1:
                v = self.eval(fi, e.args[0], env)
                a0 = e.args[0]
                integral = isinstance(v, IntParam) or (isinstance(a0, ast.BinOp) and isinstance(a0.op, ast.FloorDiv)) \
                    or (isinstance(v, NumV) and self.as_lin(v) is not None and self.as_lin(v).is_const and self.as_lin(v).c.denominator == 1)  # type: ignore[union-attr]
                if not integral and isinstance(a0, (ast.Name, ast.Attribute)):
                    alts = self.r.expr_alts(fi, a0)
                    integral = bool(alts) and all(k == "inst" and full == "builtins.int" for k, full in alts)
                if not integral and isinstance(a0, ast.Name):
                    # a local that was assigned a floor division (or divmod quotient)
                    integral = any(isinstance(n, ast.Assign) and any(isinstance(t, ast.Name) and t.id == a0.id for t in n.targets)
                                   and isinstance(n.value, ast.BinOp) and isinstance(n.value.op, ast.FloorDiv) for n in ast.walk(fi.node))
                if integral or not isinstance(v, NumV):
                    return v
                # truncation is not the identity: an opaque head that equals nothing else
                return NumV(Rat.atom(f"int[{v.rat!r}]"), v.ut)
            if f.id == "abs" and len(e.args) == 1:
                v = self.eval(fi, e.args[0], env)
                if isinstance(v, NumV):
                    return NumV(self.heads.abs(v.rat), v.ut)
                if isinstance(v, QuantV):
                    return self.dispatch(fi, e, env, None)
                if isinstance(v, IntParam):
                    # the sign of a symbolic integer is a choice point: |n| is n or -n
                    i = len(self.choice_log)
                    k = self.choice_plan[i] if i < len(self.choice_plan) else 0
                    self.choice_log.append(2)
                    self.choice_notes.append(("abs", [(f"{ast.unparse(e.args[0])} >= 0", k == 0)]))
                    return v if k == 0 else IntParam("-" + v.name, -v.lin)
            if f.id == "divmod" and len(e.args) == 2:
                a0, b0 = self.to_num(self.eval(fi, e.args[0], env)), self.to_num(self.eval(fi, e.args[1], env))
                if a0 is not None and b0 is not None:
                    self.events.append(Event("floordiv", e, {"func": fi.qual}))
                    q0 = self.num_op(fi, e, "Div", a0, b0)
                    return TupleV([q0, NumV(Rat.atom(f"rem[{a0.rat!r};{b0.rat!r}]"))])
            if f.id == "round" and e.args:
                v = self.eval(fi, e.args[0], env)
                if isinstance(v, NumV):
                    # rounding is not the identity: an opaque head that equals nothing else
                    return NumV(Rat.atom(f"round[{v.rat!r}]"), v.ut)
            if f.id == "defaultdict" and len(e.args) == 2:
                v = self.eval(fi, e.args[1], env)
                if isinstance(v, GroupV):
                    return DictV(GroupV(v.kind, v.mono, set(), True))
            if f.id == "defaultdict" and len(e.args) == 1 and ast.unparse(e.args[0]) in ("int", "lambda: 0"):
                return DictV(GroupV("F", (), set(), True))   # an empty exponent accumulator
            if f.id == "any":
                return BoolV(None)
            if f.id == "Decimal" and len(e.args) == 1:
                return self.eval(fi, e.args[0], env)
            if f.id == "reduce" and len(e.args) in (2, 3) and isinstance(e.args[1], (ast.GeneratorExp, ast.ListComp)) \
                    and ast.unparse(e.args[0]) in ("operator.mul", "mul"):
                ge = e.args[1]
                if len(ge.generators) == 1 and not ge.generators[0].ifs:
                    gen = ge.generators[0]
                    it_ = gen.iter
                    if (isinstance(it_, ast.Call) and isinstance(it_.func, ast.Attribute) and it_.func.attr == "items"
                            and isinstance(gen.target, ast.Tuple) and len(gen.target.elts) == 2
                            and all(isinstance(x, ast.Name) for x in gen.target.elts)):
                        kvar, evar = (x.id for x in gen.target.elts)  # type: ignore[attr-defined]
                        src = self.eval(fi, it_.func.value, env)
                        if isinstance(src, DictV):
                            src = src.g
                        if isinstance(src, GroupV) and self._is_dim_power(ge.elt, kvar, evar):
                            init = self.eval(fi, e.args[2], env) if len(e.args) == 3 else identity("D")
                            if isinstance(init, GroupV) and init.kind == "D":
                                return init.mul(self.fold_image(src))
            if f.id in ("dict",) and len(e.args) == 1:
                v = self.eval(fi, e.args[0], env)
                if isinstance(v, GroupV):
                    return v
        if isinstance(f, ast.Attribute) and f.attr == "scaleb" and len(e.args) == 1:
            # Decimal.scaleb(n): the value times 10**n - whatever the base of the prefix the exponent came from
            x = self.eval(fi, f.value, env)
            n_ = self.eval(fi, e.args[0], env)
            if isinstance(x, NumV) and isinstance(n_, NumV):
                atoms = n_.rat.atoms()
                if n_.rat.d == Poly.const(1) and len(atoms) == 1 and n_.rat == Rat.atom(atoms[0]):
                    ten = Rat(Poly({(("const:10", Lin.sym(atoms[0])),): Fraction(1)}))
                    return NumV(x.rat * ten, x.ut)
                lin = self.as_lin(n_)
                if lin is not None and lin.is_const and lin.c.denominator == 1:
                    return NumV(x.rat * Rat.const(Fraction(10) ** int(lin.c)), x.ut)
        if isinstance(f, ast.Attribute) and isinstance(f.value, ast.Name) and f.value.id == "math":
            args = [self.eval(fi, a, env) for a in e.args]
            if f.attr == "sqrt" and len(args) == 1 and isinstance(args[0], NumV):
                ut = args[0].ut
                return NumV(self.heads.sqrt(args[0].rat), self.unit_pow(ut, Lin(Fraction(1, 2))) if ut else None)
            if f.attr == "fabs" and len(args) == 1 and isinstance(args[0], NumV):
                return NumV(self.heads.abs(args[0].rat), args[0].ut)
            if f.attr == "hypot" and args and all(isinstance(a, NumV) for a in args):
                ut = args[0].ut  # type: ignore[union-attr]
                total = Rat(Poly())
                for a in args:
                    total = total + a.rat * a.rat  # type: ignore[union-attr]
                    if (a.ut is None) != (ut is None) or (ut is not None and a.ut is not None and not a.unit_type().same(args[0].unit_type())):  # type: ignore[union-attr]
                        ut = None
                return NumV(self.heads.sqrt(total), ut)
            if f.attr == "log" and args and all(isinstance(a, NumV) for a in args):
                self.events.append(Event("log", e, {"arg": args[0], "func": fi.qual}))
                x = args[0].rat  # type: ignore[union-attr]
                if len(args) == 1:
                    return NumV(self.ln(x))
                return NumV(self.ln(x) / self.ln(args[1].rat))  # type: ignore[union-attr]
            if f.attr in ("log10", "log2") and len(args) == 1 and isinstance(args[0], NumV):
                self.events.append(Event("log", e, {"arg": args[0], "func": fi.qual}))
                return NumV(self.ln(args[0].rat) / self.ln(Rat.const(10 if f.attr == "log10" else 2)))
            if f.attr == "log1p" and len(args) == 1 and isinstance(args[0], NumV):
                one_plus = NumV(args[0].rat + Rat.const(1), args[0].ut)
                self.events.append(Event("log", e, {"arg": one_plus, "func": fi.qual}))
                return NumV(self.ln(one_plus.rat))
            return OpaqueV(f"math.{f.attr}")
        return self.dispatch(fi, e, env, None)

    def ln(self, x: Rat) -> Rat:
        """ln of a monomial expands; otherwise an opaque atom keyed by the form."""
        if x.d == Poly.const(1) and x.n.is_monomial():
            (m, c), = x.n.terms.items()
            total = Rat(Poly())
            if c != 1:
                total = total + Rat.atom(f"ln(<{c}>)")
            for a, e in m:
                total = total + Rat(Poly.from_lin(e)) * Rat.atom(f"ln({a})")
            return total
        return Rat.atom(f"ln[{x!r}]")

    def isinstance_(self, fi: FuncInfo, e: ast.Call, env: Env) -> AV:
        v = self.eval(fi, e.args[0], env)
        ts = e.args[1]
        names = [ast.unparse(x) for x in (ts.elts if isinstance(ts, ast.Tuple) else [ts])]
        kinds = {
            "Unit": UnitV, "Quantity": QuantV, "Measurement": MeasV, "Level": LevelV,
            "Prefix": (PrefixS,), "Dimension": (), "LogarithmicUnit": LogUnitV,
        }
        def is_kind(n: str) -> Optional[bool]:
            if n in ("NUMERIC_CLASSES", "int", "float", "Decimal"):
                if isinstance(v, IntParam):
                    return n in ("NUMERIC_CLASSES", "int")
                if isinstance(v, NumV):
                    if n == "NUMERIC_CLASSES":
                        return True
                    if n == "Decimal":
                        return None
                    return None
                return False if isinstance(v, (UnitV, QuantV, MeasV, LevelV, PrefixS, GroupV, StrV, NoneV)) else None
            if n == "str":
                return isinstance(v, StrV) if not isinstance(v, OpaqueV) else None
            if n == "Prefix":
                return isinstance(v, PrefixS) or (isinstance(v, GroupV) and v.kind == "P" and not v.vec) if not isinstance(v, OpaqueV) else None
            if n == "Dimension":
                return (isinstance(v, GroupV) and v.kind == "D" and not v.vec) if not isinstance(v, OpaqueV) else None
            k = kinds.get(n)
            if k is None:
                return None
            if isinstance(v, OpaqueV):
                return None
            return isinstance(v, k)
        res = [is_kind(n) for n in names]
        if any(r is True for r in res):
            return BoolV(True)
        if all(r is False for r in res):
            return BoolV(False)
        return BoolV(None)

    # -------------------------------------------------------------- dispatch
    def dispatch(self, fi: FuncInfo, node: ast.AST, env: Env, operands: Optional[Tuple[AV, AV]],
                 attr_base: Optional[AV] = None, cmp_vals: Optional[Tuple[AV, AV]] = None) -> AV:
        """Resolve the call-like node through E1 and apply the callee's specification,
        or inline a helper without one."""
        sites = [cs for cs in self.r.callsites(fi.qual) if cs.node is node]
        if not sites:
            if attr_base is not None:
                return OpaqueV(f"attribute {getattr(node, 'attr', '?')} of {type(attr_base).__name__}")
            return OpaqueV(f"unresolved {type(node).__name__}")
        # evaluate receiver / args once
        results: List[AV] = []
        for cs in sites:
            if cs.kind == "compare" and cmp_vals is not None:
                recv, argv = cmp_vals[0], [cmp_vals[1]]
            elif operands is not None:
                recv, argv = operands[0], [operands[1]]
            else:
                recv = self.eval(fi, cs.receiver, env) if cs.receiver is not None and attr_base is None else attr_base
                argv = [self.eval(fi, a, env) for a in cs.args if not isinstance(a, ast.Starred)]
            kw = {k: self.eval(fi, v, env) for k, v in cs.kwargs.items()}
            targets = list(cs.targets)
            if cs.external and cs.external.startswith("ctor:"):
                r = self.construct(fi, node, cs.external[5:], argv, kw)
                if r is not None:
                    return r
            for t in targets:
                callee = self.prog.functions[t]
                # reflected operator: the receiver is the right operand
                args_for = [recv] + argv if cs.bound and recv is not None else argv
                if cs.kind == "binop" and operands is not None and callee.name.startswith("__r") and callee.name not in ("__repr__",) \
                        and not self._accepts(callee, operands[0]):
                    args_for = [operands[1], operands[0]]
                elif cs.kind == "binop" and operands is not None and not self._accepts(callee, operands[0]) and self._accepts(callee, operands[1]):
                    args_for = [operands[1], operands[0]]
                r = self.apply(fi, node, t, args_for, kw)
                if r is not None and not isinstance(r, NotImpl):
                    results.append(r)
                    break
            if results:
                break
        if results:
            return results[0]
        return OpaqueV(f"no applicable callee for {type(node).__name__} at {fi.where(node)}")

    def _accepts(self, callee: FuncInfo, recv: AV) -> bool:
        want = {"Quantity": QuantV, "Unit": UnitV, "Measurement": MeasV, "Level": LevelV,
                "Prefix": (PrefixS, GroupV), "Dimension": GroupV, "LogarithmicUnit": LogUnitV,
                "Logarithm": ObjV}.get(callee.cls or "")
        if want is None:
            return True
        return isinstance(recv, want)

    def apply(self, fi: FuncInfo, node: ast.AST, target: str, args: List[AV], kw: Dict[str, AV]) -> Optional[AV]:
        spec = self.specs.get(target)
        if spec is not None:
            r = spec(self, node, args, kw)
            if r is not None:
                return r
        callee = self.prog.functions[target]
        if self.depth >= self.inline_depth:
            return OpaqueV(f"inlining bound reached at {target}")
        # inline
        params = callee.params()
        bind: Dict[str, AV] = {}
        for p, v in zip(params, args):
            bind[p] = v
        for k, v in kw.items():
            bind[k] = v
        self.depth += 1
        self.trace_inlined.append(target)
        try:
            outs = self.run(target, bind)
        except Unsupported as ex:
            # the callee is outside the interpreted subset: its result is unknown here; a
            # rule that needs the value reports an analysis error, never a verdict
            return OpaqueV(f"{target} not interpretable: {ex}")
        finally:
            self.depth -= 1
        rets = [o for o in outs if o.kind == "return"]
        if len(rets) == 1:
            self.active_ren.update(rets[0].ren)
            self.active_trivial += rets[0].trivial
            return rets[0].value
        if not rets:
            return OpaqueV(f"{target} never returns on this path")
        # several feasible returns: a choice point explored by re-running the caller
        distinct: List[Outcome] = []
        for o in rets:
            if not any(_same_av(o.value, d.value) for d in distinct):
                distinct.append(o)
        if len(distinct) == 1:
            if len(rets) == 1:
                self.active_ren.update(rets[0].ren)
            return distinct[0].value
        i = len(self.choice_log)
        k = self.choice_plan[i] if i < len(self.choice_plan) else 0
        self.choice_log.append(len(distinct))
        if k >= len(distinct):
            k = 0
        self.choice_notes.append((target, distinct[k].path))
        self.active_ren.update(distinct[k].ren)
        self.active_trivial += distinct[k].trivial
        return distinct[k].value

    # ---------------------------------------------------------- constructors
    def construct(self, fi: FuncInfo, node: ast.AST, cls: str, args: List[AV], kw: Dict[str, AV]) -> Optional[AV]:
        def arg(i: int, name: str) -> Optional[AV]:
            if i < len(args):
                return args[i]
            return kw.get(name)
        if cls == "Quantity":
            m, u = arg(0, "magnitude"), arg(1, "unit")
            mn = self.to_num(m) if m is not None else None
            if mn is not None and isinstance(u, UnitV):
                self.events.append(Event("ctor", node, {"cls": "Quantity", "mag": mn, "unit": u, "func": fi.qual,
                                                         "typed": mn.unit_type().same(u)}))
                return QuantV(NumV(mn.rat, u, mn.decimalish), u)
            self.events.append(Event("ctor", node, {"cls": "Quantity", "mag": m, "unit": u, "func": fi.qual, "typed": None}))
            return OpaqueV("Quantity(non-abstract)")
        if cls == "Unit":
            p, f, d = arg(0, "prefix"), arg(1, "factors"), arg(2, "dimension")
            if isinstance(p, PrefixS):
                p = GroupV("P", ((f"P:{p.tag}", Lin(1)),))
            if isinstance(f, DictV):
                f = f.g
            self.events.append(Event("ctor", node, {"cls": "Unit", "p": p, "f": f, "d": d, "func": fi.qual,
                                                     "named": arg(3, "name") is not None}))
            if isinstance(p, GroupV) and isinstance(f, GroupV) and isinstance(d, GroupV):
                return UnitV(GroupV("P", p.mono, set(p.flags)), GroupV("F", f.mono, set(f.flags)), GroupV("D", d.mono, set(d.flags)))
            return OpaqueV("Unit(non-abstract)")
        if cls == "Dimension":
            v = arg(0, "exponents")
            self.events.append(Event("ctor", node, {"cls": "Dimension", "v": v, "func": fi.qual}))
            if isinstance(v, GroupV) and v.kind == "D":
                return GroupV("D", v.mono, set(v.flags), False)
            return OpaqueV("Dimension(non-abstract)")
        if cls == "Prefix":
            b, x = arg(0, "base"), arg(1, "exponent")
            bn, xn = (self.to_num(b) if b is not None else None), (self.to_num(x) if x is not None else None)
            self.events.append(Event("ctor", node, {"cls": "Prefix", "base": bn, "exponent": xn, "func": fi.qual}))
            if bn is not None and xn is not None:
                return PrefixS(bn.rat, xn.rat, xn.rat * self.ln(bn.rat), "new")
            return OpaqueV("Prefix(non-abstract)")
        if cls == "Measurement":
            q, s = arg(0, "measurand"), arg(1, "uncertainty")
            self.events.append(Event("ctor", node, {"cls": "Measurement", "q": q, "s": s, "func": fi.qual}))
            if isinstance(q, QuantV):
                sn = self.to_num(s) if s is not None else None
                if isinstance(s, QuantV):
                    return MeasV(q, QuantV(NumV(self.heads.abs(s.mag.rat), s.unit), s.unit))
                if sn is not None:
                    # a bare number is taken to be in the measurand's unit
                    return MeasV(q, QuantV(NumV(self.heads.abs(sn.rat), q.unit), q.unit))
            return OpaqueV("Measurement(non-abstract)")
        if cls == "Logarithm":
            b, px = arg(0, "base"), arg(1, "prefix")
            self.events.append(Event("ctor", node, {"cls": "Logarithm", "base": b, "prefix": px, "func": fi.qual}))
            return ObjV("Logarithm", {"base": b if b is not None else OpaqueV("base"), "prefix": px if px is not None else identity("P")})
        if cls == "Level":
            m, u = arg(0, "magnitude"), arg(1, "unit")
            mn = self.to_num(m) if m is not None else None
            self.events.append(Event("ctor", node, {"cls": "Level", "mag": mn, "unit": u, "func": fi.qual}))
            if mn is not None and isinstance(u, LogUnitV):
                return LevelV(mn, u)
            return OpaqueV("Level(non-abstract)")
        return None


def _unit_renaming(src: UnitV, dst: UnitV) -> Dict[str, str]:
    """atom renaming that makes unit `src` equal to `dst` when both are single atoms."""
    ren: Dict[str, str] = {}
    for gs, gd in ((src.p, dst.p), (src.f, dst.f), (src.d, dst.d)):
        if len(gs.mono) == 1 and len(gd.mono) == 1 and gs.mono[0][1] == gd.mono[0][1] == Lin(1):
            ren[gs.mono[0][0]] = gd.mono[0][0]
        elif gs.mono != gd.mono:
            return {}
    return ren


def _ren_mono(m: Mono, ren: Dict[str, str]) -> Mono:
    out: Mono = ()
    for a, e in m:
        out = mono_mul(out, ((ren.get(a, a), e),))
    return out


def _ren_rat(r: Rat, ren: Dict[str, str]) -> Rat:
    for a, b in ren.items():
        if a in r.atoms():
            r = r.subst(a, Rat.atom(b))
    return r


def ren_rat(r: Rat, ren: Dict[str, str]) -> Rat:
    return _ren_rat(r, ren) if ren else r


def rename_av(v: Any, ren: Dict[str, str]) -> Any:
    if isinstance(v, GroupV):
        return GroupV(v.kind, _ren_mono(v.mono, ren), set(v.flags), v.vec)
    if isinstance(v, UnitV):
        return UnitV(rename_av(v.p, ren), rename_av(v.f, ren), rename_av(v.d, ren), v.tag)
    if isinstance(v, NumV):
        return NumV(_ren_rat(v.rat, ren), rename_av(v.ut, ren) if v.ut is not None else None, v.decimalish)
    if isinstance(v, QuantV):
        return QuantV(rename_av(v.mag, ren), rename_av(v.unit, ren))
    if isinstance(v, MeasV):
        return MeasV(rename_av(v.measurand, ren), rename_av(v.uncertainty, ren))
    if isinstance(v, DictV):
        return DictV(rename_av(v.g, ren))
    return v


def _as_load(t: ast.AST) -> ast.AST:
    n = copy.copy(t)
    if hasattr(n, "ctx"):
        n.ctx = ast.Load()  # type: ignore[attr-defined]
    return n


def _same_av(a: Optional[AV], b: Optional[AV]) -> bool:
    if type(a) is not type(b):
        return False
    if isinstance(a, QuantV) and isinstance(b, QuantV):
        return a.mag.rat == b.mag.rat and a.unit.same(b.unit)
    if isinstance(a, UnitV) and isinstance(b, UnitV):
        return a.same(b) and a.d.mono == b.d.mono
    if isinstance(a, GroupV) and isinstance(b, GroupV):
        return a.mono == b.mono
    if isinstance(a, NumV) and isinstance(b, NumV):
        return a.rat == b.rat
    return False
