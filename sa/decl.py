"""E5 - partial evaluator for the module-level declaration DSL of measured/__init__.py
and the shipped unit modules.  Works on the AST; imports and executes nothing.

Produces: dimensions, prefixes, units, equivalence edges (ordered, with position),
scales, logarithms, the creation trace of interning constructors, and the name/symbol
registries as the library's registration code would leave them.
"""
from __future__ import annotations

import ast
import os
from dataclasses import dataclass, field
from fractions import Fraction
from typing import Any, Dict, FrozenSet, List, Optional, Set, Tuple

from .core import SRC, AnalysisError, rel
from .num import Num, frac_from_text

NON_DECL_MODULES = {"conversions", "parsing", "formatting", "_parser", "compat", "json",
                    "cli", "hypothesis", "pytest", "__main__"}


class Opaque:
    def __init__(self, why: str) -> None:
        self.why = why

    def __repr__(self) -> str:
        return f"Opaque({self.why})"


class DeclError(Exception):
    """The library's own code would raise here at import time."""


@dataclass(eq=False)
class Dim:
    exps: Dict[int, int]              # fundamental index -> exponent (sparse)
    name: Optional[str] = None
    symbol: Optional[str] = None
    where: str = ""

    def key(self) -> FrozenSet[Tuple[int, int]]:
        return frozenset((i, e) for i, e in self.exps.items() if e)

    def __repr__(self) -> str:
        return f"Dim({self.name or dict(self.exps)})"


@dataclass(eq=False)
class Pfx:
    base: int
    exponent: Fraction
    name: Optional[str] = None
    symbol: Optional[str] = None
    where: str = ""
    created_where: str = ""

    def value(self) -> Num:
        if self.base == 0:
            return Num(Fraction(1))
        return Num(Fraction(self.base)).pow(self.exponent)

    def __repr__(self) -> str:
        return f"Pfx({self.name or (self.base, self.exponent)})"


@dataclass(eq=False)
class UnitV:
    uid: int
    prefix: Pfx
    factors: Dict[int, int]           # base-unit uid -> exponent ({} never: base => {uid:1})
    dimension: Dim
    names: List[str] = field(default_factory=list)
    symbols: List[str] = field(default_factory=list)
    is_base: bool = False
    module: str = ""
    where: str = ""
    var: Optional[str] = None         # first module-level variable bound to it

    @property
    def name(self) -> Optional[str]:
        return self.names[0] if self.names else None

    @property
    def symbol(self) -> Optional[str]:
        return self.symbols[0] if self.symbols else None

    def __repr__(self) -> str:
        return f"Unit({self.name or self.var or self.uid})"


@dataclass
class Qty:
    mag: Num
    unit: UnitV


@dataclass(eq=False)
class LogV:
    base: Any
    prefix: Pfx
    name: Optional[str] = None
    symbol: Optional[str] = None
    where: str = ""


@dataclass(eq=False)
class LogUnitV:
    logarithm: LogV
    reference: Qty
    name: Optional[str] = None
    symbol: Optional[str] = None
    where: str = ""


@dataclass
class LevelV:
    mag: Any
    unit: LogUnitV


@dataclass
class Edge:
    a: UnitV                  # unprefixed unit objects as the library keys them
    b: UnitV
    ratio: Num                # 1 a = ratio b
    module: str
    where: str
    text: str
    lhs_var: Optional[str]
    offset: Optional[Num] = None   # for scales: value_b = value_a*ratio + offset (a=scale,b=degree)
    is_scale: bool = False
    seq: int = 0


@dataclass
class Creation:
    kind: str       # 'Prefix' | 'Unit' | 'Dimension' | 'Logarithm' | 'LogarithmicUnit'
    key: Any
    named: bool
    fresh: bool
    module: str
    where: str
    name: Optional[str] = None
    symbol: Optional[str] = None


class ModuleNS(dict):
    pass


@dataclass(eq=False)
class Func:
    short: str
    node: ast.AST
    globals: Any


class _Return(Exception):
    def __init__(self, value: Any) -> None:
        self.value = value


DECL_ATTRS = {"equals", "unit", "scale", "derive", "define", "alias"}
DECL_NAMES = {"Prefix", "Logarithm"}


def decl_call_sites(tree: ast.AST) -> List[ast.Call]:
    """Syntactic declaration calls outside class bodies."""
    out: List[ast.Call] = []

    def visit(n: ast.AST) -> None:
        for c in ast.iter_child_nodes(n):
            if isinstance(c, ast.ClassDef):
                continue
            if isinstance(c, ast.Call):
                f = c.func
                if (isinstance(f, ast.Attribute) and f.attr in DECL_ATTRS) or (isinstance(f, ast.Name) and f.id in DECL_NAMES):
                    out.append(c)
            visit(c)
    visit(tree)
    return out


def _load(t: ast.AST) -> ast.AST:
    import copy
    n = copy.copy(t)
    if hasattr(n, "ctx"):
        n.ctx = ast.Load()  # type: ignore[attr-defined]
    return n


class Evaluator:
    def __init__(self, src: Optional[str] = None, entry: str = "systems", unity_anchors: bool = True) -> None:
        self.src = src or SRC
        self.entry = entry
        self.unity_anchors = unity_anchors
        self.ns: Dict[str, ModuleNS] = {}
        self.loading: List[str] = []
        self.order: List[str] = []
        self.sources: Dict[str, str] = {}
        # tables
        self.fundamental: List[Dim] = []
        self.dims: Dict[FrozenSet[Tuple[int, int]], Dim] = {}
        self.dim_by_name: Dict[str, Dim] = {}
        self.dim_renames: List[Tuple[Dim, str, Any, str]] = []   # a named dimension derived again under another name
        self.prefixes: Dict[Tuple[int, Fraction], Pfx] = {}
        self.prefix_by_name: Dict[str, Pfx] = {}
        self.prefix_by_symbol: Dict[str, Pfx] = {}
        self.prefix_decls: List[Tuple[Pfx, Optional[str], Optional[str], str, str]] = []
        self.units: Dict[Tuple[int, FrozenSet[Tuple[int, int]]], UnitV] = {}
        self.unit_by_id: Dict[int, UnitV] = {}
        self.unit_by_name: Dict[str, UnitV] = {}
        self.unit_by_symbol: Dict[str, UnitV] = {}
        self.name_decls: List[Tuple[str, str, UnitV, str, str]] = []   # (kind,name/symbol,unit,module,where)
        self.edges: List[Edge] = []
        self.logs: Dict[Any, LogV] = {}
        self.logunits: List[LogUnitV] = []
        self.trace: List[Creation] = []
        self.problems: List[Tuple[str, str, str]] = []   # (kind, construct, message) import-time errors
        self.opaque_uses: List[Tuple[str, str]] = []
        self.identity_prefix: Optional[Pfx] = None
        self._uid = 0
        self._cur_module = ""
        self._cur_where = ""
        self.sizes = SizeSystem()
        self.pending_class_defaults: List[Tuple[str, ast.AST]] = []
        self.visited_calls: Set[int] = set()
        self.site_index: Dict[str, List[ast.Call]] = {}
        self.depth = 0

    # ------------------------------------------------------------ driver
    def run(self) -> "Evaluator":
        self.load_module(self.entry)
        return self

    def path_of(self, short: str) -> str:
        return os.path.join(self.src, "__init__.py" if short == "" else short + ".py")

    def load_module(self, short: str) -> ModuleNS:
        if short in self.ns:
            return self.ns[short]
        path = self.path_of(short)
        if not os.path.exists(path):
            raise AnalysisError(f"declaration module {rel(path)} not found")
        # importing measured.X first imports the package
        if short != "" and "" not in self.ns:
            self.load_module("")
            if short in self.ns:
                return self.ns[short]
        ns = ModuleNS()
        self.ns[short] = ns
        with open(path, encoding="utf-8") as fh:
            source = fh.read()
        self.sources[short] = source
        try:
            tree = ast.parse(source, filename=path)
        except SyntaxError as e:
            raise AnalysisError(f"cannot parse {rel(path)}: {e}")
        self.site_index[short] = decl_call_sites(tree)
        self.loading.append(short)
        for st in tree.body:
            self._cur_module = short
            self._cur_where = f"{rel(path)}:{st.lineno}"
            self.exec_stmt(short, ns, st, source)
        self.loading.pop()
        self.order.append(short)
        return ns

    # --------------------------------------------------------- statements
    def exec_stmt(self, short: str, ns: ModuleNS, st: ast.stmt, source: str) -> None:
        if isinstance(st, ast.ImportFrom):
            self._import_from(short, ns, st)
            return
        if isinstance(st, ast.Import):
            for a in st.names:
                parts = a.name.split(".")
                if parts[0] == "measured":
                    sub = ".".join(parts[1:])
                    if sub not in NON_DECL_MODULES:
                        self.load_module(sub)
                    ns[a.asname or "measured"] = ("module", "" if not a.asname else sub)
                elif a.name == "math":
                    ns[a.asname or "math"] = ("extmodule", "math")
                else:
                    ns[a.asname or parts[0]] = Opaque(f"import {a.name}")
            return
        if isinstance(st, ast.ClassDef):
            ns[st.name] = ("class", st.name)
            if short == "":
                # default-argument expressions of the methods run at class-definition time
                for sub in st.body:
                    if isinstance(sub, (ast.FunctionDef, ast.AsyncFunctionDef)):
                        for d in sub.args.defaults + [k for k in sub.args.kw_defaults if k is not None]:
                            if isinstance(d, ast.Call):
                                self._cur_where = f"{rel(self.path_of(short))}:{d.lineno}"
                                self.eval(short, ns, d, source)
            return
        if isinstance(st, (ast.FunctionDef, ast.AsyncFunctionDef)):
            ns[st.name] = Func(short, st, ns)
            return
        if isinstance(st, ast.Assign):
            v = self.eval(short, ns, st.value, source)
            for t in st.targets:
                self._assign(short, ns, t, v, source)
            return
        if isinstance(st, ast.AnnAssign):
            if st.value is not None:
                self._assign(short, ns, st.target, self.eval(short, ns, st.value, source), source)
            return
        if isinstance(st, ast.AugAssign):
            cur = self.eval(short, ns, ast.copy_location(_load(st.target), st.target), source)
            v = self.eval(short, ns, st.value, source)
            if isinstance(cur, list) and isinstance(v, (list, tuple)) and isinstance(st.op, ast.Add):
                cur.extend(v)
                return
            self._assign(short, ns, st.target, self._binop(st.op, cur, v), source)
            return
        if isinstance(st, ast.Expr):
            if isinstance(st.value, ast.Constant):
                return
            self.eval(short, ns, st.value, source)
            return
        if isinstance(st, ast.Return):
            raise _Return(self.eval(short, ns, st.value, source) if st.value is not None else None)
        if isinstance(st, ast.If):
            t = self._truth(self.eval(short, ns, st.test, source))
            if t is None:
                # undecidable guard (TYPE_CHECKING, version checks): not declarations
                self._opaque_stores(ns, st, "undecided if")
                return
            for sub in (st.body if t else st.orelse):
                self.exec_stmt(short, ns, sub, source)
            return
        if isinstance(st, ast.For):
            it = self.eval(short, ns, st.iter, source)
            seq = self._iterate(it)
            if seq is None:
                self._opaque_stores(ns, st, "loop over a non-literal iterable")
                return
            for i, x in enumerate(seq):
                if i > 20000:
                    raise AnalysisError("declaration loop exceeds 20000 iterations")
                self._assign(short, ns, st.target, x, source)
                for sub in st.body:
                    self.exec_stmt(short, ns, sub, source)
            return
        if isinstance(st, ast.Try):
            for sub in st.body:
                try:
                    self.exec_stmt(short, ns, sub, source)
                except DeclError:
                    pass
            return
        if isinstance(st, (ast.Pass, ast.Global, ast.Nonlocal, ast.Assert)):
            return
        self._opaque_stores(ns, st, f"statement {type(st).__name__}")

    def _opaque_stores(self, ns: Any, st: ast.AST, why: str) -> None:
        o = Opaque(why)
        for n in ast.walk(st):
            if isinstance(n, ast.Name) and isinstance(n.ctx, ast.Store):
                ns[n.id] = o

    def _assign(self, short: str, ns: Any, t: ast.AST, v: Any, source: str) -> None:
        if isinstance(t, ast.Name):
            ns[t.id] = v
            if isinstance(v, UnitV) and v.var is None and self.depth == 0:
                v.var = t.id
                v.module = v.module or short
            return
        if isinstance(t, (ast.Tuple, ast.List)):
            if isinstance(v, (list, tuple)) and len(v) == len(t.elts) and not any(isinstance(x, ast.Starred) for x in t.elts):
                for tt, vv in zip(t.elts, v):
                    self._assign(short, ns, tt, vv, source)
            else:
                for tt in t.elts:
                    self._assign(short, ns, tt, Opaque("unpacking a non-literal sequence"), source)
            return
        if isinstance(t, ast.Subscript):
            base = self.eval(short, ns, t.value, source)
            idx = self.eval(short, ns, t.slice, source)
            if isinstance(base, dict):
                base[self._k(idx)] = v
            elif isinstance(base, list) and isinstance(idx, Num) and idx.rational:
                try:
                    base[int(idx.coef)] = v
                except IndexError:
                    pass
            return
        # attribute stores on DSL objects are not part of the declaration DSL

    @staticmethod
    def _k(v: Any) -> Any:
        return v

    def _truth(self, v: Any) -> Optional[bool]:
        if isinstance(v, bool):
            return v
        if v is None:
            return False
        if isinstance(v, Num):
            return not v.is_zero()
        if isinstance(v, (str, list, tuple, dict)):
            return bool(v)
        if isinstance(v, (UnitV, Dim, Pfx, Qty, LogV, LogUnitV, LevelV, Func)):
            return True
        return None

    def _iterate(self, it: Any) -> Optional[List[Any]]:
        if isinstance(it, (list, tuple)):
            return list(it)
        if isinstance(it, dict):
            return list(it.keys())
        return None

    def _import_from(self, short: str, ns: ModuleNS, st: ast.ImportFrom) -> None:
        mod: Optional[str] = None
        if st.level == 1:
            mod = st.module or ""
        elif st.level == 0 and st.module:
            if st.module == "measured":
                mod = ""
            elif st.module.startswith("measured."):
                mod = st.module[len("measured."):]
        if mod is None:
            for a in st.names:
                if st.module == "math":
                    ns[a.asname or a.name] = ("extattr", "math", a.name)
                else:
                    ns[a.asname or a.name] = Opaque(f"from {st.module} import {a.name}")
            return
        if mod in NON_DECL_MODULES:
            for a in st.names:
                ns[a.asname or a.name] = Opaque(f"from {mod} import {a.name}")
            return
        target = self.load_module(mod)
        for a in st.names:
            local = a.asname or a.name
            if a.name in target:
                ns[local] = target[a.name]
            else:
                sub = f"{mod}.{a.name}" if mod else a.name
                if sub in NON_DECL_MODULES:
                    ns[local] = Opaque(f"module {sub}")
                elif os.path.exists(self.path_of(sub)):
                    self.load_module(sub)
                    ns[local] = ("module", sub)
                elif mod in self.loading:
                    ns[local] = Opaque(f"{a.name} not yet defined in partially imported {mod or 'measured'}")
                else:
                    ns[local] = Opaque(f"{a.name} not found in {mod or 'measured'}")

    # --------------------------------------------------------- expressions
    def eval(self, short: str, ns: ModuleNS, e: ast.AST, source: str) -> Any:
        try:
            return self._eval(short, ns, e, source)
        except DeclError as ex:
            self.problems.append(("import-error", self._cur_where, str(ex)))
            return Opaque(f"raises: {ex}")

    def _eval(self, short: str, ns: ModuleNS, e: ast.AST, source: str) -> Any:
        ev = lambda x: self._eval(short, ns, x, source)  # noqa: E731
        if isinstance(e, ast.Constant):
            if isinstance(e.value, bool) or e.value is None or isinstance(e.value, str):
                return e.value
            if isinstance(e.value, int):
                return Num(Fraction(e.value))
            if isinstance(e.value, float):
                text = ast.get_source_segment(source, e) or repr(e.value)
                try:
                    return Num(frac_from_text(text))
                except Exception:
                    return Num(Fraction(e.value))
            return Opaque("constant")
        if isinstance(e, ast.Name):
            if e.id in ns:
                return ns[e.id]
            if e.id in ("range", "zip", "enumerate", "list", "tuple", "len", "dict", "reversed", "sorted", "abs", "sum", "min", "max"):
                return ("builtin", e.id)
            if e.id in ("int", "float", "str", "set", "print"):
                return Opaque(f"builtin {e.id}")
            return Opaque(f"name {e.id}")
        if isinstance(e, ast.Attribute):
            base = ev(e.value)
            return self._getattr(base, e.attr)
        if isinstance(e, ast.UnaryOp):
            v = ev(e.operand)
            if isinstance(e.op, ast.USub):
                if isinstance(v, Num):
                    return -v
                if isinstance(v, Qty):
                    return Qty(-v.mag, v.unit)
            if isinstance(e.op, ast.UAdd):
                return v
            return Opaque("unary")
        if isinstance(e, ast.BinOp):
            return self._binop(e.op, ev(e.left), ev(e.right))
        if isinstance(e, ast.Call):
            return self._call(short, ns, e, source)
        if isinstance(e, ast.Subscript):
            base = ev(e.value)
            idx = ev(e.slice)
            if isinstance(base, LogV) and isinstance(idx, Qty):
                return self._logunit(base, idx)
            if isinstance(base, (list, tuple)) and isinstance(idx, Num) and idx.rational and idx.coef.denominator == 1:
                try:
                    return base[int(idx.coef)]
                except IndexError:
                    raise DeclError("IndexError in a declaration")
            if isinstance(base, dict):
                if idx in base:
                    return base[idx]
                raise DeclError("KeyError in a declaration")
            return Opaque("subscript")
        if isinstance(e, (ast.Set, ast.List)):
            return [ev(x) for x in e.elts]
        if isinstance(e, ast.Tuple):
            return tuple(ev(x) for x in e.elts)
        if isinstance(e, ast.Dict):
            if any(k is None for k in e.keys):
                return Opaque("dict unpacking")
            return {ev(k): ev(v) for k, v in zip(e.keys, e.values)}
        if isinstance(e, (ast.ListComp, ast.SetComp, ast.GeneratorExp, ast.DictComp)):
            return self._comprehension(short, ns, e, source)
        if isinstance(e, ast.IfExp):
            t = self._truth(ev(e.test))
            if t is None:
                return Opaque("undecided conditional expression")
            return ev(e.body if t else e.orelse)
        if isinstance(e, ast.BoolOp):
            last: Any = None
            for x in e.values:
                last = ev(x)
                t = self._truth(last)
                if t is None:
                    return Opaque("undecided boolean")
                if isinstance(e.op, ast.And) and not t:
                    return last
                if isinstance(e.op, ast.Or) and t:
                    return last
            return last
        if isinstance(e, ast.Compare):
            return self._compare(e, [ev(e.left)] + [ev(c) for c in e.comparators])
        if isinstance(e, ast.JoinedStr):
            parts = []
            for v in e.values:
                if isinstance(v, ast.Constant):
                    parts.append(str(v.value))
                else:
                    x = ev(v.value)  # type: ignore[attr-defined]
                    if isinstance(x, str):
                        parts.append(x)
                    elif isinstance(x, Num) and x.rational and x.coef.denominator == 1:
                        parts.append(str(int(x.coef)))
                    else:
                        return Opaque("f-string over a non-literal")
            return "".join(parts)
        return Opaque(type(e).__name__)

    def _compare(self, e: ast.Compare, vals: List[Any]) -> Any:
        res = True
        for op, a, b in zip(e.ops, vals, vals[1:]):
            if isinstance(a, Opaque) or isinstance(b, Opaque):
                return Opaque("comparison on opaque")
            if isinstance(op, (ast.Is, ast.IsNot)):
                r = a is b or (a is None and b is None)
                r = r if isinstance(op, ast.Is) else not r
            elif isinstance(op, (ast.Eq, ast.NotEq)):
                if isinstance(a, Num) and isinstance(b, Num):
                    r = a.dec() == b.dec()
                elif isinstance(a, (str, bool, type(None))) or isinstance(b, (str, bool, type(None))):
                    r = a == b
                elif isinstance(a, (UnitV, Dim, Pfx)) and isinstance(b, (UnitV, Dim, Pfx)):
                    r = a is b
                else:
                    return Opaque("equality outside the DSL")
                r = r if isinstance(op, ast.Eq) else not r
            elif isinstance(op, (ast.Lt, ast.LtE, ast.Gt, ast.GtE)) and isinstance(a, Num) and isinstance(b, Num):
                x, y = a.dec(), b.dec()
                r = {ast.Lt: x < y, ast.LtE: x <= y, ast.Gt: x > y, ast.GtE: x >= y}[type(op)]
            elif isinstance(op, (ast.In, ast.NotIn)) and isinstance(b, (list, tuple, dict, str)):
                try:
                    r = a in b
                except TypeError:
                    return Opaque("membership")
                r = r if isinstance(op, ast.In) else not r
            else:
                return Opaque("comparison outside the DSL")
            res = res and r
            if not res:
                return False
        return res

    def _comprehension(self, short: str, ns: Any, e: Any, source: str) -> Any:
        import collections
        out_list: List[Any] = []
        out_dict: Dict[Any, Any] = {}
        env = collections.ChainMap({}, ns)
        ok = True

        def rec(i: int) -> None:
            nonlocal ok
            if i == len(e.generators):
                if isinstance(e, ast.DictComp):
                    out_dict[self._eval(short, env, e.key, source)] = self._eval(short, env, e.value, source)
                else:
                    out_list.append(self._eval(short, env, e.elt, source))
                return
            g = e.generators[i]
            seq = self._iterate(self._eval(short, env, g.iter, source))
            if seq is None:
                ok = False
                return
            for x in seq:
                self._assign(short, env, g.target, x, source)
                keep = True
                for c in g.ifs:
                    t = self._truth(self._eval(short, env, c, source))
                    if t is None:
                        ok = False
                        return
                    if not t:
                        keep = False
                        break
                if keep:
                    rec(i + 1)
        self.depth += 1
        try:
            rec(0)
        finally:
            self.depth -= 1
        if not ok:
            return Opaque("comprehension over a non-literal iterable")
        return out_dict if isinstance(e, ast.DictComp) else out_list

    def _getattr(self, base: Any, attr: str) -> Any:
        if isinstance(base, (list, dict)) and attr in ("items", "keys", "values", "append", "extend", "get"):
            return ("cmethod", base, attr)
        if isinstance(base, tuple) and base and base[0] == "module":
            m = self.ns.get(base[1])
            if m is not None and attr in m:
                return m[attr]
            sub = f"{base[1]}.{attr}" if base[1] else attr
            if sub in self.ns:
                return ("module", sub)
            return Opaque(f"module attr {attr}")
        if isinstance(base, tuple) and base and base[0] == "extmodule" and base[1] == "math":
            if attr == "pi":
                return Num(Fraction(1), {"pi": Fraction(1)})
            if attr == "e":
                return Num(Fraction(1), {"e": Fraction(1)})
            return ("extattr", "math", attr)
        if isinstance(base, tuple) and base and base[0] == "class":
            return ("classattr", base[1], attr)
        if isinstance(base, (UnitV, Dim, Qty, LogV, LogUnitV, Pfx)):
            if isinstance(base, Qty) and attr == "magnitude":
                return base.mag
            if isinstance(base, Qty) and attr == "unit":
                return base.unit
            if isinstance(base, LevelV) and attr == "magnitude":
                return base.mag
            return ("bound", base, attr)
        if isinstance(base, LevelV):
            if attr == "magnitude":
                return base.mag
            return ("bound", base, attr)
        return Opaque(f"attr {attr}")

    # ------------------------------------------------------------ algebra
    def _binop(self, op: ast.operator, a: Any, b: Any) -> Any:
        if isinstance(a, Opaque) or isinstance(b, Opaque):
            return Opaque("binop on opaque")
        if isinstance(a, Num) and isinstance(b, Num):
            if isinstance(op, ast.Add):
                return a + b
            if isinstance(op, ast.Sub):
                return a - b
            if isinstance(op, ast.Mult):
                return a * b
            if isinstance(op, ast.Div):
                return a / b
            if isinstance(op, ast.Pow):
                if b.rational:
                    return a.pow(b.coef)
            return Opaque("numeric op")
        if isinstance(op, ast.Mult):
            return self._mul(a, b)
        if isinstance(op, ast.Div):
            return self._div(a, b)
        if isinstance(op, ast.Pow):
            if isinstance(b, Num) and b.rational and b.coef.denominator == 1:
                return self._pow(a, int(b.coef))
            return Opaque("pow")
        if isinstance(op, (ast.Add, ast.Sub)):
            if isinstance(a, Qty) and isinstance(b, Qty):
                bb = self.convert(b, a.unit)
                if bb is None:
                    return Opaque("sum needs an unknown conversion")
                return Qty(a.mag + bb.mag if isinstance(op, ast.Add) else a.mag - bb.mag, a.unit)
        return Opaque(f"binop {type(op).__name__} on {type(a).__name__},{type(b).__name__}")

    def _mul(self, a: Any, b: Any) -> Any:
        if isinstance(a, Num) and not isinstance(b, Num):
            a, b = b, a  # all library __rmul__ are aliases of __mul__
        if isinstance(a, Dim) and isinstance(b, Dim):
            return self.dim_op(a, b, 1)
        if isinstance(a, Pfx):
            if isinstance(b, Pfx):
                return self.prefix_mul(a, b, 1)
            if isinstance(b, UnitV):
                return self.unit(self.prefix_mul(b.prefix, a, 1), b.factors, b.dimension)
            if isinstance(b, Num):
                return Qty(b * a.value(), self.one())
            if isinstance(b, LogV):
                return self.logarithm(b.base, self.prefix_mul(b.prefix, a, 1))
            if isinstance(b, Qty):
                # Quantity.__mul__(Prefix) is NotImplemented; Prefix.__rmul__ is too for Quantity
                return Opaque("Quantity*Prefix unsupported by the library")
        if isinstance(a, UnitV):
            if isinstance(b, UnitV):
                return self.unit_op(a, b, 1)
            if isinstance(b, Num):
                return Qty(b, a)
            if isinstance(b, Pfx):
                return self._mul(b, a)
            if isinstance(b, Qty):
                return Qty(b.mag, self.unit_op(b.unit, a, 1))
        if isinstance(a, Qty):
            if isinstance(b, UnitV):
                return Qty(a.mag, self.unit_op(a.unit, b, 1))
            if isinstance(b, Qty):
                return Qty(a.mag * b.mag, self.unit_op(a.unit, b.unit, 1))
            if isinstance(b, Num):
                return Qty(a.mag * b, a.unit)
            if isinstance(b, Pfx):
                # Quantity.__mul__ returns NotImplemented, Prefix.__rmul__ = __mul__ has no
                # Quantity arm: the library computes (q * prefix) only via numbers
                return Qty(a.mag * b.value(), a.unit) if False else self._qty_times_prefix(a, b)
        if isinstance(a, LogV) and isinstance(b, Pfx):
            return self.logarithm(a.base, self.prefix_mul(a.prefix, b, 1))
        if isinstance(a, LogUnitV) and isinstance(b, Num):
            return LevelV(b, a)
        if isinstance(b, LogUnitV) and isinstance(a, Num):
            return LevelV(a, b)
        return Opaque(f"mul {type(a).__name__}*{type(b).__name__}")

    def _qty_times_prefix(self, q: Qty, p: Pfx) -> Any:
        # `127 / 360 * Milli * Meter` parses as ((127/360) * Milli) * Meter; a Quantity on
        # the left of a Prefix only arises as Quantity(One) * ... which the library handles
        # through Prefix.__rmul__ -> NotImplemented -> TypeError.  Never used in shipped code.
        return Opaque("Quantity*Prefix")

    def _div(self, a: Any, b: Any) -> Any:
        if isinstance(a, Dim) and isinstance(b, Dim):
            return self.dim_op(a, b, -1)
        if isinstance(a, Pfx) and isinstance(b, Pfx):
            return self.prefix_mul(a, b, -1)
        if isinstance(a, UnitV) and isinstance(b, UnitV):
            return self.unit_op(a, b, -1)
        if isinstance(a, Qty):
            if isinstance(b, UnitV):
                return Qty(a.mag, self.unit_op(a.unit, b, -1))
            if isinstance(b, Qty):
                return Qty(a.mag / b.mag, self.unit_op(a.unit, b.unit, -1))
            if isinstance(b, Num):
                return Qty(a.mag / b, a.unit)
        if isinstance(a, Num) and isinstance(b, Qty):
            # Quantity.__rtruediv__ as the library implements it (unit NOT inverted)
            return Qty(a / b.mag, self.rtruediv_unit(b.unit))
        return Opaque(f"div {type(a).__name__}/{type(b).__name__}")

    rtruediv_inverts_unit = False  # set from source facts by consumers if the library changes

    def rtruediv_unit(self, u: UnitV) -> UnitV:
        return self._pow(u, -1) if self.rtruediv_inverts_unit else u

    def _pow(self, a: Any, n: int) -> Any:
        if isinstance(a, Dim):
            return self.dim({i: e * n for i, e in a.exps.items()})
        if isinstance(a, Pfx):
            return self.prefix(a.base, a.exponent * n)
        if isinstance(a, UnitV):
            return self.unit(self.prefix(a.prefix.base, a.prefix.exponent * n),
                             {u: e * n for u, e in a.factors.items()},
                             self.dim({i: e * n for i, e in a.dimension.exps.items()}))
        if isinstance(a, Qty):
            return Qty(a.mag.pow(Fraction(n)), self._pow(a.unit, n))
        if isinstance(a, Num):
            return a.pow(Fraction(n))
        return Opaque("pow")

    def root(self, a: Any, d: int) -> Any:
        if isinstance(a, Qty):
            u = self.unit_root(a.unit, d)
            if u is None:
                raise DeclError(f"FractionalDimensionError: root {d} of {a.unit}")
            return Qty(a.mag.pow(Fraction(1, d)), u)
        if isinstance(a, UnitV):
            u = self.unit_root(a, d)
            if u is None:
                raise DeclError("FractionalDimensionError")
            return u
        return Opaque("root")

    def unit_root(self, u: UnitV, d: int) -> Optional[UnitV]:
        if any(e % d for e in u.factors.values() if True) or any(e % d for e in u.dimension.exps.values()):
            # One has exponent 1 in {One:1}: the library ignores One in its guard
            if not (len(u.factors) == 1 and self.one().uid in u.factors):
                return None
        pe = u.prefix.exponent / d
        if pe.denominator != 1:
            return None
        return self.unit(self.prefix(u.prefix.base, pe),
                         {k: e // d for k, e in u.factors.items() if k != self.one().uid} or {self.one().uid: 1},
                         self.dim({i: e // d for i, e in u.dimension.exps.items()}))

    # ----------------------------------------------------------- interning
    def dim(self, exps: Dict[int, int], name: Optional[str] = None, symbol: Optional[str] = None) -> Dim:
        d = Dim({i: e for i, e in exps.items() if e})
        k = d.key()
        if k in self.dims:
            self.trace.append(Creation("Dimension", k, bool(name), False, self._cur_module, self._cur_where, name, symbol))
            return self.dims[k]
        d.name, d.symbol, d.where = name, symbol, self._cur_where
        self.dims[k] = d
        if name:
            self.dim_by_name[name] = d
        self.trace.append(Creation("Dimension", k, bool(name), True, self._cur_module, self._cur_where, name, symbol))
        return d

    def dim_op(self, a: Dim, b: Dim, sign: int) -> Dim:
        ex = dict(a.exps)
        for i, e in b.exps.items():
            ex[i] = ex.get(i, 0) + sign * e
        return self.dim(ex)

    def prefix(self, base: int, exponent: Fraction, name: Optional[str] = None,
               symbol: Optional[str] = None) -> Pfx:
        exponent = Fraction(exponent)
        if base != 0 and exponent == 0:
            if self.identity_prefix is None:
                raise DeclError("IdentityPrefix referenced before it is defined")
            return self.identity_prefix
        key = (base, exponent)
        fresh = key not in self.prefixes
        self.trace.append(Creation("Prefix", key, bool(name or symbol), fresh, self._cur_module, self._cur_where, name, symbol))
        if name or symbol:
            self.prefix_decls.append((self.prefixes.get(key) or None, name, symbol, self._cur_module, self._cur_where))  # type: ignore[arg-type]
        if not fresh:
            p = self.prefixes[key]
            if name or symbol:
                self._late_prefix_name(p, name, symbol)
            return p
        p = Pfx(base, exponent, name, symbol, self._cur_where, self._cur_where)
        self.prefixes[key] = p
        if base == 0 and exponent == 0:
            self.identity_prefix = p
        if name:
            self.prefix_by_name[name] = p
        if symbol:
            self.prefix_by_symbol[symbol] = p
        if name or symbol:
            self.prefix_decls[-1] = (p, name, symbol, self._cur_module, self._cur_where)
        return p

    # how Prefix.__init__ treats a name given for an already-initialised prefix; set
    # from the source by the consumer (today: ignored)
    prefix_init_names_existing = False

    def _late_prefix_name(self, p: Pfx, name: Optional[str], symbol: Optional[str]) -> None:
        self.prefix_decls[-1] = (p, name, symbol, self._cur_module, self._cur_where)
        if self.prefix_init_names_existing:
            if name:
                p.name = p.name or name
                self.prefix_by_name[name] = p
            if symbol:
                p.symbol = p.symbol or symbol
                self.prefix_by_symbol[symbol] = p

    def prefix_mul(self, a: Pfx, b: Pfx, sign: int) -> Pfx:
        if b.base == 0:
            return a
        if a.base == 0:
            return b if sign > 0 else self.prefix(b.base, -b.exponent)
        if a.base == b.base:
            return self.prefix(a.base, a.exponent + sign * b.exponent)
        raise DeclError("mixed-base prefix product in a declaration (float base change)")

    def one(self) -> UnitV:
        u = self.unit_by_name.get("one")
        if u is None:
            raise DeclError("One referenced before it is defined")
        return u

    def unit(self, prefix: Pfx, factors: Dict[int, int], dimension: Dim) -> UnitV:
        f = {u: e for u, e in factors.items() if e != 0}
        one = self.unit_by_name.get("one")
        if one is not None and len(f) > 1:
            f.pop(one.uid, None)
        if not f and one is not None:
            f = {one.uid: 1}
        key = ((prefix.base, prefix.exponent), frozenset(f.items()))
        if key in self.units:
            self.trace.append(Creation("Unit", key, False, False, self._cur_module, self._cur_where))
            return self.units[key]
        self._uid += 1
        u = UnitV(self._uid, prefix, f, dimension, module=self._cur_module, where=self._cur_where)
        self.units[key] = u
        self.unit_by_id[u.uid] = u
        self.trace.append(Creation("Unit", key, False, True, self._cur_module, self._cur_where))
        return u

    def unit_op(self, a: UnitV, b: UnitV, sign: int) -> UnitV:
        f = dict(a.factors)
        for u, e in b.factors.items():
            f[u] = f.get(u, 0) + sign * e
        one = self.unit_by_name.get("one")
        if one is not None:
            f.pop(one.uid, None)
        return self.unit(self.prefix_mul(a.prefix, b.prefix, sign), f, self.dim_op(a.dimension, b.dimension, sign))

    def define_unit(self, dimension: Dim, name: str, symbol: str) -> UnitV:
        if name in self.unit_by_name:
            raise DeclError(f"ValueError: A unit named {name} is already defined")
        if symbol in self.unit_by_symbol:
            raise DeclError(f"ValueError: A unit with symbol {symbol} is already defined")
        if self.identity_prefix is None:
            raise DeclError("IdentityPrefix not defined")
        self._uid += 1
        u = UnitV(self._uid, self.identity_prefix, {}, dimension, is_base=True,
                  module=self._cur_module, where=self._cur_where)
        u.factors = {u.uid: 1}
        key = ((0, Fraction(0)), frozenset(u.factors.items()))
        self.units[key] = u
        self.unit_by_id[u.uid] = u
        self.trace.append(Creation("Unit", key, True, True, self._cur_module, self._cur_where, name, symbol))
        self.alias(u, name, symbol)
        return u

    def alias(self, u: UnitV, name: Optional[str], symbol: Optional[str]) -> None:
        if name:
            if name in self.unit_by_name and self.unit_by_name[name] is not u:
                raise DeclError(f"ValueError: A unit named {name} is already defined")
            u.names.append(name)
            self.unit_by_name[name] = u
            self.name_decls.append(("name", name, u, self._cur_module, self._cur_where))
        if symbol:
            if symbol in self.unit_by_symbol and self.unit_by_symbol[symbol] is not u:
                raise DeclError(f"ValueError: A unit with symbol {symbol} is already defined")
            if " " in symbol:
                raise DeclError(f"ValueError: {symbol!r} will not be parsable if it has spaces")
            u.symbols.append(symbol)
            self.unit_by_symbol[symbol] = u
            self.name_decls.append(("symbol", symbol, u, self._cur_module, self._cur_where))

    def logarithm(self, base: Any, prefix: Optional[Pfx] = None, name: Optional[str] = None,
                  symbol: Optional[str] = None) -> LogV:
        if prefix is None:
            prefix = self.prefix(0, Fraction(0))
        bk = base.key() if isinstance(base, Num) else base
        key = (bk, (prefix.base, prefix.exponent))
        fresh = key not in self.logs
        self.trace.append(Creation("Logarithm", key, bool(name or symbol), fresh, self._cur_module, self._cur_where, name, symbol))
        if not fresh:
            return self.logs[key]
        lv = LogV(base, prefix, name, symbol, self._cur_where)
        self.logs[key] = lv
        return lv

    def _logunit(self, lg: LogV, ref: Qty) -> LogUnitV:
        ref = self.unprefixed(ref)
        for lu in self.logunits:
            if lu.logarithm is lg and lu.reference.unit is ref.unit and lu.reference.mag == ref.mag:
                return lu
        lu = LogUnitV(lg, ref, where=self._cur_where)
        self.logunits.append(lu)
        return lu

    # -------------------------------------------------------- conversions
    def unprefixed(self, q: Qty) -> Qty:
        u = q.unit
        if u.prefix.base == 0:
            return q
        bare = self.unit(self.prefix(0, Fraction(0)), u.factors, u.dimension)
        return Qty(q.mag * u.prefix.value(), bare)

    def equate(self, a: Qty, b: Qty, lhs_var: Optional[str], text: str) -> None:
        if a.unit is b.unit and a.unit is not self.unit_by_name.get("one"):
            raise DeclError("ValueError: No need to define conversions for a unit and itself")
        a, b = self.unprefixed(a), self.unprefixed(b)
        if a.mag.is_zero() or b.mag.is_zero():
            self.problems.append(("zero-ratio", self._cur_where, f"declaration {text} has a zero magnitude"))
            return
        edge = Edge(a.unit, b.unit, b.mag / a.mag, self._cur_module, self._cur_where,
                    text, lhs_var, seq=len(self.edges))
        self.edges.append(edge)
        self._solve(edge)

    def _solve(self, edge: Edge) -> None:
        anchors = {u.uid for u in self.unit_by_id.values() if u.is_base and u.module in ("", "si")}
        if self.unity_anchors:
            self.sizes.unity = {u.uid for u in self.unit_by_id.values() if u.is_base and u.module in ("", "si") and not u.dimension.exps
                                and u.name in UNITY_NAMES}
        prefer = None
        if len(edge.a.factors) == 1:
            (uid, e), = edge.a.factors.items()
            if e == 1:
                prefer = uid
        self.sizes.add(edge, prefer, anchors)

    def translate(self, scale: UnitV, zero: Qty, text: str) -> None:
        if scale is zero.unit:
            raise DeclError("ValueError: No need to define conversions for a unit and itself")
        # value[degree] = value[scale] * 1 + offset
        edge = Edge(scale, zero.unit, Num(Fraction(1)), self._cur_module, self._cur_where,
                    text, scale.var, offset=zero.mag, is_scale=True, seq=len(self.edges))
        self.edges.append(edge)
        self._solve(edge)

    def convert(self, q: Qty, target: UnitV) -> Optional[Qty]:
        """`in_unit` inside a declaration: value-preserving by the C04 axiom; magnitude
        from the equation system as it stands at this point."""
        if q.unit.dimension is not target.dimension:
            raise DeclError(f"ConversionNotFound: {q.unit} to {target} (different dimensions)")
        r = self.sizes.size_ratio(q.unit, target)
        if r is None:
            return None
        return Qty(q.mag * r, target)

    # ------------------------------------------------------------- calls
    def _call(self, short: str, ns: ModuleNS, e: ast.Call, source: str) -> Any:
        ev = lambda x: self._eval(short, ns, x, source)  # noqa: E731
        f = ev(e.func)
        args = [ev(a) for a in e.args]
        kw = {k.arg: ev(k.value) for k in e.keywords if k.arg}
        text = ast.unparse(e)
        self._cur_where = f"{rel(self.path_of(short))}:{e.lineno}"
        self._cur_module = short
        self.visited_calls.add(id(e))
        if any(isinstance(a, ast.Starred) for a in e.args) or any(k.arg is None for k in e.keywords):
            return Opaque("star-arguments")
        if isinstance(f, Func):
            return self._call_func(f, args, kw, text)
        if isinstance(f, tuple) and f and f[0] == "extattr" and f[1] == "math" and args and all(isinstance(a, Num) for a in args) and not kw:
            # math.log / log2 / log10 / log1p / exp / sqrt of literal numbers: 60-digit decimals (the results are irrational anyway)
            from .num import CTX
            from decimal import Decimal as _D
            x = args[0].dec()
            try:
                if f[2] == "log" and len(args) == 1:
                    return Num(approx=CTX.ln(x))
                if f[2] == "log" and len(args) == 2:
                    return Num(approx=CTX.divide(CTX.ln(x), CTX.ln(args[1].dec())))
                if f[2] == "log2" and len(args) == 1:
                    return Num(approx=CTX.divide(CTX.ln(x), CTX.ln(_D(2))))
                if f[2] == "log10" and len(args) == 1:
                    return Num(approx=CTX.log10(x))
                if f[2] == "log1p" and len(args) == 1:
                    return Num(approx=CTX.ln(CTX.add(x, _D(1))))
                if f[2] == "exp" and len(args) == 1:
                    return Num(approx=CTX.exp(x))
                if f[2] == "sqrt" and len(args) == 1:
                    return args[0].pow(Fraction(1, 2))
            except Exception as ex:  # noqa: BLE001
                raise DeclError(f"ValueError: math.{f[2]} of {x}: {ex}")
        if isinstance(f, tuple) and f and f[0] == "builtin":
            return self._builtin(f[1], args, kw)
        if isinstance(f, tuple) and f and f[0] == "cmethod":
            base, attr = f[1], f[2]
            if isinstance(base, dict):
                if attr == "items":
                    return [(k, v) for k, v in base.items()]
                if attr == "keys":
                    return list(base.keys())
                if attr == "values":
                    return list(base.values())
                if attr == "get" and args:
                    return base.get(args[0], args[1] if len(args) > 1 else None)
            if isinstance(base, list):
                if attr == "append" and args:
                    base.append(args[0])
                    return None
                if attr == "extend" and args and isinstance(args[0], (list, tuple)):
                    base.extend(args[0])
                    return None
            return Opaque(f"container method {attr}")

        def arg(i: int, name: str, default: Any = None) -> Any:
            if i < len(args):
                return args[i]
            return kw.get(name, default)

        if isinstance(f, tuple) and f[0] == "class":
            cls = f[1]
            if cls == "Prefix":
                b, x = arg(0, "base"), arg(1, "exponent")
                if isinstance(b, Num) and isinstance(x, Num) and b.rational and x.rational:
                    if b.coef == 0 and x.coef == 0:
                        return self.prefix(0, Fraction(0), arg(2, "name"), arg(3, "symbol"))
                    return self.prefix(int(b.coef), x.coef, arg(2, "name"), arg(3, "symbol"))
                return Opaque("Prefix(non-literal)")
            if cls == "Logarithm":
                b = arg(0, "base")
                p = arg(1, "prefix")
                return self.logarithm(b, p if isinstance(p, Pfx) else None, arg(2, "name"), arg(3, "symbol"))
            if cls == "Quantity":
                m, u = arg(0, "magnitude"), arg(1, "unit")
                if isinstance(m, Num) and isinstance(u, UnitV):
                    return Qty(m, u)
            if cls == "Measurement":
                return Opaque("Measurement")
            return Opaque(f"{cls}(...)")
        if isinstance(f, tuple) and f[0] == "classattr":
            cls, attr = f[1], f[2]
            if cls == "Dimension" and attr == "define":
                return self._dimension_define(arg(0, "name"), arg(1, "symbol"))
            if cls == "Dimension" and attr == "derive":
                d = arg(0, "dimension")
                if isinstance(d, Dim):
                    nm, sy = arg(1, "name"), arg(2, "symbol")
                    if d.name and d.name != nm:
                        self.dim_renames.append((d, d.name, nm, self._cur_where))
                    d.name = nm
                    d.symbol = sy or (d.symbol if d.symbol else None)
                    self.dim_by_name[nm] = d
                    return d
                return Opaque("Dimension.derive(opaque)")
            if cls == "Unit" and attr == "derive":
                u = arg(0, "unit")
                if isinstance(u, UnitV):
                    self.alias(u, arg(1, "name"), arg(2, "symbol"))
                    return u
                self.opaque_uses.append((self._cur_where, text))
                return Opaque("Unit.derive(opaque)")
            if cls == "Unit" and attr == "define":
                d = arg(0, "dimension")
                if isinstance(d, Dim):
                    return self.define_unit(d, arg(1, "name"), arg(2, "symbol"))
            return Opaque(f"{cls}.{attr}(...)")
        if isinstance(f, tuple) and f[0] == "bound":
            obj, attr = f[1], f[2]
            if isinstance(obj, Dim):
                if attr == "unit":
                    return self.define_unit(obj, arg(0, "name"), arg(1, "symbol"))
                if attr == "scale":
                    zero = arg(0, "zero")
                    u = self.define_unit(obj, arg(1, "name"), arg(2, "symbol"))
                    if isinstance(zero, Qty):
                        # the assignment target is not known yet; var is patched by Assign
                        self.translate(u, zero, text)
                    else:
                        self.opaque_uses.append((self._cur_where, text))
                    return u
            if isinstance(obj, UnitV):
                if attr == "equals":
                    q = arg(0, "other")
                    if isinstance(q, Qty):
                        lhs = e.func.value.id if isinstance(e.func, ast.Attribute) and isinstance(e.func.value, ast.Name) else None
                        self.equate(Qty(Num(Fraction(1)), obj), q, lhs, text)
                    else:
                        self.opaque_uses.append((self._cur_where, text))
                    return None
                if attr == "alias":
                    self.alias(obj, arg(0, "name"), arg(1, "symbol"))
                    return None
                if attr == "root":
                    d = arg(0, "degree")
                    if isinstance(d, Num):
                        return self.root(obj, int(d.coef))
                if attr == "quantify":
                    return self.unprefixed(Qty(Num(Fraction(1)), obj))
            if isinstance(obj, Qty):
                if attr == "root":
                    d = arg(0, "degree")
                    if isinstance(d, Num):
                        return self.root(obj, int(d.coef))
                if attr == "in_unit":
                    t = arg(0, "other")
                    if isinstance(t, UnitV):
                        r = self.convert(obj, t)
                        if r is None:
                            self.opaque_uses.append((self._cur_where, text))
                            return Opaque("in_unit without a known conversion")
                        return r
                if attr == "unprefixed":
                    return self.unprefixed(obj)
            if isinstance(obj, LogV) and attr == "alias":
                obj.name, obj.symbol = arg(0, "name"), arg(1, "symbol")
                return obj
            if isinstance(obj, LogUnitV) and attr == "alias":
                obj.name, obj.symbol = arg(0, "name"), arg(1, "symbol")
                return obj
            return Opaque(f"method {attr}")
        return Opaque(f"call {text[:40]}")

    def _builtin(self, name: str, args: List[Any], kw: Dict[str, Any]) -> Any:
        def ints(xs: List[Any]) -> Optional[List[int]]:
            out = []
            for x in xs:
                if isinstance(x, Num) and x.rational and x.coef.denominator == 1:
                    out.append(int(x.coef))
                else:
                    return None
            return out
        if name == "range":
            iv = ints(args)
            if iv is None or not 1 <= len(iv) <= 3:
                return Opaque("range of non-literals")
            return [Num(Fraction(i)) for i in range(*iv)]
        seqs = [self._iterate(a) for a in args]
        if name == "zip":
            if any(s_ is None for s_ in seqs):
                return Opaque("zip of non-literals")
            return [tuple(t) for t in zip(*seqs)]  # type: ignore[arg-type]
        if name == "enumerate" and seqs and seqs[0] is not None:
            start = 0
            if len(args) > 1 or "start" in kw:
                iv = ints([args[1] if len(args) > 1 else kw["start"]])
                if iv is None:
                    return Opaque("enumerate start")
                start = iv[0]
            return [(Num(Fraction(i)), x) for i, x in enumerate(seqs[0], start)]
        if name in ("list", "tuple", "reversed") and len(args) <= 1:
            if not args:
                return [] if name == "list" else ()
            if seqs[0] is None:
                return Opaque(f"{name} of a non-literal")
            r = list(reversed(seqs[0])) if name == "reversed" else list(seqs[0])
            return tuple(r) if name == "tuple" else r
        if name == "dict":
            if not args:
                return dict(kw)
            if isinstance(args[0], dict):
                return dict(args[0])
            if seqs[0] is not None:
                try:
                    return {k: v for k, v in seqs[0]}
                except (TypeError, ValueError):
                    return Opaque("dict of a non-pair sequence")
        if name == "len" and args and seqs[0] is not None:
            return Num(Fraction(len(seqs[0])))
        if name == "abs" and args and isinstance(args[0], Num):
            return args[0] if args[0].sign() >= 0 else -args[0]
        if name == "sum" and args and seqs[0] is not None and all(isinstance(x, Num) for x in seqs[0]):
            tot = Num(Fraction(0))
            for x in seqs[0]:
                tot = tot + x
            return tot
        return Opaque(f"builtin {name}")

    def _call_func(self, f: Func, args: List[Any], kw: Dict[str, Any], text: str) -> Any:
        import collections
        if self.depth > 25:
            raise AnalysisError("declaration helper recursion too deep")
        node = f.node
        a = node.args  # type: ignore[attr-defined]
        if a.kwarg:
            return Opaque("helper with **kwargs")
        pos = a.posonlyargs + a.args
        local: Dict[str, Any] = {}
        if a.vararg:
            # def helper(a, b, *rest): the surplus positional arguments, as a tuple
            local[a.vararg.arg] = tuple(args[len(pos):])
            args = args[:len(pos)]
        source = self.sources.get(f.short, "")
        defaults = dict(zip([x.arg for x in reversed(pos)], reversed(a.defaults)))
        for x, d in zip(a.kwonlyargs, a.kw_defaults):
            if d is not None:
                defaults[x.arg] = d
        if len(args) > len(pos):
            raise DeclError(f"TypeError: too many arguments in {text}")
        for x, v in zip(pos, args):
            local[x.arg] = v
        for k, v in kw.items():
            local[k] = v
        for x in pos + a.kwonlyargs:
            if x.arg not in local:
                if x.arg in defaults:
                    local[x.arg] = self._eval(f.short, f.globals, defaults[x.arg], source)
                else:
                    raise DeclError(f"TypeError: missing argument {x.arg} in {text}")
        env = collections.ChainMap(local, f.globals)
        saved = (self._cur_module, self._cur_where)
        self.depth += 1
        try:
            for st in node.body:  # type: ignore[attr-defined]
                self.exec_stmt(f.short, env, st, source)
        except _Return as r:
            return r.value
        finally:
            self.depth -= 1
            self._cur_module, self._cur_where = saved
        return None

    def unvisited_sites(self) -> List[Tuple[str, int, str]]:
        out = []
        for short, sites in self.site_index.items():
            for c in sites:
                if id(c) not in self.visited_calls:
                    out.append((short, c.lineno, ast.unparse(c)[:80]))
        return out

    def _dimension_define(self, name: Any, symbol: Any) -> Dim:
        index = len(self.fundamental)
        exps = {} if index == 0 else {index: 1}
        d = self.dim(exps, name, symbol)
        self.fundamental.append(d)
        return d


# ----------------------------------------------------------------------------
# unit sizes: multiplicative Gaussian elimination over base units


# the dimensionless units SI itself defines as the number 1 (SI brochure 2.3.3: rad = m/m, sr = m^2/m^2); every other
# dimensionless unit (degree, percent, ...) gets its size from its declarations
UNITY_NAMES = {"one", "radian", "steradian"}


class SizeSystem:
    """Each base unit u has an unknown positive size s_u.  A declaration
    `1 A = r B` (A, B unit monomials, prefixes already folded into r) is the equation
    prod s_u^(a_u - b_u) = r.  Rows are kept reduced; a dependent row leaves a residual
    number that must be 1."""

    def __init__(self) -> None:
        # base units whose size is 1 by definition: One and the dimensionless SI units (rad = m/m, sr = m^2/m^2).  The planner
        # agrees - it sheds a dimensionless factor without a step (anchor F4, sa/planner_reach.py) - so an equation that would
        # give one of them another size is a dependent equation with a residual, not a definition
        self.unity: Set[int] = set()
        self.rows: Dict[int, Tuple[Dict[int, Fraction], Num]] = {}  # pivot uid -> (vec without pivot, rhs): s_p = rhs * prod s_u^vec[u]
        self.residuals: List[Tuple[Edge, Num, int]] = []
        self.pivot_edge: Dict[int, Edge] = {}

    def reduce(self, vec: Dict[int, Fraction], rhs: Num) -> Tuple[Dict[int, Fraction], Num]:
        """Substitute pivots: returns the equation prod s^vec = rhs over free units."""
        vec = {u: Fraction(e) for u, e in vec.items() if e}
        changed = True
        while changed:
            changed = False
            for p in list(vec):
                if p in self.rows and vec[p] != 0:
                    e = vec.pop(p)
                    rv, rr = self.rows[p]
                    # s_p^e = rr^e * prod s_u^(rv[u]*e)
                    rhs = rhs / rr.pow(e)
                    for u, x in rv.items():
                        vec[u] = vec.get(u, Fraction(0)) + x * e
                        if vec[u] == 0:
                            del vec[u]
                    changed = True
        for u in [u for u in vec if u in self.unity]:
            del vec[u]
        return vec, rhs

    def add(self, edge: Edge, prefer: Optional[int], free_last: Set[int]) -> Optional[Num]:
        vec: Dict[int, Fraction] = {}
        for u, e in edge.a.factors.items():
            vec[u] = vec.get(u, Fraction(0)) + e
        for u, e in edge.b.factors.items():
            vec[u] = vec.get(u, Fraction(0)) - e
        vec, rhs = self.reduce(vec, edge.ratio)
        if not vec:
            deg = sum(abs(e) for e in edge.a.factors.values()) + sum(abs(e) for e in edge.b.factors.values())
            self.residuals.append((edge, rhs, deg))
            return rhs
        # choose pivot: the declared (lhs) unit if still free, else any non-anchor unit
        cands = [u for u in vec if u not in free_last]
        if prefer is not None and prefer in vec and prefer not in free_last:
            p = prefer
        elif cands:
            p = cands[0]
        else:
            p = next(iter(vec))
        e = vec.pop(p)
        # s_p^e * prod s_u^vec = rhs  =>  s_p = rhs^(1/e) * prod s_u^(-vec/e)
        row_vec = {u: -x / e for u, x in vec.items()}
        row_rhs = rhs.pow(1 / e)
        # back-substitute into existing rows
        for q, (rv, rr) in list(self.rows.items()):
            if p in rv:
                x = rv.pop(p)
                rr = rr * row_rhs.pow(x)
                for u, y in row_vec.items():
                    rv[u] = rv.get(u, Fraction(0)) + y * x
                    if rv[u] == 0:
                        del rv[u]
                self.rows[q] = (rv, rr)
        self.rows[p] = (row_vec, row_rhs)
        self.pivot_edge[p] = edge
        return None

    def size_ratio(self, a: UnitV, b: UnitV) -> Optional[Num]:
        """1 a = r b if determined by the equations so far (prefixes included)."""
        vec: Dict[int, Fraction] = {}
        for u, e in a.factors.items():
            vec[u] = vec.get(u, Fraction(0)) + e
        for u, e in b.factors.items():
            vec[u] = vec.get(u, Fraction(0)) - e
        vec, rhs = self.reduce(vec, Num(Fraction(1)))
        if vec:
            return None
        # prod s^vec0 = 1 reduced to 1 = rhs' ... reduce() divides rhs by substituted sizes:
        # a/b = 1/rhs
        return (rhs.inv()) * a.prefix.value() / b.prefix.value()
