"""Exact numbers for the declaration evaluator: a rational coefficient times a formal
product of bases raised to rational powers (named irrationals pi, e; rational bases for
square roots).  Falls back to 60-digit decimals when a sum mixes irrational parts."""
from __future__ import annotations

import decimal
from decimal import Decimal
from fractions import Fraction
from typing import Dict, Optional, Tuple, Union

CTX = decimal.Context(prec=60)
PI = Decimal("3.14159265358979323846264338327950288419716939937510582097494459")
E = Decimal("2.71828182845904523536028747135266249775724709369995957496696763")
CONSTS = {"pi": PI, "e": E}

Base = Union[str, Fraction]


def frac_from_text(text: str) -> Fraction:
    t = text.replace("_", "")
    return Fraction(Decimal(t))


class Num:
    __slots__ = ("coef", "irr", "approx")

    def __init__(self, coef: Fraction = Fraction(1), irr: Optional[Dict[Base, Fraction]] = None,
                 approx: Optional[Decimal] = None) -> None:
        self.coef = Fraction(coef)
        self.irr: Dict[Base, Fraction] = {}
        self.approx = approx
        if irr and approx is None:
            for b, e in irr.items():
                e = Fraction(e)
                if e == 0:
                    continue
                if isinstance(b, Fraction):
                    if b <= 0:
                        raise ValueError("non-positive base under a root")
                    if e.denominator == 1:
                        self.coef *= b ** int(e)
                        continue
                    # split integer part
                    whole = e.numerator // e.denominator
                    if whole:
                        self.coef *= b ** whole
                        e -= whole
                    # perfect powers
                    r = _exact_root(b, e.denominator)
                    if r is not None:
                        self.coef *= r ** e.numerator
                        continue
                self.irr[b] = self.irr.get(b, Fraction(0)) + e
            self.irr = {b: e for b, e in self.irr.items() if e != 0}
        if self.coef == 0:
            self.irr = {}

    # ------------------------------------------------------------ helpers
    @staticmethod
    def of(x: Union[int, Fraction, "Num"]) -> "Num":
        return x if isinstance(x, Num) else Num(Fraction(x))

    @property
    def exact(self) -> bool:
        return self.approx is None

    @property
    def rational(self) -> bool:
        return self.approx is None and not self.irr

    def dec(self) -> Decimal:
        if self.approx is not None:
            return self.approx
        v = CTX.divide(Decimal(self.coef.numerator), Decimal(self.coef.denominator))
        for b, e in self.irr.items():
            bd = CONSTS[b] if isinstance(b, str) else CTX.divide(Decimal(b.numerator), Decimal(b.denominator))
            ed = CTX.divide(Decimal(e.numerator), Decimal(e.denominator))
            v = CTX.multiply(v, CTX.power(bd, ed))
        return v

    def __float__(self) -> float:
        return float(self.dec())

    def is_zero(self) -> bool:
        return (self.approx == 0) if self.approx is not None else self.coef == 0

    def sign(self) -> int:
        d = self.dec()
        return (d > 0) - (d < 0)

    def key(self) -> Tuple:
        return (self.coef, tuple(sorted(((str(b), e) for b, e in self.irr.items()))), self.approx)

    def __eq__(self, other: object) -> bool:
        return isinstance(other, Num) and self.key() == other.key()

    def __hash__(self) -> int:
        return hash(self.key())

    # ----------------------------------------------------------- algebra
    def __mul__(self, o: "Num") -> "Num":
        o = Num.of(o)
        if self.approx is not None or o.approx is not None:
            return Num(approx=CTX.multiply(self.dec(), o.dec()))
        irr = dict(self.irr)
        for b, e in o.irr.items():
            irr[b] = irr.get(b, Fraction(0)) + e
        return Num(self.coef * o.coef, irr)

    def inv(self) -> "Num":
        if self.is_zero():
            raise ZeroDivisionError("division by a zero constant in a declaration")
        if self.approx is not None:
            return Num(approx=CTX.divide(Decimal(1), self.approx))
        return Num(1 / self.coef, {b: -e for b, e in self.irr.items()})

    def __truediv__(self, o: "Num") -> "Num":
        return self * Num.of(o).inv()

    def pow(self, e: Fraction) -> "Num":
        e = Fraction(e)
        if self.approx is not None:
            ed = CTX.divide(Decimal(e.numerator), Decimal(e.denominator))
            return Num(approx=CTX.power(self.approx, ed))
        if e.denominator == 1:
            n = int(e)
            if self.coef == 0 and n < 0:
                raise ZeroDivisionError
            return Num(self.coef ** n, {b: x * n for b, x in self.irr.items()})
        if self.coef <= 0:
            raise ValueError("fractional power of a non-positive number")
        irr = {b: x * e for b, x in self.irr.items()}
        irr[self.coef] = irr.get(self.coef, Fraction(0)) + e
        return Num(Fraction(1), irr)

    def __add__(self, o: "Num") -> "Num":
        o = Num.of(o)
        if self.approx is None and o.approx is None:
            if self.coef == 0:
                return o
            if o.coef == 0:
                return self
            if self.irr == o.irr:
                return Num(self.coef + o.coef, dict(self.irr))
        return Num(approx=CTX.add(self.dec(), o.dec()))

    def __neg__(self) -> "Num":
        if self.approx is not None:
            return Num(approx=-self.approx)
        return Num(-self.coef, dict(self.irr))

    def __sub__(self, o: "Num") -> "Num":
        return self + (-Num.of(o))

    def __repr__(self) -> str:
        if self.approx is not None:
            return f"~{self.approx:.12g}"
        s = str(self.coef)
        for b, e in self.irr.items():
            s += f"*{b}^{e}"
        return s


def _exact_root(b: Fraction, q: int) -> Optional[Fraction]:
    def iroot(n: int) -> Optional[int]:
        if n < 0:
            return None
        lo, hi = 0, 1
        while hi ** q <= n:
            hi *= 2
        while lo < hi:
            mid = (lo + hi + 1) // 2
            if mid ** q <= n:
                lo = mid
            else:
                hi = mid - 1
        return lo if lo ** q == n else None
    a, c = iroot(b.numerator), iroot(b.denominator)
    if a is None or c is None:
        return None
    return Fraction(a, c)
