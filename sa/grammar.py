"""E6 - grammar and table tools.

(a) literal extraction of DATA / MEMO / __version__ from the generated parser module,
(b) reference tables built from the grammar file with Lark (used as a tool),
(c) normalisation of both serialisations to a version-independent form,
(d) comparison of terminals, rules, options and LALR automata up to state renaming,
(e) a table-driven LALR driver with a contextual lexer over the extracted tables.
Nothing of the repository is imported or executed.
"""
from __future__ import annotations

import ast
import os
import re
from dataclasses import dataclass, field
from typing import Any, Dict, List, Optional, Set, Tuple

from .core import SRC, AnalysisError, rel

INF_WIDTH = 2 ** 32 - 1


def _lit(node: ast.AST) -> Any:
    if isinstance(node, ast.Constant):
        return node.value
    if isinstance(node, ast.Dict):
        return {_lit(k): _lit(v) for k, v in zip(node.keys, node.values)}  # type: ignore[arg-type]
    if isinstance(node, ast.List):
        return [_lit(x) for x in node.elts]
    if isinstance(node, ast.Tuple):
        return tuple(_lit(x) for x in node.elts)
    if isinstance(node, ast.Set):
        return {_lit(x) for x in node.elts}
    if isinstance(node, ast.UnaryOp) and isinstance(node.op, ast.USub):
        return -_lit(node.operand)
    if isinstance(node, ast.Call) and isinstance(node.func, ast.Name) and node.func.id == "Token" and len(node.args) == 2:
        return _lit(node.args[1])
    if isinstance(node, ast.Name) and node.id in ("True", "False", "None"):
        return {"True": True, "False": False, "None": None}[node.id]
    raise AnalysisError(f"non-literal {type(node).__name__} in the generated parser's tables (line {getattr(node, 'lineno', '?')})")


def _decode_blob(blob: bytes, name: str) -> Any:
    """The compressed table form of the standalone generator, decoded as data: base64 -> zlib -> a pickle that may
    only build builtin containers and scalars (any class reference is refused, nothing of the repository is run)."""
    import base64
    import io
    import pickle
    import zlib

    class _DataOnly(pickle.Unpickler):
        def find_class(self, module: str, qualname: str) -> Any:
            raise AnalysisError(f"the pickled {name} table references {module}.{qualname}: not plain data")
    try:
        raw = zlib.decompress(base64.b64decode(blob, validate=True))
        return _DataOnly(io.BytesIO(raw)).load()
    except AnalysisError:
        raise
    except Exception as e:  # noqa: BLE001
        raise AnalysisError(f"cannot decode the compressed {name} table of the generated parser: {type(e).__name__}: {e}")


@dataclass
class Shipped:
    data: Dict[str, Any]
    memo: Dict[int, Any]
    version: Optional[str]
    assignments: Dict[str, int]
    parser_func_ok: bool
    parser_func_text: str
    tree: ast.Module


def extract_shipped(path: Optional[str] = None) -> Shipped:
    path = path or os.path.join(SRC, "_parser.py")
    if not os.path.exists(path):
        raise AnalysisError(f"{rel(path)} not found")
    with open(path, encoding="utf-8") as fh:
        src = fh.read()
    try:
        tree = ast.parse(src)
    except SyntaxError as e:
        raise AnalysisError(f"cannot parse {rel(path)}: {e}")
    data = memo = None
    version = None
    counts: Dict[str, int] = {}
    ptxt = ""
    pok = False
    for n in ast.walk(tree):
        if isinstance(n, (ast.Assign, ast.AugAssign, ast.AnnAssign)):
            tg = n.targets if isinstance(n, ast.Assign) else [n.target]
            for t in tg:
                for x in ast.walk(t):
                    if isinstance(x, ast.Name) and x.id in ("DATA", "MEMO"):
                        counts[x.id] = counts.get(x.id, 0) + 1
                    if isinstance(x, ast.Subscript) and isinstance(x.value, ast.Name) and x.value.id in ("DATA", "MEMO"):
                        counts[x.value.id] = counts.get(x.value.id, 0) + 1
    blobs: Dict[str, bytes] = {}
    for n in tree.body:
        if isinstance(n, ast.Assign) and len(n.targets) == 1 and isinstance(n.targets[0], ast.Name):
            nm = n.targets[0].id
            if nm in ("DATA", "MEMO") and isinstance(n.value, ast.Constant) and isinstance(n.value.value, bytes):
                # `lark.tools.standalone -c`: NAME = b"<base64>" ; NAME = pickle.loads(zlib.decompress(base64.b64decode(NAME)))
                blobs[nm] = n.value.value
                continue
            if nm in ("DATA", "MEMO") and nm in blobs and ast.unparse(n.value).replace(" ", "") == f"pickle.loads(zlib.decompress(base64.b64decode({nm})))":
                val = _decode_blob(blobs.pop(nm), nm)
                counts[nm] = counts.get(nm, 0) - 1     # the two statements are one definition
                if nm == "DATA":
                    data = val
                else:
                    memo = val
                continue
            if nm == "DATA":
                data = _lit(n.value)
            elif nm == "MEMO":
                memo = _lit(n.value)
            elif nm == "__version__" and isinstance(n.value, ast.Constant):
                version = n.value.value
        if isinstance(n, ast.FunctionDef) and n.name == "Parser":
            ptxt = ast.unparse(n)
            body = [s for s in n.body if not (isinstance(s, ast.Expr) and isinstance(s.value, ast.Constant))]
            if len(body) == 1 and isinstance(body[0], ast.Return) and isinstance(body[0].value, ast.Call):
                c = body[0].value
                pok = (ast.unparse(c.func) == "Lark._load_from_dict" and [ast.unparse(a) for a in c.args] == ["DATA", "MEMO"]
                       and len(c.keywords) == 1 and c.keywords[0].arg is None)
    if data is None or memo is None:
        raise AnalysisError("DATA / MEMO not found in the generated parser module")
    return Shipped(data, memo, version, counts, pok, ptxt, tree)


def build_from_text(text: str, starts: List[str]) -> Tuple[Dict[str, Any], Dict[int, Any]]:
    """Compile a (small, fixed) grammar text with the installed Lark: used for reference terminals."""
    try:
        from lark import Lark
        from lark.grammar import Rule
        from lark.lexer import TerminalDef
    except Exception as e:  # pragma: no cover
        raise AnalysisError(f"lark is not importable: {e}")
    l = Lark(text, parser="lalr", start=starts)
    return l.memo_serialize([TerminalDef, Rule])


def build_reference(grammar_path: Optional[str] = None, starts: Optional[List[str]] = None) -> Tuple[Dict[str, Any], Dict[int, Any], str]:
    grammar_path = grammar_path or os.path.join(SRC, "measured.lark")
    if not os.path.exists(grammar_path):
        raise AnalysisError(f"{rel(grammar_path)} not found")
    try:
        import lark
        from lark import Lark
        from lark.grammar import Rule
        from lark.lexer import TerminalDef
    except Exception as e:  # pragma: no cover
        raise AnalysisError(f"lark is not importable: {e}")
    with open(grammar_path, encoding="utf-8") as fh:
        text = fh.read()
    try:
        l = Lark(text, parser="lalr", start=starts or ["unit", "quantity"])
    except Exception as e:
        raise AnalysisError(f"the grammar file does not compile with Lark: {type(e).__name__}: {str(e)[:200]}")
    data, memo = l.memo_serialize([TerminalDef, Rule])
    return data, memo, lark.__version__


# ---------------------------------------------------------------- normal form
@dataclass
class Tables:
    terminals: Dict[str, Tuple]          # name -> (type, value, flags, priority, minw, maxw)
    ignore: Tuple[str, ...]
    lexer: Tuple                          # (g_regex_flags, use_bytes, lexer_type)
    rules: List[Tuple]                    # canonical rule tuples in serialised order
    start: Tuple[str, ...]
    parser_type: str
    states: Dict[int, Dict[str, Tuple[str, Any]]]   # state -> token -> ('shift', state) | ('reduce', rule tuple)
    start_states: Dict[str, int]
    end_states: Dict[str, int]
    options: Dict[str, Any]
    skipped_fields: List[str] = field(default_factory=list)


def _deref(x: Any, memo: Dict[int, Any]) -> Any:
    if isinstance(x, dict) and set(x.keys()) == {"@"}:
        return memo[x["@"]]
    return x


def _sym(s: Dict[str, Any]) -> Tuple:
    return (s["name"], s["__type__"], bool(s.get("filter_out", False)))


def _rule(r: Dict[str, Any]) -> Tuple:
    o = r.get("options") or {}
    return (
        r["origin"]["name"],
        tuple(_sym(s) for s in r["expansion"]),
        r.get("alias"),
        r.get("order", 0),
        (bool(o.get("keep_all_tokens", False)), bool(o.get("expand1", False)), o.get("priority"),
         tuple(o.get("empty_indices", ()) or ())),
    )


def _helper_renaming(rules: List[Tuple]) -> Dict[str, str]:
    """Canonical names for generated helper nonterminals (`__x_plus_0`, ...): by the
    structure of their rules, so a regeneration that numbers them differently compares equal."""
    import hashlib
    helpers = sorted({r[0] for r in rules if r[0].startswith("__")})
    bodies: Dict[str, List[Tuple]] = {h: [r for r in rules if r[0] == h] for h in helpers}
    sig: Dict[str, str] = {}

    def signature(h: str, stack: Tuple[str, ...]) -> str:
        if h in sig:
            return sig[h]
        if h in stack:
            return "REC"
        parts = []
        for r in bodies[h]:
            syms = []
            for name, typ, flt in r[1]:
                if name == h:
                    syms.append("SELF")
                elif name in bodies:
                    syms.append("H:" + signature(name, stack + (h,)))
                else:
                    syms.append(f"{name}/{typ}/{flt}")
            parts.append((tuple(syms), r[2], r[4]))
        sgn = hashlib.sha1(repr(sorted(parts, key=repr)).encode()).hexdigest()[:10]
        if "REC" not in repr(parts):
            sig[h] = sgn
        return sgn
    out = {}
    for h in helpers:
        out[h] = "__h_" + signature(h, ())
    # helpers with identical structure keep distinct names deterministically
    seen: Dict[str, int] = {}
    for h in helpers:
        n = seen.get(out[h], 0)
        seen[out[h]] = n + 1
        if n:
            out[h] = f"{out[h]}_{n}"
    return out


def _rename_rule(r: Tuple, ren: Dict[str, str]) -> Tuple:
    return (ren.get(r[0], r[0]), tuple((ren.get(n, n), t, f) for n, t, f in r[1]), r[2], r[3] if not r[0].startswith("__") else 0, r[4])


def normalise(data: Dict[str, Any], memo: Dict[int, Any]) -> Tables:
    p = data["parser"]
    lc, pc, pt = p["lexer_conf"], p["parser_conf"], p["parser"]
    terms: Dict[str, Tuple] = {}
    for t in lc["terminals"]:
        t = _deref(t, memo)
        pat = t["pattern"]
        w = pat.get("_width") or [None, None]
        maxw = None if w[1] is None else (INF_WIDTH if w[1] >= INF_WIDTH else w[1])
        terms[t["name"]] = (pat["__type__"], pat["value"], tuple(sorted(pat.get("flags", []))), t.get("priority", 0), w[0], maxw)
    rules = [_rule(_deref(r, memo)) for r in pc["rules"]]
    tokens = pt["tokens"]
    states: Dict[int, Dict[str, Tuple[str, Any]]] = {}
    for st, acts in pt["states"].items():
        row: Dict[str, Tuple[str, Any]] = {}
        for tok, (act, arg) in acts.items():
            name = tokens[tok]
            if act == 0:
                row[name] = ("shift", arg)
            else:
                row[name] = ("reduce", _rule(_deref(arg, memo)))
        states[st] = row
    ren = _helper_renaming(rules)
    if ren:
        rules = [_rename_rule(r, ren) for r in rules]
        states = {st: {ren.get(tok, tok): ((k, v) if k == "shift" else (k, _rename_rule(v, ren))) for tok, (k, v) in row.items()}
                  for st, row in states.items()}
    opts = data.get("options", {})
    keep = {k: opts.get(k) for k in ("parser", "lexer", "start", "keep_all_tokens", "maybe_placeholders", "propagate_positions",
                                     "priority", "ambiguity", "regex", "g_regex_flags", "use_bytes", "postlex", "tree_class")}
    skipped = sorted(k for k in opts if k not in keep)
    return Tables(terms, tuple(lc.get("ignore", [])), (lc.get("g_regex_flags", 0), lc.get("use_bytes", False), lc.get("lexer_type")),
                  rules, tuple(pc.get("start", [])), pc.get("parser_type", ""), states, dict(pt["start_states"]),
                  dict(pt["end_states"]), keep, skipped)


def isomorphism(a: Tables, b: Tables) -> Tuple[bool, List[str], Dict[int, int]]:
    """BFS from the start states; returns (ok, differences, mapping a-state -> b-state)."""
    diffs: List[str] = []
    mapping: Dict[int, int] = {}
    work: List[Tuple[int, int]] = []
    if set(a.start_states) != set(b.start_states):
        return False, [f"start symbols differ: {sorted(a.start_states)} vs {sorted(b.start_states)}"], {}
    for s in a.start_states:
        work.append((a.start_states[s], b.start_states[s]))
    while work:
        x, y = work.pop()
        if x in mapping:
            if mapping[x] != y:
                diffs.append(f"state {x} of the grammar's automaton corresponds to both {mapping[x]} and {y} of the shipped one")
            continue
        mapping[x] = y
        ra, rb = a.states.get(x), b.states.get(y)
        if ra is None or rb is None:
            diffs.append(f"missing state ({x} / {y})")
            continue
        if set(ra) != set(rb):
            only_a, only_b = sorted(set(ra) - set(rb)), sorted(set(rb) - set(ra))
            diffs.append(f"state {x}~{y}: lookahead sets differ (grammar-only {only_a}, shipped-only {only_b})")
        for tok in set(ra) & set(rb):
            (ka, va), (kb, vb) = ra[tok], rb[tok]
            if ka != kb:
                diffs.append(f"state {x}~{y} on {tok}: {ka} vs {kb}")
            elif ka == "shift":
                work.append((va, vb))
            elif va != vb:
                diffs.append(f"state {x}~{y} on {tok}: reduces by {va[0]} -> {[s[0] for s in va[1]]} vs {vb[0]} -> {[s[0] for s in vb[1]]}")
    if len(set(mapping.values())) != len(mapping):
        diffs.append("state correspondence is not injective")
    for s in a.end_states:
        if s in b.end_states and mapping.get(a.end_states[s]) != b.end_states[s]:
            diffs.append(f"end state of {s} differs")
    unreached_b = set(b.states) - set(mapping.values())
    if unreached_b and not diffs:
        diffs.append(f"shipped automaton has {len(unreached_b)} states not reachable in the grammar's automaton")
    return not diffs, diffs, mapping


# -------------------------------------------------------------------- driver
class Driver:
    """Contextual lexer + LALR driver over normalised tables (language membership only)."""

    def __init__(self, t: Tables) -> None:
        self.t = t
        self.rx: Dict[str, Any] = {}
        for name, (ptype, value, flags, prio, minw, maxw) in t.terminals.items():
            pat = value if ptype == "PatternRE" else re.escape(value)
            fl = 0
            for f in flags:
                fl |= {"i": re.I, "m": re.M, "s": re.S, "x": re.X, "u": re.U, "l": re.L}.get(f, 0)
            self.rx[name] = re.compile(pat, fl | t.lexer[0])
        self.order = sorted(t.terminals, key=lambda n: (-t.terminals[n][3], -(t.terminals[n][5] or 0), -len(t.terminals[n][1]), n))

    def parse(self, text: str, start: str) -> Tuple[bool, str]:
        ok, msg, _ = self.parse_at(text, start)
        return ok, msg

    def parse_at(self, text: str, start: str) -> Tuple[bool, str, int]:
        """-> (accepted, message, position of the failure or -1)"""
        t = self.t
        if start not in t.start_states:
            return False, f"no start state for {start}", 0
        stack = [t.start_states[start]]
        pos = 0
        n = len(text)
        guard = 0
        while True:
            guard += 1
            if guard > 100000:
                return False, "driver did not terminate", pos
            state = stack[-1]
            row = t.states[state]
            # next token under the contextual lexer
            tok = None
            while True:
                if pos >= n:
                    tok = "$END"
                    break
                accepts = set(row) | set(t.ignore)
                m_name, m_end = None, None
                for name in self.order:
                    if name not in accepts:
                        continue
                    m = self.rx[name].match(text, pos)
                    if m and m.end() > pos:
                        m_name, m_end = name, m.end()
                        break
                if m_name is None:
                    return False, f"no terminal matches at {pos} ({text[pos:pos + 10]!r}) in state {state}", pos
                pos_new = m_end
                if m_name in t.ignore:
                    pos = pos_new
                    continue
                tok = m_name
                tok_end = pos_new
                break
            act = row.get(tok)
            if act is None:
                return False, f"unexpected {tok} at {pos} in state {state}", pos
            if act[0] == "shift":
                if tok == "$END":
                    return True, "accepted", -1
                stack.append(act[1])
                pos = tok_end
                continue
            rule = act[1]
            k = len(rule[1])
            if k:
                del stack[-k:]
            goto = t.states[stack[-1]].get(rule[0])
            if rule[0] == start and tok == "$END" and stack[-1] == t.start_states[start]:
                # reduction to the start symbol on $END
                if goto is None:
                    return True, "accepted", -1
            if goto is None or goto[0] != "shift":
                return False, f"no goto for {rule[0]} in state {stack[-1]}", pos
            stack.append(goto[1])
            if stack[-1] == t.end_states.get(start) and tok == "$END":
                return True, "accepted", -1
