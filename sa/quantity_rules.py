"""Quantity-layer rules shared by C03 and C06 (E4 tier A + tier B)."""
from __future__ import annotations

import ast
from typing import Any, Dict, List, Optional, Set, Tuple

from .absint import (ren_rat, AV, BoolV, GroupV, IntParam, LevelV, NotImpl, NumV, OpaqueV, Outcome, QuantV, UnitV,
                     Unsupported)
from .algebra import describe, path_alternatives
from .calls import Resolver
from .core import AnalysisError, Report, rel
from .e4util import Run, default_arg_sets, quant_atom, run_function
from .model import Program
from .inline import expand_expr
from .poly import Lin, Poly, Rat

LAYERS = ("dimension", "prefix", "unit", "quantity")

# operator -> (kind, expected unit-component combiner)
OPS = {
    "Quantity.__add__": "add", "Quantity.__sub__": "sub", "Quantity.__mul__": "mul",
    "Quantity.__truediv__": "div", "Quantity.__rtruediv__": "rdiv", "Quantity.__pow__": "pow",
    "Quantity.root": "root", "Quantity.__neg__": "neg", "Quantity.__pos__": "pos", "Quantity.__abs__": "abs",
}


# every other arithmetic hook the data model knows: an operator the class grows later is decided by its
# family (R03.8) - additive ones need the right operand itself gated into the left one's unit
_ARITH = ("add", "sub", "mul", "truediv", "floordiv", "mod", "divmod", "pow", "matmul", "and", "or", "xor", "lshift", "rshift")
ARITH_HOOKS = {f"__{p}{n}__" for n in _ARITH for p in ("", "r", "i")} | {
    "__neg__", "__pos__", "__abs__", "__invert__", "__round__", "__floor__", "__ceil__", "__trunc__"}
# hook -> family: "additive" (result in the left operand's dimension, right operand gated), "quotient", "same"
EXTRA_FAMILY = {
    "__mod__": "additive", "__imod__": "additive", "__iadd__": "additive", "__isub__": "additive",
    "__radd__": "additive", "__rsub__": "additive", "__rmod__": "additive",
    "__floordiv__": "quotient", "__ifloordiv__": "quotient", "__itruediv__": "quotient",
    "__imul__": "product", "__divmod__": "divmod",
    "__round__": "same", "__floor__": "same", "__ceil__": "same", "__trunc__": "same",
}
COMMUTATIVE = {"add", "mul"}


def val(v: AV) -> Optional[Rat]:
    if isinstance(v, QuantV):
        return v.value()
    if isinstance(v, UnitV):
        return v.value()
    if isinstance(v, NumV):
        return v.rat
    if isinstance(v, IntParam):
        return Rat(Poly.from_lin(v.lin))
    return None


def dim_of(v: AV) -> Optional[GroupV]:
    if isinstance(v, QuantV):
        return v.unit.d
    if isinstance(v, UnitV):
        return v.d
    if isinstance(v, (NumV, IntParam)):
        return GroupV("D", ())
    return None


def expected(kind: str, run: Run, me: QuantV, other: Optional[AV], o: Outcome) -> Tuple[Optional[Rat], Optional[GroupV], str]:
    """-> (physical value, dimension, description) the operator must produce."""
    vs = me.value()
    vo = val(other) if other is not None else None
    do = dim_of(other) if other is not None else None
    if kind == "add" and vo is not None:
        return vs + vo, me.unit.d, "val(self) + val(other)"
    if kind == "sub" and vo is not None:
        return vs - vo, me.unit.d, "val(self) - val(other)"
    if kind == "mul" and vo is not None and do is not None:
        return vs * vo, me.unit.d.mul(do), "val(self) * val(other)"
    if kind == "div" and vo is not None and do is not None:
        return vs / vo, me.unit.d.mul(do, -1), "val(self) / val(other)"
    if kind == "rdiv" and vo is not None and do is not None:
        return vo / vs, do.mul(me.unit.d, -1), "val(other) / val(self)"
    if kind == "pow" and isinstance(other, IntParam):
        p = vs.pow_lin(other.lin)
        return p, me.unit.d.pow(other.lin), "val(self) ** power"
    if kind == "root" and isinstance(other, IntParam):
        inv = run.interp.inverse_param(other.lin)
        if inv is None:
            return None, None, ""
        return vs.pow_lin(inv), me.unit.d.pow(inv), "val(self) ** (1/degree)"
    if kind == "neg":
        return -vs, me.unit.d, "-val(self)"
    if kind == "pos":
        return vs, me.unit.d, "val(self)"
    if kind == "abs":
        return run.interp.heads.abs(me.mag.rat) * me.unit.value(), me.unit.d, "|val(self)|"
    return None, None, ""


def check_operators(rep: Report, prog: Program, resolver: Resolver, rid_value: str, rid_kind: Optional[str],
                    rid_left: Optional[str], only: Optional[List[str]] = None, rid_dim: Optional[str] = None) -> int:
    n_ret = 0
    for qual, kind in OPS.items():
        if only is not None and kind not in only:
            continue
        fi = prog.func(qual)
        for args in default_arg_sets(prog, resolver, qual, "unit"):
            me = args["self"]
            assert isinstance(me, QuantV)
            others = [v for k, v in args.items() if k != "self"]
            other = others[0] if others else None
            try:
                run = run_function(prog, resolver, qual, LAYERS, args)
            except Unsupported as e:
                raise AnalysisError(f"{qual}: {e}")
            arm = type(other).__name__ if other is not None else ""
            for o in run.outcomes:
                if o.kind != "return":
                    continue
                key = f"{qual}[{arm}]" + ("|" + "&".join(("" if v else "not ") + t for t, v in o.path) if o.path else "")
                got = o.value
                if isinstance(got, NotImpl):
                    if rid_kind:
                        rep.ok(rid_kind, key, note="NotImplemented")
                    continue
                n_ret += 1
                if rid_kind:
                    rep.check(rid_kind, key, isinstance(got, QuantV),
                              f"{qual} returns {describe(got)} ({getattr(got, 'why', '')}): an operator on quantities must "
                              "return a Quantity or NotImplemented, never a bare number", fi.where(o.node))
                if not isinstance(got, QuantV):
                    if not rid_kind:
                        raise AnalysisError(f"{qual}[{arm}] returns {describe(got)} ({getattr(got, 'why', '')})")
                    continue
                # the degree == 0 arm of root is the documented special case 1 One
                zero_arm = any(k == "param" and v == 0 for subs in path_alternatives(o.path) for k, _, v in subs)
                if kind == "root" and zero_arm:
                    ok = got.value() == Rat.const(1) and not got.unit.f.mono
                    rep.check(rid_value, key, ok, f"root(0) returns {describe(got)}, expected 1 One", fi.where(o.node))
                    continue
                want, wdim, text = expected(kind, run, me, other, o)
                if want is None:
                    raise AnalysisError(f"{qual}[{arm}]: no specification for this operand kind")
                want = ren_rat(want, o.ren)
                rep.check(rid_value, key, got.value() == want,
                          f"physical value of the result is {got.value()!r}; dimensional analysis requires {text} = {want!r}",
                          fi.where(o.node), note=repr(got.value()))
                if rid_dim and wdim is not None:
                    rep.check(rid_dim, key, got.unit.d.mono == wdim.mono,
                              f"dimension component of the result is {got.unit.d.mono}, expected {wdim.mono}", fi.where(o.node))
                if rid_left and kind in ("add", "sub"):
                    rep.check(rid_left, key, got.unit.same(me.unit),
                              f"{qual} returns a quantity in {describe(got.unit)}; addition and subtraction keep the left "
                              "operand's unit", fi.where(o.node))
                    convs = [e for e in run.events if e.kind == "in_unit"]
                    okc = bool(convs) and all(isinstance(e.data["q"], QuantV) and isinstance(other, QuantV)
                                              and e.data["q"].mag.rat == other.mag.rat and e.data["q"].unit.same(other.unit)
                                              and e.data["unit"].same(me.unit) for e in convs)
                    rep.check(rid_left, key + ":conversion", okc,
                              "the right operand itself must be converted into the left operand's unit before the "
                              "magnitudes meet (a transformed operand does not commute with affine scales)", fi.where(o.node))
                    adds = [e for e in run.events if e.kind == "add"]
                    rep.check(rid_left, key + ":homogeneous", bool(adds) and all(e.data["homogeneous"] for e in adds),
                              "magnitudes expressed in different units are added", fi.where(o.node))
    return n_ret


def _gated(run: Run, o: Outcome, me: QuantV, other: QuantV) -> bool:
    """the right operand itself was taken through the dimension gate (converted into the left operand's unit,
    or the other way round), or the path tests the two dimensions against each other"""
    for e in run.events:
        if e.kind != "in_unit" or getattr(e, "plan", None) not in (None, getattr(o, "plan", None)):
            continue
        q, u = e.data["q"], e.data["unit"]
        if isinstance(q, QuantV) and isinstance(u, UnitV):
            if q.unit.same(other.unit) and u.d.mono == me.unit.d.mono:
                return True
            if q.unit.same(me.unit) and u.d.mono == other.unit.d.mono:
                return True
    return any("dimension" in t for t, _ in o.path)


def check_extra_operators(rep: Report, prog: Program, resolver: Resolver, rid: str) -> int:
    """R03.8: every arithmetic hook of Quantity beyond the specified ones follows its family's dimensional rule."""
    ci = next((c for c in prog.classes.values() if c.name == "Quantity" and c.module == ""), None)
    if ci is None:
        raise AnalysisError("class Quantity not found")
    n = 0
    for attr, rhs in sorted(ci.aliases.items()):
        if attr not in ARITH_HOOKS:
            continue
        n += 1
        base = attr[3:-2] if attr.startswith("__r") else None
        tgt = rhs.id if isinstance(rhs, ast.Name) else ast.unparse(rhs)
        ok = base in COMMUTATIVE and tgt == f"__{base}__"
        rep.check(rid, f"Quantity.{attr} = {tgt}", ok,
                  f"Quantity.{attr} is an alias of {tgt}: only the reflected form of a commutative operator may share "
                  "the implementation of the direct one", rel(ci.path) + f":{rhs.lineno}")
    for attr, qual in sorted(ci.methods.items()):
        if attr not in ARITH_HOOKS or qual in OPS:
            continue
        n += 1
        fi = prog.func(qual)
        fam = EXTRA_FAMILY.get(attr)
        if fam is None:
            raise AnalysisError(f"{qual}: no dimensional specification for this operator (R03.8 knows the additive, "
                                "quotient, product and rounding families)")
        for args in default_arg_sets(prog, resolver, qual, "unit"):
            me = args["self"]
            others = [v for k, v in args.items() if k != "self"]
            other = others[0] if others else None
            try:
                run = run_function(prog, resolver, qual, LAYERS, args)
            except Unsupported as e:
                raise AnalysisError(f"{qual}: {e}")
            arm = type(other).__name__ if other is not None else ""
            for o in run.outcomes:
                if o.kind != "return" or isinstance(o.value, NotImpl):
                    continue
                key = f"{qual}[{arm}]" + ("|" + "&".join(("" if v else "not ") + t for t, v in o.path) if o.path else "")
                parts: List[Tuple[str, AV]] = [(fam, o.value)]
                if fam == "divmod":
                    from .absint import TupleV
                    if not isinstance(o.value, TupleV) or len(o.value.items) != 2:
                        rep.fail(rid, key, f"{qual} returns {describe(o.value)}, expected (quotient, remainder)", fi.where(o.node))
                        continue
                    parts = [("quotient", o.value.items[0]), ("additive", o.value.items[1])]
                for f_, got in parts:
                    k2 = key + (f":{f_}" if fam == "divmod" else "")
                    if not isinstance(got, QuantV):
                        rep.fail(rid, k2, f"{qual} returns {describe(got)} ({getattr(got, 'why', '')}): an operator on quantities "
                                 "returns a Quantity or NotImplemented", fi.where(o.node))
                        continue
                    do = dim_of(other) if other is not None else None
                    if f_ in ("additive", "same"):
                        want = me.unit.d
                    elif f_ == "quotient" and do is not None:
                        want = me.unit.d.mul(do, -1)
                    elif f_ == "product" and do is not None:
                        want = me.unit.d.mul(do)
                    else:
                        raise AnalysisError(f"{qual}[{arm}]: no specification for this operand kind")
                    ok = got.unit.d.mono == want.mono
                    why = f"dimension component of the result is {got.unit.d.mono}, expected {want.mono}"
                    if ok and f_ == "additive" and isinstance(other, QuantV):
                        ok = _gated(run, o, me, other)
                        why = (f"{qual} combines the two operands additively without taking the right operand through the "
                               "dimension gate: no conversion of `other` itself into the left operand's unit (and no test of "
                               "the two dimensions) precedes this return, so incommensurable operands yield a quantity "
                               "instead of raising")
                    rep.check(rid, k2, ok, why, fi.where(o.node))
    return n


def check_unit_with_quantity(rep: Report, prog: Program, resolver: Resolver, rid: str) -> int:
    """R03.9: where a Unit operator itself accepts a Quantity or a number (instead of leaving it to the reflected operator of
    Quantity), what it returns is the quantity dimensional analysis asks for: value val(self) x / : val(other), dimension the
    product / quotient."""
    n = 0
    for attr, kind in (("__mul__", "mul"), ("__truediv__", "div"), ("__rmul__", "mul"), ("__rtruediv__", "rdiv")):
        qual = f"Unit.{attr}"
        if qual not in prog.functions:
            continue
        fi = prog.func(qual)
        for args in default_arg_sets(prog, resolver, qual, "unit"):
            me = args.get("self")
            others = [v for k, v in args.items() if k != "self"]
            other = others[0] if others else None
            if not isinstance(me, UnitV) or not isinstance(other, (QuantV, NumV)):
                continue
            try:
                run = run_function(prog, resolver, qual, LAYERS, args)
            except Unsupported as e:
                rep.defer(AnalysisError(f"{qual}: {e}"))
                continue
            vo, do = val(other), dim_of(other)
            for o in run.outcomes:
                if o.kind != "return" or isinstance(o.value, NotImpl):
                    continue
                got = o.value
                key = f"{qual}[{type(other).__name__}]" + ("|" + "&".join(("" if v else "not ") + t for t, v in o.path) if o.path else "")
                if not isinstance(got, QuantV):
                    rep.defer(AnalysisError(f"{key} returns {describe(got)}: outside the interpreted subset"))
                    continue
                n += 1
                vs = me.value()
                want = {"mul": vs * vo, "div": vs / vo, "rdiv": vo / vs}[kind]          # type: ignore[operator]
                wdim = {"mul": me.d.mul(do), "div": me.d.mul(do, -1), "rdiv": do.mul(me.d, -1)}[kind]   # type: ignore[union-attr,arg-type]
                rep.check(rid, key, got.value() == ren_rat(want, o.ren) and got.unit.d.mono == wdim.mono,
                          f"{qual} with a {'quantity' if isinstance(other, QuantV) else 'number'} returns a quantity worth {got.value()!r} of dimension "
                          f"{got.unit.d.mono}; dimensional analysis requires {want!r} and {wdim.mono}", fi.where(o.node))
    return n


def check_swallowed_conversion_errors(rep: Report, prog: Program, resolver: Resolver, rid: str) -> int:
    """R03.11: ConversionNotFound is a ValueError.  A handler for ValueError / Exception / everything around a conversion
    (`in_unit`, `convert`, or a function that calls one) that ends in an ordinary value turns "these are incommensurable" into a
    result.  Handlers that name ConversionNotFound itself are the comparison protocol (R07.3, R03.3) and are not this rule's."""
    broad = {"ValueError", "Exception", "BaseException", "ArithmeticError", "<bare>"}

    def converts(fn_node: ast.AST, fi_: Any, depth: int = 0) -> bool:
        for c in ast.walk(fn_node):
            if isinstance(c, ast.Call):
                nm = c.func.attr if isinstance(c.func, ast.Attribute) else getattr(c.func, "id", "")
                if nm in ("in_unit", "convert"):
                    return True
        if depth < 1 and fi_ is not None:
            for cs in resolver.callsites(fi_.qual):
                if any(cs.node is x for x in ast.walk(fn_node)):
                    for t in cs.targets:
                        tf = prog.functions[t]
                        if tf.module not in ("hypothesis", "pytest", "_parser") and converts(tf.node, None, depth + 1):
                            return True
        return False
    n = 0
    for q, fi in sorted(prog.functions.items()):
        if fi.module in ("hypothesis", "pytest", "_parser", "cli"):
            continue
        for t in Resolver._own_nodes(fi.node):
            if not isinstance(t, ast.Try):
                continue
            body = ast.Module(body=t.body, type_ignores=[])
            if not converts(body, fi):
                continue
            for h in t.handlers:
                names = ["<bare>"] if h.type is None else [ast.unparse(x).split(".")[-1] for x in (h.type.elts if isinstance(h.type, ast.Tuple) else [h.type])]
                hit = [x for x in names if x in broad]
                if not hit:
                    continue
                n += 1
                reraises = any(isinstance(x, ast.Raise) for st in h.body for x in ast.walk(st))
                rep.check(rid, f"{q}:except {hit[0]}", reraises,
                          f"{q} catches {hit[0]} around a conversion and carries on: ConversionNotFound is a ValueError, so converting a quantity of "
                          "another dimension no longer raises - the operation yields a value", fi.where(h))
    return n


def check_float_only_calls(rep: Report, prog: Program, rid: str) -> int:
    """R03.12: the functions of `math` (and `cmath`, `statistics`) take a Decimal through __float__ and hand back a float.
    A Quantity method that passes (something derived from) its magnitude to one of them without a Decimal branch of its own
    returns a float magnitude for a Decimal operand."""
    n = 0
    ci = next((c for c in prog.classes.values() if c.name == "Quantity" and c.module == ""), None)
    if ci is None:
        return 0
    for attr, q in sorted(ci.methods.items()):
        fi = prog.func(q)
        mags = {"magnitude"}
        for st in ast.walk(fi.node):
            if isinstance(st, ast.Assign) and len(st.targets) == 1 and isinstance(st.targets[0], ast.Name) \
                    and any(isinstance(x, ast.Attribute) and x.attr == "magnitude" for x in ast.walk(st.value)):
                mags.add(st.targets[0].id)
        guarded = any(isinstance(c, ast.Call) and isinstance(c.func, ast.Name) and c.func.id == "isinstance" and len(c.args) == 2
                      and "Decimal" in ast.unparse(c.args[1]) for c in ast.walk(fi.node))
        mi = prog.modules[fi.module]
        for c in ast.walk(fi.node):
            lib = isinstance(c, ast.Call) and isinstance(c.func, ast.Attribute) and isinstance(c.func.value, ast.Name) \
                and c.func.value.id in ("math", "cmath", "statistics") and c.func.attr not in ("isfinite", "isnan", "isinf", "isclose")
            # ... or a name imported from math, or from the package's compat shims (`from .compat import cbrt`), which stand in for math
            if not lib and isinstance(c, ast.Call) and isinstance(c.func, ast.Name) and c.func.id in mi.imports:
                src_mod = str(mi.imports[c.func.id][0])
                lib = src_mod.endswith("math") or src_mod.endswith("compat")
                if lib and src_mod.endswith("compat") and "compat" in prog.modules:
                    lib = "Decimal" not in prog.modules["compat"].source
            if not lib:
                continue
            uses = any((isinstance(x, ast.Attribute) and x.attr == "magnitude") or (isinstance(x, ast.Name) and x.id in mags) for a in c.args for x in ast.walk(a))
            if not uses:
                continue
            n += 1
            rep.check(rid, f"{q}:{ast.unparse(c.func)}", guarded,
                      f"{q} passes its magnitude to {ast.unparse(c.func)} with no Decimal branch: a Decimal magnitude goes through float() and the result "
                      "is a float (the magnitude of a result must be a Decimal whenever an operand's is)", fi.where(c))
    return n


NUMBER_HOOKS = ("__float__", "__int__", "__index__", "__complex__", "__bool__")


def check_number_hooks(rep: Report, prog: Program, rid: str) -> int:
    """R03.10: `float(q)`, `int(q)`, `math.sqrt(q)` turn a quantity into a bare number; that is dimensional analysis only
    for a dimensionless quantity.  The guard of such a hook is partially evaluated (the SignProbe of C05) on a dimensionless
    vector and on two that are not - one whose exponents happen to sum to zero: it must raise on both of those."""
    from .props.c05 import RAISED, SignProbe, _NoVerdict
    n = 0
    for cname in ("Quantity", "Level", "Measurement"):
        ci = next((c for c in prog.classes.values() if c.name == cname and c.module == ""), None)
        if ci is None:
            continue
        for hook in NUMBER_HOOKS:
            q = ci.methods.get(hook)
            if q is None or hook == "__bool__":
                continue
            fi = prog.func(q)
            helpers = {nm: prog.functions[qq].node for nm, qq in prog.modules[""].functions.items() if qq in prog.functions}
            for label, exps, must_raise in (("a dimensionless quantity", (0, 0, 0, 0), False), ("a length", (0, 1, 0, 0), True),
                                            ("a speed (exponents +1 and -1)", (0, 1, -1, 0), True), ("a force (L M T^-2)", (0, 1, -2, 1), True)):
                n += 1
                sp = SignProbe(helpers, exps)  # type: ignore[arg-type]
                try:
                    done, value = sp.block(fi.node.body, {}, 0, record=False)  # type: ignore[attr-defined]
                except _NoVerdict as ex:
                    # the guard's outcome is what matters: anything after it (the conversion itself) need not be evaluable
                    done, value = True, f"<returns: {ex}>"
                raised = done and value == RAISED
                if must_raise:
                    rep.check(rid, f"{q}:{label.split(' (')[0]}", raised,
                              f"{q} hands back a bare number for {label}: its guard lets a quantity that still has a dimension through "
                              "(an operation on quantities must never yield a number)", fi.where())
                else:
                    rep.ok(rid, f"{q}:{label}", note="raises" if raised else "returns a number")
    return n


def comparison_runs(prog: Program, resolver: Resolver, qual: str) -> List[Tuple[str, Run, QuantV, AV]]:
    out = []
    me = quant_atom("self")
    for label, other in (("Quantity", quant_atom("other")),):
        try:
            run = run_function(prog, resolver, qual, LAYERS, {"self": me, "other": other})
        except Unsupported as e:
            raise AnalysisError(f"{qual}: {e}")
        out.append((label, run, me, other))
    return out


def check_comparisons(rep: Report, prog: Program, resolver: Resolver, rid: str) -> None:
    """R06.2: __eq__/__lt__ compare the physical values of both operands: magnitudes are
    compared only when expressed in one unit, and each is the operand's own value."""
    for qual in ("Quantity.__eq__", "Quantity.__lt__"):
        fi = prog.func(qual)
        for label, run, me, other in comparison_runs(prog, resolver, qual):
            assert isinstance(other, QuantV)
            cmps = [e for e in run.events if e.kind == "cmp" and e.data.get("func") == qual]
            n = 0
            for e in cmps:
                a, b = e.data["left"], e.data["right"]
                mv, ov = ren_rat(me.value(), e.ren), ren_rat(other.value(), e.ren)
                key = f"{qual}:{ast.unparse(e.node)[:60]}"
                if isinstance(a, NumV) and isinstance(b, NumV):
                    if a.ut is None and b.ut is None:
                        continue
                    n += 1
                    ua, ub = a.unit_type(), b.unit_type()
                    homog = ua.same(ub) or _guarded_same_unit(e)
                    va, vb = a.rat * ua.value(), b.rat * ub.value()
                    phys = (va == mv and vb == ov) or (va == ov and vb == mv)
                    rep.check(rid, key, homog and phys,
                              ("magnitudes in different units are compared" if not homog else
                               f"the compared magnitudes denote {va!r} and {vb!r}, not the operands' physical values "
                               f"{me.value()!r} and {other.value()!r} (a raw magnitude is compared after normalising only the units)"),
                              fi.where(e.node))
                elif isinstance(a, QuantV) and isinstance(b, QuantV):
                    n += 1
                    phys = (a.value() == mv and b.value() == ov) or (a.value() == ov and b.value() == mv)
                    rep.check(rid, key, phys,
                              f"the recursive comparison is between {a.value()!r} and {b.value()!r}, not the operands' "
                              "physical values", fi.where(e.node))
            if n < 2:
                # fewer magnitude comparisons than the two arms need: the verdict rule below says what is returned instead
                rep.defer(AnalysisError(f"{qual}: expected a same-unit magnitude comparison and a converted comparison, found {n}"))
            # the verdict itself: every boolean the method returns for two quantities of one dimension is the
            # result of one of those exact comparisons - not a constant, a tolerance test or anything else
            cmp_texts = {ast.unparse(e.node) for e in cmps}
            for o in run.outcomes:
                if o.kind != "return" or isinstance(o.value, NotImpl):
                    continue
                v = o.value
                cond = " and ".join(("" if t else "not ") + f"({x})" for x, t in o.path[-3:])
                key = f"{qual}:return[{cond[:70]}]"
                if isinstance(v, BoolV) and isinstance(v.cond, tuple) and v.cond[0] == "cmp":
                    rep.ok(rid, key)
                    continue
                if isinstance(v, BoolV) and v.value is not None and any(x in cmp_texts for x, _ in o.path):
                    # `if a == b: return True` - a constant under the path condition of the exact comparison
                    rep.ok(rid, key)
                    continue
                what = f"the constant {v.value}" if isinstance(v, BoolV) and v.value is not None else "a value that is not the result of comparing the two magnitudes"
                rep.fail(rid, key, f"{qual} returns {what} when {cond or 'always'}: the verdict for two quantities of one dimension must be "
                         "the exact comparison of their values in one unit (a shortcut or a tolerance makes it depend on the units "
                         "the operands are written in, and breaks trichotomy with <)", fi.where(o.node) if getattr(o, "node", None) is not None else fi.where())


def _guarded_same_unit(e: Any) -> bool:
    """`a.magnitude OP b.magnitude` under a true path condition `a.unit == b.unit`."""
    node = e.node
    if not (isinstance(node, ast.Compare) and len(node.ops) == 1):
        return False
    l, r = node.left, node.comparators[0]
    if not (isinstance(l, ast.Attribute) and isinstance(r, ast.Attribute) and l.attr == r.attr == "magnitude"):
        return False
    a, b = ast.unparse(l.value), ast.unparse(r.value)
    want = {f"{a}.unit=={b}.unit", f"{b}.unit=={a}.unit", f"{a}.unitis{b}.unit", f"{b}.unitis{a}.unit"}
    return any(truth and text.replace(" ", "") in want for text, truth in e.path)


# ----------------------------------------------------------------- R03.2 helpers
HELPER_OPS = {"_add": ast.Add, "_sub": ast.Sub, "_mul": ast.Mult, "_div": ast.Div, "_pow": ast.Pow}


def _expand_predicate(prog: Program, fi: Any, test: ast.AST) -> ast.AST:
    """`if _either_is_decimal(left, right):` -> the predicate's own expression with the arguments substituted (a same-module
    function whose body is one `return <expression>`)."""
    import copy
    if not (isinstance(test, ast.Call) and isinstance(test.func, ast.Name) and not test.keywords):
        return test
    q = prog.modules[fi.module].functions.get(test.func.id)
    h = prog.functions[q].node if q and q in prog.functions else None
    if h is None:
        return test
    body = [st for st in h.body if not (isinstance(st, ast.Expr) and isinstance(st.value, ast.Constant))]
    hp = [a.arg for a in h.args.args]
    if len(body) != 1 or not isinstance(body[0], ast.Return) or body[0].value is None or len(hp) != len(test.args):
        return test
    m = dict(zip(hp, test.args))

    class Sub(ast.NodeTransformer):
        def visit_Name(self, n: ast.Name) -> ast.AST:
            return copy.deepcopy(m[n.id]) if n.id in m and isinstance(n.ctx, ast.Load) else n
    return Sub().visit(copy.deepcopy(body[0].value))


def check_decimal_helpers(rep: Report, prog: Program, rid: str) -> None:
    for name, op in HELPER_OPS.items():
        fi = prog.func(name)
        fn = fi.node
        params = fi.params()
        ok = True
        why = ""
        ifs = [s for s in fn.body if isinstance(s, ast.If)]
        rets = [s for s in fn.body if isinstance(s, ast.Return)]
        if len(ifs) != 1 or len(rets) != 1 or len(params) != 2:
            ok, why = False, "shape is not `if <Decimal test>: return D(a) op D(b)` / `return a op b`"
        else:
            test = _expand_predicate(prog, fi, ifs[0].test)
            tested = set()
            for c in ast.walk(test):
                if isinstance(c, ast.Call) and isinstance(c.func, ast.Name) and c.func.id == "isinstance" and len(c.args) == 2 \
                        and isinstance(c.args[0], ast.Name) and ast.unparse(c.args[1]) == "Decimal":
                    tested.add(c.args[0].id)
            if not (isinstance(test, ast.BoolOp) and isinstance(test.op, ast.Or)) or tested != set(params):
                ok, why = False, f"the Decimal guard tests {sorted(tested)}, not both operands {params} joined by `or`"
            dr = ifs[0].body[-1] if ifs[0].body else None
            if ok and not (isinstance(dr, ast.Return) and isinstance(dr.value, ast.BinOp) and isinstance(dr.value.op, op)
                           and all(isinstance(x, ast.Call) and ast.unparse(x.func) == "Decimal" and len(x.args) == 1
                                   and isinstance(x.args[0], ast.Name) for x in (dr.value.left, dr.value.right))
                           and [dr.value.left.args[0].id, dr.value.right.args[0].id] == params):  # type: ignore[attr-defined]
                ok, why = False, f"the Decimal branch is not Decimal({params[0]}) {op.__name__} Decimal({params[1]})"
            pr = rets[0]
            if ok and not (isinstance(pr.value, ast.BinOp) and isinstance(pr.value.op, op)
                           and isinstance(pr.value.left, ast.Name) and isinstance(pr.value.right, ast.Name)
                           and [pr.value.left.id, pr.value.right.id] == params):
                ok, why = False, f"the plain branch is not {params[0]} {op.__name__} {params[1]}"
        rep.check(rid, name, ok, f"{name}: {why}; a Decimal operand would be lost, mixed with float, or the wrong operator applied",
                  fi.where())


def check_mixed_arithmetic(rep: Report, prog: Program, resolver: Resolver, rid: str) -> None:
    """Typed lint: raw binary arithmetic with a possibly-Decimal operand on one side and a
    float-only operand on the other, outside the helpers (TypeError for Decimal magnitudes)."""
    n = 0
    for q, fi in prog.functions.items():
        if fi.module in ("hypothesis", "pytest", "cli", "formatting") or q in HELPER_OPS:
            continue
        for node in ast.walk(fi.node):
            if isinstance(node, ast.BinOp) and isinstance(node.op, (ast.Add, ast.Sub, ast.Mult, ast.Div)):
                la = {f for k, f in resolver.expr_alts(fi, node.left) if k == "inst"}
                ra = {f for k, f in resolver.expr_alts(fi, node.right) if k == "inst"}
                for a, b in ((la, ra), (ra, la)):
                    if "decimal.Decimal" in a and b == {"builtins.float"}:
                        n += 1
                        rep.fail(rid, f"{q}:{ast.unparse(node)[:50]}",
                                 f"`{ast.unparse(node)}` applies a raw operator to a possibly-Decimal operand and a float: "
                                 "TypeError for Decimal magnitudes; use the Decimal-preserving helpers", fi.where(node))
                        break
    if n == 0:
        rep.ok(rid, "package", note="0 raw Decimal-vs-float operations outside the helpers")


# ------------------------------------------------------------------ R03.3 gates
def _pure_alias(st: Optional[ast.AST]) -> bool:
    """`name = a.b.c`: a local alias of an attribute chain - no call, no subscript, nothing
    that could convert or return; harmless ahead of the dimension gate (refAQ11)."""
    if not (isinstance(st, ast.Assign) and len(st.targets) == 1 and isinstance(st.targets[0], ast.Name)):
        return False
    v = st.value
    while isinstance(v, ast.Attribute):
        v = v.value
    return isinstance(v, ast.Name)


def check_gates(rep: Report, prog: Program, rid: str) -> None:
    from .cfg import CFG
    # conversions.convert: the dimension test raising ConversionNotFound dominates everything
    fi = prog.func("conversions.convert")
    cfg = CFG(fi.node)
    dom = cfg.dominators()
    gate = None
    for n in cfg.stmt_nodes():
        if n.kind == "test" and isinstance(n.ast, ast.If):
            # the test may sit in a one-expression predicate (`_is_incommensurable(a, b)`)
            gtest = expand_expr(prog, fi.module, n.ast.test)
            t = ast.unparse(gtest)
            if t.count(".dimension") >= 2 and n.ast.body and isinstance(n.ast.body[-1], ast.Raise) \
                    and "ConversionNotFound" in ast.unparse(n.ast.body[-1]):
                gate = n
                break
    if gate is None:
        rep.fail(rid, "conversions.convert:gate", "no `if <dimensions differ>: raise ConversionNotFound` in convert", fi.where())
    else:
        others = [n for n in cfg.stmt_nodes() if n.nid != gate.nid and n.nid in cfg.reachable(cfg.entry)
                  and not _inside(n.ast, gate.ast)
                  and not (isinstance(n.ast, ast.Expr) and isinstance(n.ast.value, ast.Constant))
                  and not _pure_alias(n.ast)]
        bad = [n for n in others if gate.nid not in dom.get(n.nid, set())]
        rep.check(rid, "conversions.convert:gate", not bad,
                  "a statement of convert() can execute before the dimension gate "
                  f"(`{ast.unparse(bad[0].ast)[:60] if bad else ''}`): incommensurable units may be converted", fi.where(bad[0].ast if bad else None))
        neq = isinstance(gtest, ast.Compare) and isinstance(gtest.ops[0], (ast.NotEq, ast.IsNot))
        rep.check(rid, "conversions.convert:gate-test", neq, "the gate does not test that the dimensions differ", fi.where(gate.ast))
    # Quantity.__eq__/__lt__: gate returning NotImplemented dominates magnitude comparisons and conversions
    for q in ("Quantity.__eq__", "Quantity.__lt__"):
        fi = prog.func(q)
        cfg = CFG(fi.node)
        dom = cfg.dominators()
        gate = None
        via = ""
        for n in cfg.stmt_nodes():
            if n.kind == "test" and isinstance(n.ast, ast.If) and ast.unparse(n.ast.test).count(".dimension") >= 2 \
                    and n.ast.body and isinstance(n.ast.body[-1], ast.Return) and ast.unparse(n.ast.body[-1].value or ast.Constant(0)) == "NotImplemented":
                gate = n
        if gate is None:
            # the gate may live in a helper whose `None` result is turned into NotImplemented here
            for n in cfg.stmt_nodes():
                if not (n.kind == "test" and isinstance(n.ast, ast.If) and n.ast.body and isinstance(n.ast.body[-1], ast.Return)
                        and ast.unparse(n.ast.body[-1].value or ast.Constant(0)) == "NotImplemented"):
                    continue
                t = n.ast.test
                var = None
                if isinstance(t, ast.Compare) and len(t.ops) == 1 and isinstance(t.ops[0], ast.Is) and isinstance(t.left, ast.Name) \
                        and isinstance(t.comparators[0], ast.Constant) and t.comparators[0].value is None:
                    var = t.left.id
                elif isinstance(t, ast.UnaryOp) and isinstance(t.op, ast.Not) and isinstance(t.operand, ast.Name):
                    var = t.operand.id
                if var is None:
                    continue
                for a in ast.walk(fi.node):
                    if isinstance(a, ast.Assign) and any(isinstance(x, ast.Name) and x.id == var for x in a.targets) \
                            and isinstance(a.value, ast.Call) and isinstance(a.value.func, ast.Attribute):
                        for hq in prog.method("Quantity", a.value.func.attr):
                            h = prog.functions[hq]
                            def _dim_test(t_: ast.AST, depth_: int = 0) -> bool:
                                """compares two .dimension values, directly or through a one-expression predicate of the class"""
                                if ast.unparse(t_).count(".dimension") >= 2:
                                    return True
                                if depth_ < 2:
                                    for c_ in ast.walk(t_):
                                        if isinstance(c_, ast.Call) and isinstance(c_.func, ast.Attribute):
                                            for pq in prog.method("Quantity", c_.func.attr):
                                                pf = prog.functions[pq]
                                                if any(isinstance(r_, ast.Return) and r_.value is not None and _dim_test(r_.value, depth_ + 1) for r_ in ast.walk(pf.node)):
                                                    return True
                                return False
                            for hs in ast.walk(h.node):
                                if isinstance(hs, ast.If) and _dim_test(hs.test) and hs.body \
                                        and isinstance(hs.body[-1], ast.Return) and ast.unparse(hs.body[-1].value or ast.Constant(0)) == "None":
                                    gate, via = n, hq
        sens = []
        for n in cfg.stmt_nodes():
            if n.ast is None or (gate is not None and _inside(n.ast, gate.ast)):
                continue
            exprs = [n.ast.test] if isinstance(n.ast, (ast.If, ast.While)) else [n.ast]
            for ex in exprs:
                for sub in ast.walk(ex):
                    if isinstance(sub, ast.Attribute) and sub.attr == "magnitude":
                        sens.append(n)
                    if isinstance(sub, ast.Call) and isinstance(sub.func, ast.Attribute) and sub.func.attr == "in_unit":
                        sens.append(n)
        if gate is None:
            rep.fail(rid, f"{q}:gate", "no dimension gate returning NotImplemented", fi.where())
            continue
        bad = [n for n in sens if gate.nid not in dom.get(n.nid, set())]
        rep.check(rid, f"{q}:gate", not bad and bool(sens),
                  "a magnitude comparison or a conversion can execute before the dimension gate", fi.where(bad[0].ast if bad else None),
                  note=f"gate in {via}" if via else None)
    # Measurement.__eq__: False on differing dimensions before bounds are computed
    fi = prog.func("Measurement.__eq__")
    found = False
    for st in fi.node.body:
        if isinstance(st, ast.If) and ast.unparse(st.test).count(".dimension") >= 2 and st.body and isinstance(st.body[-1], ast.Return) \
                and isinstance(st.body[-1].value, ast.Constant) and st.body[-1].value.value is False:
            found = True
    rep.check(rid, "Measurement.__eq__:gate", found, "Measurement.__eq__ no longer returns False for differing dimensions", fi.where())


def _inside(n: Optional[ast.AST], comp: Optional[ast.AST]) -> bool:
    if n is None or comp is None:
        return False
    return any(x is n for x in ast.walk(comp))


# ------------------------------------------------------------- memo keyed by numbers
def check_quantity_ctor(rep: Report, prog: Program, rid: str) -> None:
    """Quantity(m, u) denotes m x val(u): __init__ stores the magnitude it was given and the unit it was
    given (or the unit the text parses to).  If the unit text is read through anything that yields a
    *quantity* (a unit text with a leading scale), the scale has to reach self.magnitude - a store made
    before the scale was folded in leaves the constructed value off by that scale."""
    from .cfg import CFG
    fi = prog.func("Quantity.__init__")
    ps = fi.params()
    me, mag, unit = ps[0], ps[1], ps[2]
    cfg = CFG(fi.node)
    class _Store:
        """`self.<attr> = value` - also as one position of a tuple assignment."""
        def __init__(self, stmt: ast.Assign, value: ast.AST) -> None:
            self.stmt, self.value = stmt, value

    def _stores(attr: str) -> List["_Store"]:
        out_: List[_Store] = []
        for n in ast.walk(fi.node):
            if not isinstance(n, ast.Assign):
                continue
            for t in n.targets:
                if isinstance(t, ast.Attribute) and t.attr == attr and isinstance(t.value, ast.Name) and t.value.id == me:
                    out_.append(_Store(n, n.value))
                elif isinstance(t, (ast.Tuple, ast.List)) and isinstance(n.value, (ast.Tuple, ast.List)) and len(t.elts) == len(n.value.elts):
                    for a_, v_ in zip(t.elts, n.value.elts):
                        if isinstance(a_, ast.Attribute) and a_.attr == attr and isinstance(a_.value, ast.Name) and a_.value.id == me:
                            out_.append(_Store(n, v_))
        return out_
    stores_m = _stores("magnitude")
    stores_u = _stores("unit")
    if not stores_m or not stores_u:
        raise AnalysisError("Quantity.__init__: stores of self.magnitude / self.unit not found")

    def sources(e: ast.AST, at: Optional[int], depth: int = 0) -> List[ast.AST]:
        """The defining expressions that may flow into e at node `at` (parameters appear as themselves)."""
        if isinstance(e, ast.Name) and at is not None and depth < 4:
            out: List[ast.AST] = []
            for d in cfg.reaching_defs(at, e.id):
                if d is None:
                    out.append(e)
                elif isinstance(d, ast.Assign):
                    val = d.value
                    if isinstance(d.targets[0], (ast.Tuple, ast.List)) and isinstance(val, (ast.Tuple, ast.List)):
                        for t_, v_ in zip(d.targets[0].elts, val.elts):
                            if isinstance(t_, ast.Name) and t_.id == e.id:
                                val = v_
                    out += sources(val, cfg.node_of(d), depth + 1) if isinstance(val, (ast.Name, ast.IfExp)) else [val]
                else:
                    out.append(d)
            return out
        if isinstance(e, ast.IfExp):
            return sources(e.body, at, depth) + sources(e.orelse, at, depth)
        if isinstance(e, ast.Call) and isinstance(e.func, ast.Name) and depth < 4 and not e.keywords:
            # a one-expression helper of the package: substitute its parameters
            hq = prog.modules[fi.module].functions.get(e.func.id)
            h = prog.functions.get(hq) if hq else None
            if h is not None:
                body = [x for x in h.node.body if not (isinstance(x, ast.Expr) and isinstance(x.value, ast.Constant))]  # type: ignore[attr-defined]
                if len(body) == 1 and isinstance(body[0], ast.Return) and body[0].value is not None and len(h.params()) == len(e.args):
                    import copy as _copy
                    mapping = dict(zip(h.params(), e.args))

                    class _Sub(ast.NodeTransformer):
                        def visit_Name(self, n: ast.Name) -> ast.AST:
                            return _copy.deepcopy(mapping[n.id]) if n.id in mapping else n
                    inl = _Sub().visit(_copy.deepcopy(body[0].value))
                    return sources(inl, at, depth + 1)
        if isinstance(e, ast.Call) and ast.unparse(e.func) in ("cast", "typing.cast") and len(e.args) == 2:
            return sources(e.args[1], at, depth)
        return [e]
    # quantities the unit is projected from
    projected: Set[str] = set()
    for st in stores_u:
        for src in sources(st.value, cfg.node_of(st.stmt)):
            txt = ast.unparse(src)
            okp = (isinstance(src, ast.Name) and src.id == unit) or (isinstance(src, ast.Call) and ast.unparse(src.func).endswith("Unit.parse")
                                                                      and len(src.args) == 1 and ast.unparse(src.args[0]) == unit)
            if okp:
                rep.ok(rid, f"Quantity.__init__:unit<-{txt[:30]}")
                continue
            if isinstance(src, ast.Attribute) and src.attr == "unit" and isinstance(src.value, ast.Name):
                projected.add(src.value.id)
                continue
            rep.fail(rid, f"Quantity.__init__:unit<-{txt[:30]}", f"self.unit is set from `{txt[:50]}`, neither the unit argument nor Unit.parse of it",
                     fi.where(st.stmt))
    for st in stores_m:
        srcs = sources(st.value, cfg.node_of(st.stmt))
        plain = all(isinstance(x, ast.Name) and x.id == mag for x in srcs)
        folded = {q_ for q_ in projected if any(f"{q_}.magnitude" in ast.unparse(x) and mag in {y.id for y in ast.walk(x) if isinstance(y, ast.Name)} for x in srcs)}
        if projected:
            rep.check(rid, f"Quantity.__init__:magnitude<-{ast.unparse(st.value)[:20]}", projected <= folded,
                      f"the unit is taken from a parsed quantity ({sorted(projected)}) but `{ast.unparse(st.stmt)}` stores a magnitude that does not include "
                      "that quantity's magnitude on this path: the leading scale of the unit text is dropped (Quantity(7, '1000 m^-2') is 7 m^-2)",
                      fi.where(st.stmt))
        else:
            rep.check(rid, f"Quantity.__init__:magnitude<-{ast.unparse(st.value)[:20]}", plain,
                      f"`{ast.unparse(st.stmt)}` does not store the magnitude argument unchanged", fi.where(st.stmt))


def check_plain_ctor(rep: Report, prog: Program, rid: str, cls: str, fields: Dict[str, List[str]]) -> None:
    """`cls.__init__` stores, for each field, one of the allowed source shapes built from its own parameters and
    nothing else, on every path (reaching definitions).  fields: attribute -> allowed normalised sources, where
    `$p` stands for the parameter of the same name, e.g. {"magnitude": ["$p"], "uncertainty": ["abs($p)", "abs(Quantity($p,measurand.unit))"]}."""
    from .cfg import CFG
    fi = prog.func(f"{cls}.__init__")
    me = fi.params()[0]
    cfg = CFG(fi.node)

    def expand(e: ast.AST, at: Optional[int], depth: int = 0) -> List[str]:
        """all normalised texts e may denote, locals replaced by their reaching definitions (parameters stay names)"""
        if depth > 4:
            return [ast.unparse(e).replace(" ", "")]
        if isinstance(e, ast.Name):
            outs: List[str] = []
            defs = cfg.reaching_defs(at, e.id) if at is not None else [None]
            for d in defs:
                if d is None:
                    outs.append(e.id)
                elif isinstance(d, ast.Assign):
                    val = d.value
                    if isinstance(d.targets[0], (ast.Tuple, ast.List)) and isinstance(val, (ast.Tuple, ast.List)):
                        for t_, v_ in zip(d.targets[0].elts, val.elts):
                            if isinstance(t_, ast.Name) and t_.id == e.id:
                                val = v_
                    outs += expand(val, cfg.node_of(d), depth + 1)
                else:
                    outs.append("?" + ast.unparse(d)[:30])
            return outs or [e.id]
        if isinstance(e, ast.IfExp):
            return expand(e.body, at, depth) + expand(e.orelse, at, depth)
        if isinstance(e, ast.Call) and isinstance(e.func, ast.Name) and not e.keywords:
            # a small helper of the package (`_as_width(measurand, uncertainty)`): each of its returns, parameters substituted
            hq = prog.modules[fi.module].functions.get(e.func.id)
            h = prog.functions.get(hq) if hq else None
            if h is not None and len(h.params()) == len(e.args) and not any(isinstance(x, (ast.For, ast.While, ast.Try, ast.With)) for x in ast.walk(h.node)):
                import copy as _copy
                mapping = dict(zip(h.params(), e.args))

                class _Sub(ast.NodeTransformer):
                    def visit_Name(self, n_: ast.Name) -> ast.AST:
                        return _copy.deepcopy(mapping[n_.id]) if n_.id in mapping else n_
                outs_h: List[str] = []
                hassigned = {x.id for st_ in ast.walk(h.node) if isinstance(st_, (ast.Assign, ast.AugAssign)) for t_ in (st_.targets if isinstance(st_, ast.Assign) else [st_.target])
                             for x in ast.walk(t_) if isinstance(x, ast.Name)}
                rets_h = [r for r in ast.walk(h.node) if isinstance(r, ast.Return) and r.value is not None]
                if rets_h and not hassigned:
                    for r in rets_h:
                        outs_h += expand(_Sub().visit(_copy.deepcopy(r.value)), at, depth + 1)
                    return outs_h
        if isinstance(e, ast.Call):
            parts = [expand(a, at, depth + 1) for a in e.args]
            outs = [ast.unparse(e.func).replace(" ", "") + "("]
            for i, alts in enumerate(parts):
                outs = [o + ("," if i else "") + a for o in outs for a in alts][:16]
            return [o + ")" for o in outs]
        return [ast.unparse(e).replace(" ", "")]
    n = 0
    for attr, allowed in fields.items():
        want = {a.replace("$p", attr).replace(" ", "") for a in allowed}
        for st in ast.walk(fi.node):
            if not isinstance(st, ast.Assign):
                continue
            pairs = []
            for t in st.targets:
                if isinstance(t, ast.Attribute) and t.attr == attr and isinstance(t.value, ast.Name) and t.value.id == me:
                    pairs.append(st.value)
                elif isinstance(t, (ast.Tuple, ast.List)) and isinstance(st.value, (ast.Tuple, ast.List)) and len(t.elts) == len(st.value.elts):
                    pairs += [v_ for a_, v_ in zip(t.elts, st.value.elts)
                              if isinstance(a_, ast.Attribute) and a_.attr == attr and isinstance(a_.value, ast.Name) and a_.value.id == me]
            for v in pairs:
                n += 1
                got = set(expand(v, cfg.node_of(st)))
                bad = sorted(got - want)
                rep.check(rid, f"{cls}.__init__:{attr}", not bad,
                          f"{cls}.__init__ can store `{bad[0] if bad else ''}` as self.{attr}: the constructor must keep what it is given "
                          f"({' or '.join(sorted(want))}) - every operator builds its result through it, so an adjustment here changes all of them",
                          fi.where(st))
    if n < len(fields):
        raise AnalysisError(f"{cls}.__init__: stores of {sorted(fields)} not all found")


def check_numeric_memo(rep: Report, prog: Program, resolver: Resolver, rid: str) -> None:
    """functools.lru_cache without typed=True conflates 4, 4.0 and Decimal('4'): a memoised
    function with a parameter that can carry two numeric types returns the first caller's
    type to the others (the result type then depends on call history)."""
    from .model import PKG
    n = 0
    for q, fi in sorted(prog.functions.items()):
        if fi.module in ("hypothesis", "pytest") or not prog.is_memoised(fi):
            continue
        typed = any("typed=True" in d.replace(" ", "") for d in fi.decorators)
        mi = prog.modules[fi.module]
        numeric = []
        a = fi.node.args  # type: ignore[attr-defined]
        why = ""
        for x in a.posonlyargs + a.args + a.kwonlyargs:
            alts = resolver.ann_alts(mi, x.annotation) if x.annotation is not None else []
            nums = {full for k, full in alts if k == "inst" and full in ("builtins.int", "builtins.float", "decimal.Decimal")}
            if len(nums) >= 2:
                numeric.append(x.arg)
                why = why or "takes numbers of several types"
            vals = {full.split(".")[-1] for k, full in alts if k == "inst" and full.split(".")[-1] in ("Quantity", "Level", "Measurement")}
            if vals:
                numeric.append(x.arg)
                why = why or f"is keyed by a {'/'.join(sorted(vals))}, whose == and hash identify 5 and 5.0 (and Decimal('5'))"
            # the body tells numeric types apart, which the cache key cannot
            for t in ast.walk(fi.node):
                if isinstance(t, ast.Call) and isinstance(t.func, ast.Name) and t.func.id == "isinstance" and len(t.args) == 2 \
                        and isinstance(t.args[0], ast.Name) and t.args[0].id == x.arg:
                    kinds = {ast.unparse(k).split(".")[-1] for k in (t.args[1].elts if isinstance(t.args[1], ast.Tuple) else [t.args[1]])}
                    if kinds & {"int", "float", "Decimal", "Fraction", "Number", "Real", "Integral", "NUMERIC_CLASSES"} and x.arg not in numeric:
                        numeric.append(x.arg)
                        why = why or f"tests isinstance({x.arg}, {'/'.join(sorted(kinds))}) although 3 and 3.0 are one cache key"
        n += 1
        rep.check(rid, q, typed or not numeric,
                  f"{q} is memoised without typed=True and {why} ({numeric}): equal values of different "
                  "types (4, 4.0, Decimal('4')) share one cache slot, so the answer - its type, or even NotImplemented - depends on "
                  "which caller came first", fi.where())
    if n == 0:
        rep.ok(rid, "package", note="no memoised function")
