"""A necessary condition for "the planner converts U to the coherent SI unit", derived from three
facts about conversions.py that are re-verified in the source on every run (anchors F1-F3):

  F1  _find_path_recursive walks `_ratios[start].items()`: a path is a chain of declared
      equivalences between *whole* units; a compound node (ft.lbf/s) is left only through an
      equivalence declared on that very compound (or its common root).
  F2  _replace_factors decomposes a unit only through an equivalence declared *on that unit itself*
      (`_ratios[unit].keys()`) to a unit with more factors / a larger exponent sum, and never for a
      unit whose dimension has total exponent <= 1.
  F3  _plan_conversion tries the direct path, then decomposes both sides, then pairs the remaining
      factors dimension by dimension with _find_path; whatever is left raises ConversionNotFound.
  F4  _cancel_factors drops a left-over dimensionless factor (rad, sr) without a step: it is worth 1.  When the
      source emits steps for it instead, a unit with such a factor needs a declared path from the factor to One.

From these: if U is not decomposable (F2) then every plan pairs U itself, by a path (F1), with the
target or with a unit assembled from the factors the *target side* can be decomposed into.  So U
converts only if its connected component in the declared graph (whole units as nodes, with the
common-root step of _reduce_dimension) contains the target or a unit all of whose factors the
target side can produce.  Everything here over-approximates success, so a unit that fails the test
cannot be converted; a unit that passes may still fail (that is C04's planner, not decided).
"""
from __future__ import annotations

import ast
from typing import Dict, List, Optional, Set, Tuple

from .core import AnalysisError
from .decl import Evaluator, UnitV
from .model import Program


def verify_anchors(prog: Program) -> List[str]:
    """-> list of anchor descriptions; raises AnalysisError when the planner no longer has the shape
    the necessary condition is derived from."""
    out = []
    fp = prog.func("conversions._find_path_recursive")
    loops = [n for n in ast.walk(fp.node) if isinstance(n, ast.For)]
    p0 = fp.params()[0]
    for n in ast.walk(fp.node):
        # `exponent, start_root, end_root = _reduce_dimension(start, end)`: the search goes on from the reduced start
        if isinstance(n, ast.Assign) and isinstance(n.value, ast.Call) and ast.unparse(n.value.func) == "_reduce_dimension" \
                and isinstance(n.targets[0], ast.Tuple) and len(n.targets[0].elts) == 3 and isinstance(n.targets[0].elts[1], ast.Name) \
                and n.value.args and ast.unparse(n.value.args[0]) == p0:
            p0 = n.targets[0].elts[1].id
    ok1 = bool(loops) and all(ast.unparse(lp.iter).replace(" ", "") in (f"_ratios[{p0}].items()", f"_ratios[{p0}]", f"_ratios[{p0}].keys()")
                              for lp in loops if "_ratios" in ast.unparse(lp.iter)) and any("_ratios" in ast.unparse(lp.iter) for lp in loops)
    if not ok1:
        raise AnalysisError("conversions._find_path_recursive no longer walks _ratios[start] (anchor F1 of R09.7 moved)")
    out.append("F1: _find_path_recursive iterates _ratios[start]")
    rf = prog.func("conversions._replace_factors")
    # the function and the helpers it is split into (same module; the path search itself excluded)
    closure: List[ast.AST] = []
    seen: Set[str] = set()
    todo = [rf.qual]
    while todo:
        q = todo.pop()
        if q in seen or q not in prog.functions:
            continue
        seen.add(q)
        closure.append(prog.functions[q].node)
        for n in ast.walk(prog.functions[q].node):
            if isinstance(n, ast.Call) and isinstance(n.func, ast.Name):
                cq = f"conversions.{n.func.id}"
                if cq in prog.functions and n.func.id not in ("_clean_pop", "_clean_remove"):
                    todo.append(cq)
    nodes = [n for fn in closure for n in ast.walk(fn)]
    transitive = any(q.split(".")[-1].startswith("_find_path") or q.endswith("_plan_conversion") for q in seen)

    from .inline import expand_expr

    import copy as _copy
    single: Dict[str, ast.AST] = {}
    counts: Dict[str, int] = {}
    for fn_ in closure:
        for st in ast.walk(fn_):
            if isinstance(st, ast.Assign) and len(st.targets) == 1 and isinstance(st.targets[0], ast.Name):
                counts[st.targets[0].id] = counts.get(st.targets[0].id, 0) + 1
                single[st.targets[0].id] = st.value
            elif isinstance(st, (ast.AugAssign, ast.For, ast.comprehension)):
                for x in ast.walk(st.target):
                    if isinstance(x, ast.Name):
                        counts[x.id] = counts.get(x.id, 0) + 2

    class _Deref(ast.NodeTransformer):
        depth = 0

        def visit_Name(self, n: ast.Name) -> ast.AST:
            d = single.get(n.id)
            if isinstance(n.ctx, ast.Load) and counts.get(n.id) == 1 and isinstance(d, (ast.Call, ast.BinOp, ast.Attribute)) and self.depth < 4 \
                    and not any(isinstance(x, ast.Name) and x.id == n.id for x in ast.walk(d)):
                self.depth += 1
                try:
                    return self.visit(_copy.deepcopy(d))
                finally:
                    self.depth -= 1
            return n

    def norm(x: ast.AST) -> str:
        # helper predicates / measures (`_complexity(dimension) <= 1`) and single-definition locals (`count = len(unit.factors)`)
        # are read through
        if isinstance(x, ast.Compare):
            x = expand_expr(prog, "conversions", _Deref().visit(_copy.deepcopy(x)))
        return ast.unparse(x).replace(" ", "")
    # the total-exponent test (inline, in a comprehension filter or in a helper predicate)
    skip = any(isinstance(n, ast.Compare) and "exponents" in norm(n) and "abs(" in norm(n)
               and any(norm(n).endswith(t) for t in ("<=1", "<2", ">1", ">=2")) for n in nodes)
    ratio_uses = [n for n in nodes if isinstance(n, ast.Subscript) and isinstance(n.value, ast.Name) and n.value.id == "_ratios"]
    direct = bool(ratio_uses) and all(isinstance(n.slice, ast.Name) for n in ratio_uses)
    cmps = [norm(n) for n in nodes if isinstance(n, ast.Compare)]
    import re as _re
    bigger = any(_re.fullmatch(r"len\((\w+)\.factors\)>len\((\w+)\.factors\)", c) for c in cmps) and \
        any(_re.fullmatch(r"sum\((\w+)\.factors\.values\(\)\)>sum\((\w+)\.factors\.values\(\)\)", c) for c in cmps)
    if not (skip and direct and bigger) or transitive:
        raise AnalysisError("conversions._replace_factors no longer decomposes only through the unit's own, larger equivalences of a "
                            "derived dimension (anchor F2 of R09.7 moved)")
    out.append("F2: _replace_factors uses _ratios[unit], larger alternatives only, skips total exponent <= 1")
    pc = prog.func("conversions._plan_conversion")
    need = ["_find_path", "_replace_factors", "_match_factors", "_cancel_factors", "_inline_paths"]
    # the function and the same-module helpers it is split into (the planner stages themselves are not entered)
    from .effects import raise_sites
    calls: List[str] = []
    raises = False
    seen3: Set[str] = set()
    todo3 = [pc.qual]
    while todo3:
        q = todo3.pop()
        if q in seen3 or q not in prog.functions:
            continue
        seen3.add(q)
        raises = raises or any(rs.exc == "ConversionNotFound" for rs in raise_sites(prog, q))
        for n in ast.walk(prog.functions[q].node):
            if isinstance(n, ast.Call):
                calls.append(ast.unparse(n.func))
                if isinstance(n.func, ast.Name) and n.func.id not in need and f"conversions.{n.func.id}" in prog.functions:
                    todo3.append(f"conversions.{n.func.id}")
    if not (all(c in calls for c in need) and raises):
        raise AnalysisError("conversions._plan_conversion no longer has the direct / decompose / match / cancel shape (anchor F3 of R09.7 moved)")
    out.append("F3: _plan_conversion = direct path, decompose, match, cancel, else ConversionNotFound")
    return out


def sheds_dimensionless(prog: Program) -> bool:
    """Anchor F4: in _cancel_factors a left-over factor whose dimension is its own inverse (a dimensionless unit: rad, sr,
    a count) is dropped without a plan step - it is worth 1.  -> True when that is what the source does, False when the
    branch emits steps for the factor (it then needs a declared path), AnalysisError when the branch is gone."""
    cf = prog.func("conversions._cancel_factors")
    inv_names = {t.id for n in ast.walk(cf.node) if isinstance(n, ast.Assign) for t in n.targets if isinstance(t, ast.Name)
                 and isinstance(n.value, ast.BinOp) and isinstance(n.value.op, ast.Pow) and ast.unparse(n.value.right) in ("-1", "(-1)")}
    for n in ast.walk(cf.node):
        if isinstance(n, ast.If) and isinstance(n.test, ast.Compare) and len(n.test.ops) == 1 and isinstance(n.test.ops[0], (ast.Is, ast.Eq, ast.IsNot, ast.NotEq)):
            sides = {ast.unparse(n.test.left), ast.unparse(n.test.comparators[0])}
            if sides & inv_names and len(sides) == 2:
                # the arm taken when the dimension *is* its own inverse: the body of `is`, the else of `is not`
                arm = n.body if isinstance(n.test.ops[0], (ast.Is, ast.Eq)) else n.orelse
                emits = any(isinstance(c, ast.Call) and isinstance(c.func, ast.Attribute) and c.func.attr in ("append", "extend", "insert")
                            for st in arm for c in ast.walk(st)) or any(isinstance(st, ast.AugAssign) for st in arm)
                return not emits
    raise AnalysisError("conversions._cancel_factors no longer tests a dimension against its own inverse (anchor F4 of R09.3/R09.7 moved)")


class PlannerReach:
    def __init__(self, ev: Evaluator, sheds: bool = True) -> None:
        self.ev = ev
        self.sheds = sheds
        self.adj: Dict[int, Set[int]] = {}
        for e in ev.edges:
            self.adj.setdefault(e.a.uid, set()).add(e.b.uid)
            self.adj.setdefault(e.b.uid, set()).add(e.a.uid)
        self.one = ev.one().uid

    def unit(self, uid: int) -> UnitV:
        return self.ev.unit_by_id[uid]

    @staticmethod
    def dim_total(u: UnitV) -> int:
        return sum(abs(e) for e in u.dimension.exps.values())

    def bigger(self, a: UnitV, u: UnitV) -> bool:
        return len(a.factors) > len(u.factors) or sum(a.factors.values()) > sum(u.factors.values())

    def decomposable(self, u: UnitV) -> bool:
        if self.dim_total(u) <= 1:
            return False
        return any(self.bigger(self.unit(a), u) for a in self.adj.get(u.uid, ()))

    def component(self, u: UnitV) -> Set[int]:
        """Whole-unit nodes reachable from u, including the common-root step (over-approximated:
        taken whenever the node is a perfect power)."""
        seen: Set[int] = set()
        todo = [u.uid]
        while todo:
            x = todo.pop()
            if x in seen:
                continue
            seen.add(x)
            for y in self.adj.get(x, ()):
                todo.append(y)
            ux = self.unit(x)
            exps = [abs(e) for e in ux.dimension.exps.values()] + [abs(e) for e in ux.factors.values()]
            for g in range(2, (max(exps) if exps else 1) + 1):
                if exps and all(e % g == 0 for e in exps):
                    r = self.ev.unit_root(ux, g)
                    if r is not None:
                        todo.append(r.uid)
        return seen

    def producible(self, target: UnitV) -> Set[int]:
        """Base-unit ids the target side can be decomposed into (every larger equivalence of every
        decomposable factor, not only the first one the planner picks: a superset)."""
        d: Set[int] = set(k for k in target.factors if k != self.one)
        todo = list(d)
        while todo:
            x = todo.pop()
            ux = self.unit(x)
            if self.dim_total(ux) <= 1:
                continue
            for a in self.adj.get(x, ()):
                ua = self.unit(a)
                if self.bigger(ua, ux):
                    for k in ua.factors:
                        if k not in d and k != self.one:
                            d.add(k)
                            todo.append(k)
        return d

    def reach_direct(self, start: UnitV, end: UnitV) -> bool:
        """Over-approximation of `_find_path_recursive(start, end)` finding a path: plain reachability in the search's state
        graph (current unit, current end), where a state is first reduced to the common root `_reduce_dimension` takes (the
        gcd of the start's dimension exponents, when both units have that root) and then left along `_ratios[start]`.  The
        shared visited set of the real search can only lose paths, never add one."""
        from math import gcd
        seen: Set[Tuple[int, int]] = set()
        todo = [(start.uid, end.uid)]
        while todo:
            s, e = todo.pop()
            if (s, e) in seen:
                continue
            seen.add((s, e))
            if s == e:
                return True
            us, ue = self.unit(s), self.unit(e)
            exps = [abs(x) for x in us.dimension.exps.values()]
            g = 0
            for x in exps:
                g = gcd(g, x)
            if g > 1:
                rs, re_ = self.ev.unit_root(us, g), self.ev.unit_root(ue, g)
                if rs is not None and re_ is not None:
                    us, ue = rs, re_
                    if us.uid == ue.uid:
                        return True
            for i in self.adj.get(us.uid, ()):
                if i == ue.uid:
                    return True
                todo.append((i, ue.uid))
        return False

    def may_convert_from(self, target: UnitV, u: UnitV) -> Tuple[bool, str]:
        """The other direction: from the coherent SI unit *to* u.  The target is a product of SI base units (nothing to
        decompose, F2), so unless u itself is decomposed through a compound equivalence of its own, the plan needs a path
        from the target (the matched product of its factors) to u - and the search is not symmetric: it takes the common
        root only when the unit it stands on is a perfect power, so m^2 never gets to ft^2 -> acre unless it may start by
        reducing to m -> ft against an end that has a root too."""
        if u.uid == target.uid:
            return True, "is the target"
        if self.decomposable(u):
            return True, "decomposed through its own compound equivalence"
        if self.reach_direct(target, u):
            return True, "path from the target"
        return False, (f"the path search from {target!r} never arrives at it: every declared equivalence of {u.name!r} leads to units the search "
                       "only reaches after taking a root, and it takes roots only when both ends have one")

    def may_convert(self, u: UnitV, target: UnitV) -> Tuple[bool, str]:
        if u.uid == target.uid:
            return True, "is the target"
        if self.decomposable(u):
            return True, "decomposed through its own compound equivalence"
        comp = self.component(u)
        if target.uid in comp:
            return True, "declared path to the target"
        prod = self.producible(target)
        for x in comp:
            ux = self.unit(x)
            fs = [k for k in ux.factors if k != self.one]
            if fs and all(k in prod for k in fs):
                return True, f"declared path to {ux!r}, which the target side can produce"
        names = sorted(repr(self.unit(x)) for x in comp if x != u.uid)[:4]
        return False, (f"it has no compound equivalence of its own to be decomposed through, and the declared paths from it reach only "
                       f"{names or 'nothing'}, none of which is the target or made of factors the target decomposes into")


def dimensionless_factors(ev: Evaluator, u: UnitV) -> List[UnitV]:
    one = ev.one().uid
    return [ev.unit_by_id[k] for k in u.factors if k != one and not ev.unit_by_id[k].dimension.exps]


def coherent_si(ev: Evaluator, u: UnitV) -> Optional[UnitV]:
    """The unprefixed product of SI base units with u's dimension (None when the dimension involves a
    fundamental dimension SI has no base unit for, or is Number)."""
    base_of: Dict[int, UnitV] = {}
    for b in ev.unit_by_id.values():
        if b.is_base and b.module in ("", "si") and len(b.dimension.exps) == 1 and list(b.dimension.exps.values()) == [1]:
            (i, _), = b.dimension.exps.items()
            base_of.setdefault(i, b)
    if not u.dimension.exps:
        return None
    f: Dict[int, int] = {}
    for i, e in u.dimension.exps.items():
        if i not in base_of:
            return None
        f[base_of[i].uid] = e
    if ev.identity_prefix is None:
        return None
    return ev.unit(ev.identity_prefix, f, u.dimension)
