"""E1 - resolved program model of src/measured: ast tables + mypy (as a library) types.

Nothing from the repository is imported or executed.  mypy is used as a *tool* to get
the static type of every expression, which resolves attribute calls and operator
dispatch; everything else is plain `ast`.
"""
from __future__ import annotations

import ast
import os
import sys
from dataclasses import dataclass, field
from typing import Any, Dict, Iterable, Iterator, List, Optional, Set, Tuple

from .core import REPO, SRC, AnalysisError, rel

PKG = "measured"
SKIP_FOR_TYPES = {"_parser.py", "hypothesis.py", "pytest.py", "__main__.py"}

BINOPS = {
    ast.Add: "add", ast.Sub: "sub", ast.Mult: "mul", ast.Div: "truediv",
    ast.FloorDiv: "floordiv", ast.Mod: "mod", ast.Pow: "pow", ast.MatMult: "matmul",
    ast.BitOr: "or", ast.BitAnd: "and", ast.BitXor: "xor", ast.LShift: "lshift",
    ast.RShift: "rshift",
}
CMPOPS = {
    ast.Eq: "__eq__", ast.NotEq: "__ne__", ast.Lt: "__lt__", ast.LtE: "__le__",
    ast.Gt: "__gt__", ast.GtE: "__ge__",
}
REFLECTED_CMP = {"__eq__": "__eq__", "__ne__": "__ne__", "__lt__": "__gt__",
                 "__le__": "__ge__", "__gt__": "__lt__", "__ge__": "__le__"}
UNARY = {ast.USub: "__neg__", ast.UAdd: "__pos__", ast.Invert: "__invert__"}


@dataclass
class FuncInfo:
    qual: str                 # e.g. "Quantity.__add__", "conversions.convert"
    module: str               # short module name ("" for measured/__init__.py)
    cls: Optional[str]
    name: str
    node: ast.AST             # FunctionDef / Lambda
    path: str
    decorators: List[str] = field(default_factory=list)
    parent: Optional[str] = None     # enclosing function for nested defs

    @property
    def is_memo(self) -> bool:
        return any(d.split("(")[0].split(".")[-1] in ("lru_cache", "cache") for d in self.decorators)

    @property
    def is_static(self) -> bool:
        return "staticmethod" in self.decorators

    @property
    def is_classmethod(self) -> bool:
        return "classmethod" in self.decorators

    @property
    def is_property(self) -> bool:
        return "property" in self.decorators

    @property
    def is_overload(self) -> bool:
        return "overload" in self.decorators

    def params(self) -> List[str]:
        a = self.node.args  # type: ignore[attr-defined]
        return [x.arg for x in a.posonlyargs + a.args + a.kwonlyargs]

    def where(self, node: Optional[ast.AST] = None) -> str:
        n = node if node is not None else self.node
        return f"{rel(self.path)}:{getattr(n, 'lineno', 0)}"


@dataclass
class ClassInfo:
    name: str
    module: str
    node: ast.ClassDef
    path: str
    bases: List[str]
    decorators: List[str]
    methods: Dict[str, str] = field(default_factory=dict)      # attr -> function qual
    aliases: Dict[str, ast.AST] = field(default_factory=dict)  # attr -> rhs expr
    class_attrs: Dict[str, ast.AST] = field(default_factory=dict)  # annotated / assigned


@dataclass
class ModuleInfo:
    short: str
    path: str
    tree: ast.Module
    source: str
    imports: Dict[str, Tuple[str, Optional[str]]] = field(default_factory=dict)
    # local name -> (module short, attr or None)
    functions: Dict[str, str] = field(default_factory=dict)   # name -> qual
    classes: Dict[str, str] = field(default_factory=dict)
    globals_assigned: Dict[str, List[ast.AST]] = field(default_factory=dict)


@dataclass
class CallSite:
    caller: str
    node: ast.AST                 # the Call / BinOp / Compare / ... node
    kind: str                     # call, binop, compare, unary, prop, format, builtin, getitem
    targets: List[str]            # resolved function quals in the package
    external: Optional[str] = None  # description of a non-package callee
    args: List[ast.AST] = field(default_factory=list)     # positional (receiver excluded)
    kwargs: Dict[str, ast.AST] = field(default_factory=dict)
    receiver: Optional[ast.AST] = None
    literal_args: Dict[int, Any] = field(default_factory=dict)  # synthetic literal args (format spec)
    unresolved: bool = False
    bound: bool = False           # first parameter of the callee is bound implicitly


def decorator_name(d: ast.AST) -> str:
    try:
        return ast.unparse(d)
    except Exception:  # pragma: no cover
        return "?"


class Program:
    def __init__(self, use_types: bool = True, src: Optional[str] = None) -> None:
        self.src = src or SRC
        if not os.path.isdir(self.src):
            raise AnalysisError(f"source directory {self.src} not found")
        self.modules: Dict[str, ModuleInfo] = {}
        self.functions: Dict[str, FuncInfo] = {}
        self.classes: Dict[str, ClassInfo] = {}
        self.types: Dict[Tuple[str, int, int, int, int], List[Any]] = {}
        self._callsites: Dict[str, List[CallSite]] = {}
        self.type_stats = {"ast_nodes": 0, "typed": 0}
        self._load()
        self.types_available = False
        if use_types:
            self._load_types()

    # ------------------------------------------------------------------ ast
    def _load(self) -> None:
        for fn in sorted(os.listdir(self.src)):
            if not fn.endswith(".py"):
                continue
            path = os.path.join(self.src, fn)
            short = "" if fn == "__init__.py" else fn[:-3]
            if fn == "_parser.py":
                continue  # 3500 lines of Lark runtime: parsed by E6 only
            with open(path, encoding="utf-8") as fh:
                source = fh.read()
            try:
                tree = ast.parse(source, filename=path)
            except SyntaxError as e:
                raise AnalysisError(f"cannot parse {rel(path)}: {e}")
            mi = ModuleInfo(short, path, tree, source)
            self.modules[short] = mi
            self._index_module(mi)
        if "" not in self.modules:
            raise AnalysisError("measured/__init__.py not found")

    def _index_module(self, mi: ModuleInfo) -> None:
        for node in ast.walk(mi.tree):
            for child in ast.iter_child_nodes(node):
                child._parent = node  # type: ignore[attr-defined]
        self._index_body(mi, mi.tree.body, cls=None, parent=None, top=True)

    def _mod_of(self, mi: ModuleInfo, module: Optional[str], level: int) -> Optional[str]:
        """Map an import's module to a package-short module name (or None if external)."""
        if level == 1:
            return module or ""
        if level == 0 and module:
            if module == PKG:
                return ""
            if module.startswith(PKG + "."):
                return module[len(PKG) + 1:]
        return None

    def _index_body(self, mi: ModuleInfo, body: List[ast.stmt], cls: Optional[ClassInfo],
                    parent: Optional[str], top: bool) -> None:
        for st in body:
            if isinstance(st, (ast.If, ast.Try)) and (top or cls is None):
                # conditional imports / definitions at module level
                for sub in self._sub_bodies(st):
                    self._index_body(mi, sub, cls, parent, top)
                continue
            if isinstance(st, ast.ImportFrom) and top:
                m = self._mod_of(mi, st.module, st.level)
                for a in st.names:
                    local = a.asname or a.name
                    if m is None:
                        mi.imports[local] = ("<ext>" + (st.module or ""), a.name)
                    else:
                        mi.imports[local] = (m, a.name)
            elif isinstance(st, ast.Import) and top:
                for a in st.names:
                    local = a.asname or a.name.split(".")[0]
                    mi.imports[local] = ("<ext>" + a.name, None)
            elif isinstance(st, (ast.FunctionDef, ast.AsyncFunctionDef)):
                self._add_function(mi, st, cls, parent)
            elif isinstance(st, ast.ClassDef) and cls is None and parent is None:
                ci = ClassInfo(
                    st.name, mi.short, st, mi.path,
                    [ast.unparse(b) for b in st.bases],
                    [decorator_name(d) for d in st.decorator_list],
                )
                key = st.name if not mi.short else f"{mi.short}.{st.name}"
                self.classes[key] = ci
                mi.classes[st.name] = key
                self._index_body(mi, st.body, ci, None, False)
            elif isinstance(st, (ast.Assign, ast.AnnAssign)):
                targets = st.targets if isinstance(st, ast.Assign) else [st.target]
                value = st.value
                for t in targets:
                    if isinstance(t, ast.Name):
                        if cls is not None:
                            if value is not None:
                                cls.aliases[t.id] = value
                            cls.class_attrs[t.id] = st
                        elif top:
                            mi.globals_assigned.setdefault(t.id, []).append(st)

    @staticmethod
    def _sub_bodies(st: ast.stmt) -> List[List[ast.stmt]]:
        out: List[List[ast.stmt]] = []
        for f in ("body", "orelse", "finalbody"):
            b = getattr(st, f, None)
            if b:
                out.append(b)
        for h in getattr(st, "handlers", []) or []:
            out.append(h.body)
        return out

    def _add_function(self, mi: ModuleInfo, st: ast.AST, cls: Optional[ClassInfo],
                      parent: Optional[str]) -> None:
        name = st.name  # type: ignore[attr-defined]
        decos = [decorator_name(d) for d in st.decorator_list]  # type: ignore[attr-defined]
        simple = [d.split("(")[0].split(".")[-1] for d in decos]
        if parent:
            qual = f"{parent}.<locals>.{name}"
        elif cls is not None:
            base = cls.name if not mi.short else f"{mi.short}.{cls.name}"
            qual = f"{base}.{name}"
        else:
            qual = name if not mi.short else f"{mi.short}.{name}"
        if "overload" in simple:
            return
        fi = FuncInfo(qual, mi.short, cls.name if cls else None, name, st, mi.path,
                      simple + decos, parent)
        self.functions[qual] = fi
        if cls is not None and parent is None:
            cls.methods[name] = qual
        elif parent is None:
            mi.functions[name] = qual
        # nested defs
        for sub in ast.walk(st):
            if sub is st:
                continue
            if isinstance(sub, (ast.FunctionDef, ast.AsyncFunctionDef)) and getattr(sub, "_parent", None) is not None:
                # only direct nesting level handled: find nearest enclosing def
                enc = sub._parent  # type: ignore[attr-defined]
                while enc is not None and not isinstance(enc, (ast.FunctionDef, ast.AsyncFunctionDef, ast.ClassDef)):
                    enc = getattr(enc, "_parent", None)
                if enc is st:
                    self._add_function(mi, sub, None, qual)

    def is_memoised(self, fi: FuncInfo) -> bool:
        """lru_cache/cache directly, through a module-level alias, or through a package
        decorator whose body applies lru_cache/cache."""
        if fi.is_memo:
            return True
        mi = self.modules.get(fi.module)
        if mi is None:
            return False
        for d in fi.decorators:
            base = d.split("(")[0]
            if "." in base:
                continue
            for st in mi.globals_assigned.get(base, []):
                v = getattr(st, "value", None)
                if v is not None and any(isinstance(x, ast.Name) and x.id in ("lru_cache", "cache") or
                                         isinstance(x, ast.Attribute) and x.attr in ("lru_cache", "cache") for x in ast.walk(v)):
                    return True
            q = self.resolve_name(mi, base)
            if q and q in self.functions:
                body = self.functions[q].node
                if any(isinstance(x, ast.Name) and x.id in ("lru_cache", "cache") or
                       isinstance(x, ast.Attribute) and x.attr in ("lru_cache", "cache") for x in ast.walk(body)):
                    return True
        return False

    # ------------------------------------------------------------- lookups
    def func(self, qual: str) -> FuncInfo:
        f = self.functions.get(qual)
        if f is None:
            raise AnalysisError(f"anchor function {qual} not found in {rel(self.src)}")
        return f

    def cls(self, name: str) -> ClassInfo:
        c = self.classes.get(name)
        if c is None:
            raise AnalysisError(f"anchor class {name} not found in {rel(self.src)}")
        return c

    def module(self, short: str) -> ModuleInfo:
        m = self.modules.get(short)
        if m is None:
            raise AnalysisError(f"anchor module measured/{short or '__init__'}.py not found")
        return m

    def class_key(self, fullname: str) -> Optional[str]:
        """mypy fullname 'measured.Quantity' / 'measured.json.X' -> class table key."""
        if fullname.startswith(PKG + "."):
            k = fullname[len(PKG) + 1:]
            if k in self.classes:
                return k
        return None

    def method(self, cls_key: str, attr: str, _seen: Optional[Set[str]] = None) -> List[str]:
        """Resolve attribute `attr` on class `cls_key` to function quals, following
        class-body aliases (`__rmul__ = __mul__`, `__str__ = formatting.unit_str`,
        `_repr_html_ = formatting.mathml(formatting.unit_mathml)`) and package bases."""
        ci = self.classes.get(cls_key)
        if ci is None:
            return []
        _seen = _seen or set()
        if (cls_key, attr) in _seen:
            return []
        _seen.add((cls_key, attr))
        if attr in ci.methods:
            return [ci.methods[attr]]
        if attr in ci.aliases:
            return self._resolve_alias(ci, ci.aliases[attr], _seen)
        if "total_ordering" in ci.decorators and attr in ("__le__", "__gt__", "__ge__", "__ne__"):
            out: List[str] = []
            for a in ("__lt__", "__eq__") if attr != "__ne__" else ("__eq__",):
                out += self.method(cls_key, a, _seen)
            return out
        for b in ci.bases:
            bk = b.split("[")[0]
            mi = self.modules[ci.module]
            k = mi.classes.get(bk) or (bk if bk in self.classes else None)
            if k:
                r = self.method(k, attr, _seen)
                if r:
                    return r
        return []

    def _resolve_alias(self, ci: ClassInfo, rhs: ast.AST, seen: Set[Tuple[str, str]]) -> List[str]:
        mi = self.modules[ci.module]
        key = ci.name if not ci.module else f"{ci.module}.{ci.name}"
        if isinstance(rhs, ast.Name):
            if rhs.id in ci.methods or rhs.id in ci.aliases:
                return self.method(key, rhs.id, seen)
            q = self.resolve_name(mi, rhs.id)
            return [q] if q and q in self.functions else []
        if isinstance(rhs, ast.Attribute):
            q = self.resolve_attr_chain(mi, rhs)
            return [q] if q and q in self.functions else []
        if isinstance(rhs, ast.Call):
            # wrapper(inner): reaches the wrapper's nested function(s) and the inner
            out: List[str] = []
            f = None
            if isinstance(rhs.func, ast.Attribute):
                f = self.resolve_attr_chain(mi, rhs.func)
            elif isinstance(rhs.func, ast.Name):
                f = self.resolve_name(mi, rhs.func.id)
            if f and f in self.functions:
                out.append(f)
                out += [q for q, fi in self.functions.items() if fi.parent == f]
            for a in rhs.args:
                if isinstance(a, (ast.Name, ast.Attribute)):
                    out += self._resolve_alias(ci, a, seen)
            return out
        return []

    def resolve_name(self, mi: ModuleInfo, name: str) -> Optional[str]:
        """Module-scope name -> function/class key, following package imports."""
        if name in mi.functions:
            return mi.functions[name]
        if name in mi.classes:
            return mi.classes[name]
        if name in mi.imports:
            m, attr = mi.imports[name]
            if m.startswith("<ext>"):
                return None
            if attr is None:
                return None
            # `from . import conversions` / `from measured import systems`
            sub = f"{m}.{attr}" if m else attr
            if sub in self.modules and attr not in self.modules.get(m, mi).functions and attr not in self.modules.get(m, mi).classes:
                return "<module>" + sub
            tm = self.modules.get(m)
            if tm is None:
                return None
            if attr in tm.functions:
                return tm.functions[attr]
            if attr in tm.classes:
                return tm.classes[attr]
            if attr in tm.imports and tm is not mi:
                return self.resolve_name(tm, attr)
        return None

    def resolve_attr_chain(self, mi: ModuleInfo, node: ast.Attribute) -> Optional[str]:
        """`formatting.unit_str`, `conversions.ConversionNotFound`, `_parser.LarkError`."""
        if isinstance(node.value, ast.Name):
            base = self.resolve_name(mi, node.value.id)
            if base and base.startswith("<module>"):
                tm = self.modules.get(base[len("<module>"):])
                if tm is not None:
                    if node.attr in tm.functions:
                        return tm.functions[node.attr]
                    if node.attr in tm.classes:
                        return tm.classes[node.attr]
                    return self.resolve_name(tm, node.attr)
            if base and base in self.classes:
                r = self.method(base, node.attr)
                return r[0] if r else None
        return None

    # --------------------------------------------------------------- types
    def _load_types(self) -> None:
        try:
            from mypy import build
            from mypy.modulefinder import BuildSource
            from mypy.options import Options
        except Exception as e:  # pragma: no cover
            raise AnalysisError(f"mypy is not importable in this interpreter: {e}")
        opts = Options()
        opts.preserve_asts = True
        opts.export_types = True
        opts.incremental = False
        opts.cache_dir = os.devnull
        opts.follow_imports = "skip"
        opts.ignore_missing_imports = True
        opts.python_version = (3, 12)
        srcs = []
        for short, mi in self.modules.items():
            if os.path.basename(mi.path) in SKIP_FOR_TYPES:
                continue
            mod = PKG if not short else f"{PKG}.{short}"
            srcs.append(BuildSource(mi.path, mod, None))
        cwd = os.getcwd()
        try:
            os.chdir(os.path.dirname(os.path.dirname(self.src)))
            res = build.build(srcs, opts)
        except Exception as e:
            raise AnalysisError(f"mypy build failed: {e}")
        finally:
            os.chdir(cwd)
        self.mypy_errors = list(res.errors)
        tmap = res.types
        for short, mi in self.modules.items():
            mod = PKG if not short else f"{PKG}.{short}"
            f = res.files.get(mod)
            if f is None:
                continue
            for node in _walk_mypy(f):
                t = tmap.get(node)
                if t is None:
                    continue
                line = getattr(node, "line", -1)
                col = getattr(node, "column", -1)
                el = getattr(node, "end_line", None)
                ec = getattr(node, "end_column", None)
                if line < 0 or el is None:
                    continue
                self.types.setdefault((short, line, col, el, ec), []).append(t)
        self.types_available = True

    def mypy_type(self, mi_short: str, node: ast.AST) -> Optional[Any]:
        key = (mi_short, getattr(node, "lineno", -1), getattr(node, "col_offset", -1),
               getattr(node, "end_lineno", None), getattr(node, "end_col_offset", None))
        ts = self.types.get(key)
        if not ts:
            return None
        return ts[0]

    def type_alts(self, mi_short: str, node: ast.AST) -> List[Tuple[str, str]]:
        """Abstract type of an expression as alternatives:
        ('inst', fullname) | ('cls', fullname) | ('none','') | ('any','') | ('lit', repr) |
        ('tuple', '') | ('callable', name) | ('other', str)"""
        t = self.mypy_type(mi_short, node)
        if t is None:
            return []
        return flatten_type(t)


def _walk_mypy(root: Any) -> Iterator[Any]:
    """Generic walker over mypy nodes (compiled classes cannot be subclassed)."""
    from mypy.nodes import Node
    seen: Set[int] = set()
    stack = [root]
    skip_attrs = {"info", "type", "unanalyzed_type", "definition", "node", "fullname",
                  "names", "imports", "defn", "type_override", "analyzed"}
    while stack:
        n = stack.pop()
        if id(n) in seen:
            continue
        seen.add(id(n))
        yield n
        for attr in dir(type(n)):
            if attr.startswith("_") or attr in skip_attrs:
                continue
            try:
                v = getattr(n, attr)
            except Exception:
                continue
            if isinstance(v, Node):
                stack.append(v)
            elif isinstance(v, (list, tuple)):
                for x in v:
                    if isinstance(x, Node):
                        stack.append(x)
                    elif isinstance(x, (list, tuple)):
                        for y in x:
                            if isinstance(y, Node):
                                stack.append(y)
                            elif isinstance(y, (list, tuple)):
                                for z in y:
                                    if isinstance(z, Node):
                                        stack.append(z)


def flatten_type(t: Any) -> List[Tuple[str, str]]:
    from mypy import types as T
    t = T.get_proper_type(t)
    if isinstance(t, T.UnionType):
        out: List[Tuple[str, str]] = []
        for it in t.items:
            for a in flatten_type(it):
                if a not in out:
                    out.append(a)
        return out
    if isinstance(t, T.Instance):
        if t.last_known_value is not None and isinstance(t.last_known_value.value, (str, int, bool)):
            return [("inst", t.type.fullname)]
        return [("inst", t.type.fullname)]
    if isinstance(t, T.NoneType):
        return [("none", "")]
    if isinstance(t, T.AnyType):
        return [("any", "")]
    if isinstance(t, T.LiteralType):
        return [("inst", t.fallback.type.fullname)]
    if isinstance(t, T.TupleType):
        return [("tuple", t.partial_fallback.type.fullname)]
    if isinstance(t, T.TypeType):
        inner = flatten_type(t.item)
        return [("cls", n) for k, n in inner if k == "inst"] or [("other", str(t))]
    if isinstance(t, T.CallableType):
        if t.is_type_obj():
            return [("cls", t.type_object().fullname)]
        return [("callable", t.name or "")]
    if isinstance(t, T.Overloaded):
        it = t.items[0]
        if it.is_type_obj():
            return [("cls", it.type_object().fullname)]
        return [("callable", it.name or "")]
    if isinstance(t, T.TypeVarType):
        return flatten_type(t.upper_bound)
    return [("other", str(t))]
