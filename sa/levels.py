"""Level claimed per property when the tree carries no known finding for it."""
LEVELS = {
    "C01": "proof", "C02": "proof", "C03": "proof", "C05": "proof", "C06": "proof",
    "C07": "proof", "C08": "proof", "C09": "other", "C10": "proof", "C11": "proof",
    "C12": "other", "C13": "other", "C14": "proof", "C15": "other",
    "C16": "translation_validation", "C17": "proof", "C18": "proof", "C19": "proof",
    "C20": "proof",
}
