"""Statement-level control-flow graph over the statement kinds the repository uses,
with dominators by iterative dataflow.  No third-party graph library."""
from __future__ import annotations

import ast
from dataclasses import dataclass, field
from typing import Callable, Dict, Iterable, List, Optional, Set, Tuple


@dataclass
class Node:
    nid: int
    kind: str                   # entry | exit | stmt | test | loop | handler | with
    ast: Optional[ast.AST] = None
    succ: List[int] = field(default_factory=list)
    pred: List[int] = field(default_factory=list)
    label: str = ""             # for exits: 'return' | 'raise' | 'fall'


class CFG:
    def __init__(self, fn: ast.AST) -> None:
        self.fn = fn
        self.nodes: List[Node] = []
        self.entry = self._new("entry")
        self.exit_return = self._new("exit", label="return")
        self.exit_raise = self._new("exit", label="raise")
        self._loops: List[Tuple[int, List[int]]] = []   # (continue target, break sources)
        self._handlers: List[List[int]] = []            # active try handler entries
        body = fn.body if not isinstance(fn, ast.Lambda) else [ast.Return(value=fn.body)]
        ends = self._block(body, [self.entry])
        for e in ends:
            self._edge(e, self.exit_return)
        self.by_ast: Dict[int, int] = {id(n.ast): n.nid for n in self.nodes if n.ast is not None}

    # -- construction ------------------------------------------------------
    def _new(self, kind: str, node: Optional[ast.AST] = None, label: str = "") -> int:
        n = Node(len(self.nodes), kind, node, label=label)
        self.nodes.append(n)
        return n.nid

    def _edge(self, a: int, b: int) -> None:
        if b not in self.nodes[a].succ:
            self.nodes[a].succ.append(b)
            self.nodes[b].pred.append(a)

    def _connect(self, preds: Iterable[int], n: int) -> None:
        for p in preds:
            self._edge(p, n)

    def _exc_edges(self, n: int) -> None:
        """A statement inside a try body may transfer to any enclosing handler."""
        for hs in self._handlers:
            for h in hs:
                self._edge(n, h)

    def _block(self, body: List[ast.stmt], preds: List[int]) -> List[int]:
        cur = list(preds)
        for st in body:
            if not cur:
                break  # unreachable code after return/raise
            cur = self._stmt(st, cur)
        return cur

    def _stmt(self, st: ast.stmt, preds: List[int]) -> List[int]:
        if isinstance(st, ast.If):
            t = self._new("test", st)
            self._connect(preds, t)
            self._exc_edges(t)
            a = self._block(st.body, [t])
            b = self._block(st.orelse, [t]) if st.orelse else [t]
            return a + b
        if isinstance(st, (ast.For, ast.AsyncFor, ast.While)):
            t = self._new("loop", st)
            self._connect(preds, t)
            self._exc_edges(t)
            breaks: List[int] = []
            self._loops.append((t, breaks))
            ends = self._block(st.body, [t])
            self._loops.pop()
            self._connect(ends, t)
            after = self._block(st.orelse, [t]) if st.orelse else [t]
            return after + breaks
        if isinstance(st, ast.Try):
            hentries = [self._new("handler", h) for h in st.handlers]
            self._handlers.append(hentries)
            ends = self._block(st.body, preds)
            self._handlers.pop()
            ends = self._block(st.orelse, ends) if st.orelse else ends
            for h, he in zip(st.handlers, hentries):
                ends = ends + self._block(h.body, [he])
            if st.finalbody:
                ends = self._block(st.finalbody, ends)
            return ends
        if isinstance(st, (ast.With, ast.AsyncWith)):
            w = self._new("with", st)
            self._connect(preds, w)
            self._exc_edges(w)
            return self._block(st.body, [w])
        if isinstance(st, ast.Return):
            n = self._new("stmt", st)
            self._connect(preds, n)
            self._exc_edges(n)
            self._edge(n, self.exit_return)
            return []
        if isinstance(st, ast.Raise):
            n = self._new("stmt", st)
            self._connect(preds, n)
            if self._handlers:
                self._exc_edges(n)
            # a raise inside a try may still escape if no handler matches: keep both
            self._edge(n, self.exit_raise)
            return []
        if isinstance(st, ast.Continue):
            n = self._new("stmt", st)
            self._connect(preds, n)
            if self._loops:
                self._edge(n, self._loops[-1][0])
            return []
        if isinstance(st, ast.Break):
            n = self._new("stmt", st)
            self._connect(preds, n)
            if self._loops:
                self._loops[-1][1].append(n)
            return []
        if isinstance(st, ast.Assert):
            n = self._new("stmt", st)
            self._connect(preds, n)
            self._exc_edges(n)
            self._edge(n, self.exit_raise)
            return [n]
        if isinstance(st, (ast.FunctionDef, ast.AsyncFunctionDef, ast.ClassDef)):
            n = self._new("stmt", st)
            self._connect(preds, n)
            return [n]
        n = self._new("stmt", st)
        self._connect(preds, n)
        self._exc_edges(n)
        return [n]

    # -- queries -------------------------------------------------------------
    def node_of(self, a: ast.AST) -> Optional[int]:
        """CFG node of the statement containing ast node `a` (or `a` itself)."""
        cur: Optional[ast.AST] = a
        while cur is not None:
            nid = self.by_ast.get(id(cur))
            if nid is not None:
                n = self.nodes[nid]
                # an If/For/While node stands for its *test/header* only
                if n.kind in ("test", "loop", "with") and cur is not a:
                    if not self._in_header(cur, a):
                        cur = getattr(cur, "_parent", None)
                        continue
                return nid
            cur = getattr(cur, "_parent", None)
            if cur is self.fn:
                return None
        return None

    @staticmethod
    def _in_header(comp: ast.AST, a: ast.AST) -> bool:
        heads: List[ast.AST] = []
        if isinstance(comp, (ast.If, ast.While)):
            heads = [comp.test]
        elif isinstance(comp, (ast.For, ast.AsyncFor)):
            heads = [comp.target, comp.iter]
        elif isinstance(comp, (ast.With, ast.AsyncWith)):
            heads = [i.context_expr for i in comp.items] + [i.optional_vars for i in comp.items if i.optional_vars]
        for h in heads:
            for n in ast.walk(h):
                if n is a:
                    return True
        return False

    def dominators(self) -> Dict[int, Set[int]]:
        alln = set(range(len(self.nodes)))
        reach = self.reachable(self.entry)
        dom: Dict[int, Set[int]] = {n: set(reach) for n in reach}
        dom[self.entry] = {self.entry}
        changed = True
        order = sorted(reach)
        while changed:
            changed = False
            for n in order:
                if n == self.entry:
                    continue
                ps = [p for p in self.nodes[n].pred if p in reach]
                new = set.intersection(*(dom[p] for p in ps)) if ps else set()
                new = new | {n}
                if new != dom[n]:
                    dom[n] = new
                    changed = True
        return dom

    def must_before(self, gen: Dict[int, Set[str]]) -> Dict[int, Set[str]]:
        """Forward must-analysis: for each node, the facts generated on *every* path from the entry
        to (not including) that node.  gen maps node id -> facts it generates."""
        reach = self.reachable(self.entry)
        universe: Set[str] = set().union(*gen.values()) if gen else set()
        IN: Dict[int, Set[str]] = {n: set(universe) for n in reach}
        IN[self.entry] = set()
        changed = True
        while changed:
            changed = False
            for n in sorted(reach):
                if n == self.entry:
                    continue
                ps = [p for p in self.nodes[n].pred if p in reach]
                new = set.intersection(*((IN[p] | gen.get(p, set())) for p in ps)) if ps else set()
                if new != IN[n]:
                    IN[n] = new
                    changed = True
        return IN

    @staticmethod
    def _defines(a: Optional[ast.AST], var: str) -> bool:
        if a is None:
            return False
        tg: List[ast.AST] = []
        if isinstance(a, ast.Assign):
            tg = list(a.targets)
        elif isinstance(a, (ast.AugAssign, ast.AnnAssign)):
            tg = [a.target]
        elif isinstance(a, (ast.For, ast.AsyncFor)):
            tg = [a.target]
        elif isinstance(a, (ast.With, ast.AsyncWith)):
            tg = [i.optional_vars for i in a.items if i.optional_vars is not None]
        return any(isinstance(x, ast.Name) and x.id == var for t in tg for x in ast.walk(t))

    def reaching_defs(self, nid: int, var: str) -> List[Optional[ast.AST]]:
        """Statements whose definition of `var` may reach node nid (None = the function entry:
        a parameter or an unbound name)."""
        out: List[Optional[ast.AST]] = []
        seen: Set[int] = set()
        stack = list(self.nodes[nid].pred)
        while stack:
            n = stack.pop()
            if n in seen:
                continue
            seen.add(n)
            node = self.nodes[n]
            if node.kind in ("stmt", "loop", "with") and self._defines(node.ast, var):
                out.append(node.ast)
                continue
            if n == self.entry:
                out.append(None)
                continue
            stack.extend(node.pred)
        return out

    def reachable(self, start: int, avoid: Optional[Set[int]] = None) -> Set[int]:
        seen = {start}
        stack = [start]
        while stack:
            n = stack.pop()
            for s in self.nodes[n].succ:
                if s not in seen and not (avoid and s in avoid):
                    seen.add(s)
                    stack.append(s)
        return seen

    def reachable_after(self, start: int) -> Set[int]:
        """Nodes reachable from the successors of start (start itself only via a cycle)."""
        seen: Set[int] = set()
        stack = list(self.nodes[start].succ)
        while stack:
            n = stack.pop()
            if n in seen:
                continue
            seen.add(n)
            stack.extend(self.nodes[n].succ)
        return seen

    def stmt_nodes(self) -> List[Node]:
        return [n for n in self.nodes if n.ast is not None]

    def pruned(self, decide: "Callable[[ast.AST], Optional[bool]]") -> "CFG":
        """A copy in which every `if` whose test `decide` settles keeps only the taken arm."""
        import copy as _copy
        c = _copy.copy(self)
        c.nodes = [Node(n.nid, n.kind, n.ast, list(n.succ), list(n.pred), n.label) for n in self.nodes]
        for n in c.nodes:
            if n.kind != "test" or not isinstance(n.ast, ast.If):
                continue
            v = decide(n.ast.test)
            if v is None:
                continue
            body_first = self.by_ast.get(id(n.ast.body[0])) if n.ast.body else None
            handlers = {h.nid for h in c.nodes if h.kind == "handler"}
            drop = [x for x in n.succ if x not in handlers and ((x != body_first) if v else (x == body_first))]
            for x in drop:
                n.succ.remove(x)
                c.nodes[x].pred.remove(n.nid)
        return c

    def branch_dominates(self, test_nid: int, arm: str, target: int) -> bool:
        """Does every path from entry to `target` go through the given arm
        ('body' | 'orelse') of the If at test_nid?"""
        n = self.nodes[test_nid]
        st = n.ast
        assert isinstance(st, ast.If)
        block = st.body if arm == "body" else st.orelse
        if not block:
            return False
        first = self.by_ast.get(id(block[0]))
        if first is None:
            return False
        dom = self.dominators()
        return first in dom.get(target, set())
