"""Specifications of each layer of measured's algebra, used by E4 when a function of a
higher layer calls into a lower one.  Every specification here is the statement of a
rule that is verified separately on the lower layer's own source (named in brackets).
"""
from __future__ import annotations

import ast
from fractions import Fraction
from typing import Dict, List, Optional

from .absint import (AV, ONE, BoolV, GroupV, IntParam, Interp, LevelV, LogUnitV, MeasV, NotImpl,
                     NumV, ObjV, OpaqueV, PrefixS, QuantV, Spec, TupleV, UnitV, Unsupported, identity)
from .poly import Lin, Poly, Rat


def _lin(v: AV) -> Optional[Lin]:
    return Interp.as_lin(v)


def _inv(l: Lin) -> Lin:
    r = Interp.inverse_param(l)
    if r is None:
        raise Unsupported("root by a non-atomic degree")
    return r


def _num(it: Interp, v: AV) -> Optional[NumV]:
    return it.to_num(v)


def pval(g: GroupV) -> Rat:
    r = Rat.const(1)
    for a, e in g.mono:
        r = r * Rat(Poly({((a, e),): Fraction(1)}))
    return r


# ------------------------------------------------------------------ dimension  [R02.5]
def dim_mul(it: Interp, node: ast.AST, a: List[AV], kw: Dict[str, AV]) -> Optional[AV]:
    if len(a) == 2 and all(isinstance(x, GroupV) and x.kind == "D" for x in a):
        return a[0].mul(a[1])  # type: ignore[union-attr]
    return None


def dim_div(it: Interp, node: ast.AST, a: List[AV], kw: Dict[str, AV]) -> Optional[AV]:
    if len(a) == 2 and all(isinstance(x, GroupV) and x.kind == "D" for x in a):
        return a[0].mul(a[1], -1)  # type: ignore[union-attr]
    return None


def grp_pow(kind: str) -> Spec:
    def f(it: Interp, node: ast.AST, a: List[AV], kw: Dict[str, AV]) -> Optional[AV]:
        if len(a) == 2 and isinstance(a[0], GroupV) and a[0].kind == kind:
            l = _lin(a[1])
            if l is not None:
                return a[0].pow(l)
        return None
    return f


def grp_root(kind: str) -> Spec:
    def f(it: Interp, node: ast.AST, a: List[AV], kw: Dict[str, AV]) -> Optional[AV]:
        if len(a) == 2 and isinstance(a[0], GroupV) and a[0].kind == kind:
            l = _lin(a[1])
            if l is not None:
                return a[0].pow(_inv(l))
        return None
    return f


def dim_as_ratio(it: Interp, node: ast.AST, a: List[AV], kw: Dict[str, AV]) -> Optional[AV]:
    if len(a) == 1 and isinstance(a[0], GroupV) and a[0].kind == "D":
        pos = GroupV("D", tuple((f"{x}+", e) for x, e in a[0].mono), {"pos"})
        neg = GroupV("D", tuple((f"{x}-", e) for x, e in a[0].mono), {"neg"})
        return TupleV([pos, neg])
    return None


# --------------------------------------------------------------------- prefix  [R11.2]
def prefix_mul(it: Interp, node: ast.AST, a: List[AV], kw: Dict[str, AV]) -> Optional[AV]:
    if len(a) != 2:
        return None
    x, y = a
    if isinstance(x, GroupV) and x.kind == "P":
        if isinstance(y, GroupV) and y.kind == "P":
            return x.mul(y)
        if isinstance(y, UnitV):
            return UnitV(y.p.mul(x), y.f, y.d)
        n = _num(it, y)
        if n is not None:
            return QuantV(NumV(n.rat * pval(x), None), ONE)
    if isinstance(x, PrefixS):
        if isinstance(y, PrefixS):
            return PrefixS(Rat.atom("?"), Rat.atom("?"), x.logv + y.logv, "spec-product")
    return None


def prefix_div(it: Interp, node: ast.AST, a: List[AV], kw: Dict[str, AV]) -> Optional[AV]:
    if len(a) == 2 and all(isinstance(x, GroupV) and x.kind == "P" for x in a):
        return a[0].mul(a[1], -1)  # type: ignore[union-attr]
    return None


def prefix_quantify(it: Interp, node: ast.AST, a: List[AV], kw: Dict[str, AV]) -> Optional[AV]:
    if len(a) == 1 and isinstance(a[0], GroupV) and a[0].kind == "P":
        return NumV(pval(a[0]), None)
    if len(a) == 1 and isinstance(a[0], ObjV) and a[0].cls == "LogPrefix":
        return a[0].fields["value"]
    return None


# ----------------------------------------------------------------------- unit  [R01.1 R02.3 R11.1]
def unit_mul(it: Interp, node: ast.AST, a: List[AV], kw: Dict[str, AV]) -> Optional[AV]:
    if len(a) != 2 or not isinstance(a[0], UnitV):
        return None
    x, y = a
    if isinstance(y, UnitV):
        return UnitV(x.p.mul(y.p), x.f.mul(y.f), x.d.mul(y.d))
    n = _num(it, y)
    if n is not None:
        return QuantV(NumV(n.rat, x), x)
    if isinstance(y, GroupV) and y.kind == "P":
        return UnitV(x.p.mul(y), x.f, x.d)
    return None


def unit_div(it: Interp, node: ast.AST, a: List[AV], kw: Dict[str, AV]) -> Optional[AV]:
    if len(a) == 2 and isinstance(a[0], UnitV) and isinstance(a[1], UnitV):
        x, y = a
        return UnitV(x.p.mul(y.p, -1), x.f.mul(y.f, -1), x.d.mul(y.d, -1))
    return None


def unit_pow(it: Interp, node: ast.AST, a: List[AV], kw: Dict[str, AV]) -> Optional[AV]:
    if len(a) == 2 and isinstance(a[0], UnitV):
        l = _lin(a[1])
        if l is not None:
            x = a[0]
            return UnitV(x.p.pow(l), x.f.pow(l), x.d.pow(l))
    return None


def unit_root(it: Interp, node: ast.AST, a: List[AV], kw: Dict[str, AV]) -> Optional[AV]:
    if len(a) == 2 and isinstance(a[0], UnitV):
        l = _lin(a[1])
        if l is not None:
            i = _inv(l)
            x = a[0]
            return UnitV(x.p.pow(i), x.f.pow(i), x.d.pow(i))
    return None


def unit_quantify(it: Interp, node: ast.AST, a: List[AV], kw: Dict[str, AV]) -> Optional[AV]:
    if len(a) == 1 and isinstance(a[0], UnitV):
        x = a[0]
        bare = UnitV(identity("P"), x.f, x.d)
        return QuantV(NumV(pval(x.p), bare), bare)
    return None


# ------------------------------------------------------------------- quantity  [R03.1 R06.*]
def _conv(q: QuantV, u: UnitV) -> QuantV:
    """in_unit axiom (C04): requested unit, unchanged physical value."""
    if q.unit.same(u):
        return QuantV(NumV(q.mag.rat, u, q.mag.decimalish), u)
    return QuantV(NumV(q.value() / u.value(), u, q.mag.decimalish), u)


def q_in_unit(it: Interp, node: ast.AST, a: List[AV], kw: Dict[str, AV]) -> Optional[AV]:
    if len(a) == 2 and isinstance(a[0], QuantV) and isinstance(a[1], UnitV):
        from .absint import Event
        it.events.append(Event("in_unit", node, {"q": a[0], "unit": a[1]}))
        return _conv(a[0], a[1])
    return None


def q_unprefixed(it: Interp, node: ast.AST, a: List[AV], kw: Dict[str, AV]) -> Optional[AV]:
    if len(a) == 1 and isinstance(a[0], QuantV):
        q = a[0]
        bare = UnitV(identity("P"), q.unit.f, q.unit.d)
        return QuantV(NumV(q.mag.rat * pval(q.unit.p), bare, q.mag.decimalish), bare)
    return None


def q_mul(it: Interp, node: ast.AST, a: List[AV], kw: Dict[str, AV]) -> Optional[AV]:
    if len(a) != 2 or not isinstance(a[0], QuantV):
        return None
    x, y = a
    if isinstance(y, QuantV):
        u = UnitV(x.unit.p.mul(y.unit.p), x.unit.f.mul(y.unit.f), x.unit.d.mul(y.unit.d))
        return QuantV(NumV(x.mag.rat * y.mag.rat, u), u)
    if isinstance(y, UnitV):
        u = UnitV(x.unit.p.mul(y.p), x.unit.f.mul(y.f), x.unit.d.mul(y.d))
        return QuantV(NumV(x.mag.rat, u), u)
    n = _num(it, y)
    if n is not None:
        return QuantV(NumV(x.mag.rat * n.rat, x.unit), x.unit)
    return None


def q_div(it: Interp, node: ast.AST, a: List[AV], kw: Dict[str, AV]) -> Optional[AV]:
    if len(a) != 2 or not isinstance(a[0], QuantV):
        return None
    x, y = a
    from .absint import Event
    if isinstance(y, QuantV):
        it.events.append(Event("div", node, {"den": y.mag.rat, "func": "Quantity.__truediv__"}))
        u = UnitV(x.unit.p.mul(y.unit.p, -1), x.unit.f.mul(y.unit.f, -1), x.unit.d.mul(y.unit.d, -1))
        return QuantV(NumV(x.mag.rat / y.mag.rat, u), u)
    if isinstance(y, UnitV):
        u = UnitV(x.unit.p.mul(y.p, -1), x.unit.f.mul(y.f, -1), x.unit.d.mul(y.d, -1))
        return QuantV(NumV(x.mag.rat, u), u)
    n = _num(it, y)
    if n is not None:
        it.events.append(Event("div", node, {"den": n.rat, "func": "Quantity.__truediv__"}))
        return QuantV(NumV(x.mag.rat / n.rat, x.unit), x.unit)
    return None


def q_pow(it: Interp, node: ast.AST, a: List[AV], kw: Dict[str, AV]) -> Optional[AV]:
    if len(a) == 2 and isinstance(a[0], QuantV):
        l = _lin(a[1])
        if l is None:
            return None
        x = a[0]
        m = x.mag.rat.pow_lin(l)
        if m is None:
            raise Unsupported("power of a sum magnitude by a symbolic exponent")
        u = UnitV(x.unit.p.pow(l), x.unit.f.pow(l), x.unit.d.pow(l))
        return QuantV(NumV(m, u), u)
    return None


def q_root(it: Interp, node: ast.AST, a: List[AV], kw: Dict[str, AV]) -> Optional[AV]:
    if len(a) == 2 and isinstance(a[0], QuantV):
        l = _lin(a[1])
        if l is None:
            return None
        i = _inv(l)
        x = a[0]
        m = x.mag.rat.pow_lin(i)
        if m is None:
            if i == Lin(Fraction(1, 2)):
                m = it.heads.sqrt(x.mag.rat)
            else:
                raise Unsupported("root of a sum magnitude by a symbolic degree")
        u = UnitV(x.unit.p.pow(i), x.unit.f.pow(i), x.unit.d.pow(i))
        return QuantV(NumV(m, u), u)
    return None


def q_add(sign: int) -> Spec:
    def f(it: Interp, node: ast.AST, a: List[AV], kw: Dict[str, AV]) -> Optional[AV]:
        if len(a) == 2 and isinstance(a[0], QuantV) and isinstance(a[1], QuantV):
            x, y = a
            yc = _conv(y, x.unit)
            r = x.mag.rat + yc.mag.rat if sign > 0 else x.mag.rat - yc.mag.rat
            return QuantV(NumV(r, x.unit), x.unit)
        return None
    return f


def q_neg(it: Interp, node: ast.AST, a: List[AV], kw: Dict[str, AV]) -> Optional[AV]:
    if len(a) == 1 and isinstance(a[0], QuantV):
        return QuantV(NumV(-a[0].mag.rat, a[0].unit), a[0].unit)
    return None


def q_abs(it: Interp, node: ast.AST, a: List[AV], kw: Dict[str, AV]) -> Optional[AV]:
    if len(a) == 1 and isinstance(a[0], QuantV):
        return QuantV(NumV(it.heads.abs(a[0].mag.rat), a[0].unit), a[0].unit)
    return None


def q_cmp(it: Interp, node: ast.AST, a: List[AV], kw: Dict[str, AV]) -> Optional[AV]:
    return BoolV(None)


def level_quantify(it: Interp, node: ast.AST, a: List[AV], kw: Dict[str, AV]) -> Optional[AV]:
    """[R18.1] level -> quantity: base ** (L * p / k) * reference"""
    if len(a) == 1 and isinstance(a[0], LevelV):
        lv = a[0]
        u = lv.unit
        ex = lv.mag.rat * u.pval / u.k
        return QuantV(NumV(Rat.atom("EXP{" + repr(ex) + "}") * u.reference.mag.rat, u.reference.unit), u.reference.unit)
    return None


# ------------------------------------------------------------ Decimal helpers  [R03.2]
def helper(op: str) -> Spec:
    def f(it: Interp, node: ast.AST, a: List[AV], kw: Dict[str, AV]) -> Optional[AV]:
        if len(a) != 2:
            return None
        x, y = _num(it, a[0]), _num(it, a[1])
        if x is None or y is None:
            return OpaqueV(f"_{op.lower()} on non-numbers")
        from .model import FuncInfo
        dummy = it.prog.functions.get("_add") or next(iter(it.prog.functions.values()))
        return it.num_op(dummy, node, op, x, y)
    return f


def base_specs() -> Dict[str, Spec]:
    s: Dict[str, Spec] = {
        "_add": helper("Add"), "_sub": helper("Sub"), "_mul": helper("Mult"),
        "_div": helper("Div"), "_pow": helper("Pow"),
    }
    return s


def dimension_specs() -> Dict[str, Spec]:
    return {
        "Dimension.__mul__": dim_mul, "Dimension._multiply": dim_mul,
        "Dimension.__truediv__": dim_div, "Dimension._divide": dim_div,
        "Dimension.__pow__": grp_pow("D"), "Dimension.root": grp_root("D"),
        "Dimension.as_ratio": dim_as_ratio,
    }


def prefix_specs() -> Dict[str, Spec]:
    return {
        "Prefix.__mul__": prefix_mul, "Prefix.__truediv__": prefix_div,
        "Prefix.__pow__": grp_pow("P"), "Prefix.root": grp_root("P"),
        "Prefix.quantify": prefix_quantify,
    }


def unit_specs() -> Dict[str, Spec]:
    return {
        "Unit.__mul__": unit_mul, "Unit._multiply": unit_mul,
        "Unit.__truediv__": unit_div, "Unit._divide": unit_div,
        "Unit.__pow__": unit_pow, "Unit.root": unit_root, "Unit.quantify": unit_quantify,
    }


def quantity_specs() -> Dict[str, Spec]:
    return {
        "Quantity.__mul__": q_mul, "Quantity.__truediv__": q_div, "Quantity.__pow__": q_pow,
        "Quantity.root": q_root, "Quantity.__add__": q_add(1), "Quantity.__sub__": q_add(-1),
        "Quantity.__neg__": q_neg, "Quantity.__abs__": q_abs, "Quantity.in_unit": q_in_unit,
        "Quantity.unprefixed": q_unprefixed, "conversions.convert": q_in_unit,
        "Quantity.__eq__": q_cmp, "Quantity.__lt__": q_cmp, "Quantity.__le__": q_cmp,
        "Quantity.__gt__": q_cmp, "Quantity.__ge__": q_cmp, "Quantity.__ne__": q_cmp,
        "Level.quantify": level_quantify,
    }


def layer(*names: str) -> Dict[str, Spec]:
    out = dict(base_specs())
    table = {"dimension": dimension_specs, "prefix": prefix_specs, "unit": unit_specs, "quantity": quantity_specs}
    for n in names:
        out.update(table[n]())
    return out
