"""Rules shared by C01/C02/C11: each operator of the Dimension, Prefix and Unit layers
computes the group operation its name denotes, component by component."""
from __future__ import annotations

import ast
from dataclasses import dataclass
from typing import Any, Callable, Dict, List, Optional, Tuple

from . import specs
from .absint import (AV, GroupV, IntParam, Interp, NotImpl, NumV, OpaqueV, Outcome, PrefixS, QuantV,
                     TupleV, UnitV, Unsupported)
from .calls import Resolver
from .core import AnalysisError, Report
from .e4util import Run, default_arg_sets, run_function
from .model import Program
from .poly import Lin, Rat

# (function, specification, which operand kinds select the arm that is checked)
DIM_OPS = {
    "Dimension._multiply": specs.dim_mul, "Dimension._divide": specs.dim_div,
    "Dimension.__mul__": specs.dim_mul, "Dimension.__truediv__": specs.dim_div,
    "Dimension.__pow__": specs.grp_pow("D"), "Dimension.root": specs.grp_root("D"),
}
UNIT_OPS = {
    "Unit._multiply": specs.unit_mul, "Unit._divide": specs.unit_div,
    "Unit.__mul__": specs.unit_mul, "Unit.__truediv__": specs.unit_div,
    "Unit.__pow__": specs.unit_pow, "Unit.root": specs.unit_root,
}
PREFIX_OPS = {
    "Prefix.__mul__": +1, "Prefix.__truediv__": -1, "Prefix.__pow__": "pow", "Prefix.root": "root",
}


def _args_list(fi_params: List[str], args: Dict[str, AV]) -> List[AV]:
    return [args[p] for p in fi_params if p in args]


def substitute_path(r: Rat, path: List[Tuple[str, bool]]) -> Rat:
    """Apply the equalities a path condition states to a specification's log-value."""
    flat: List[Tuple[str, bool]] = []
    for text, truth in path:
        # a helper's own path, folded into one note: `<Prefix._combine: not other.base == 0 & other.base == self.base>`
        if truth and text.startswith("<") and text.endswith(">") and ": " in text:
            for part in text[text.index(": ") + 2:-1].split(" & "):
                part = part.strip()
                flat.append((part[4:], False) if part.startswith("not ") else (part, True))
        else:
            flat.append((text, truth))
    for text, truth in flat:
        t = text.replace(" ", "")
        if not truth:
            continue
        if t.endswith(".base==0"):
            who = t[: -len(".base==0")]
            a = f"e:{who}"
            if a in r.atoms():
                r = r.subst(a, Rat.const(0))
        elif ".base==" in t and t.count(".base") == 2 and t.count("==") == 1:
            l, rr = t.split("==")
            x, y = l[: -len(".base")], rr[: -len(".base")]
            ax, ay = f"ln(b:{x})", f"ln(b:{y})"
            if ax in r.atoms():
                r = r.subst(ax, Rat.atom(ay))
    return r


def _atomic_conditions(text: str, truth: bool) -> List[List[Tuple[str, str, Any]]]:
    """Alternatives (a true disjunction holds under each disjunct separately), each a
    list of substitutions: ('param', name, Fraction) | ('identity', name, None)."""
    try:
        node = ast.parse(text, mode="eval").body
    except SyntaxError:
        return [[]]

    def atom(n: ast.AST, t: bool) -> Optional[Tuple[str, str, Any]]:
        neg = False
        while isinstance(n, ast.UnaryOp) and isinstance(n.op, ast.Not):
            neg = not neg
            n = n.operand
        t = t != neg
        if isinstance(n, ast.Compare) and len(n.ops) == 1 and isinstance(n.left, ast.Attribute) and isinstance(n.left.value, ast.Name) \
                and n.left.attr in ("prefix", "dimension") and isinstance(n.comparators[0], ast.Name) \
                and n.comparators[0].id in ("IdentityPrefix", "Number"):
            # `self.prefix is IdentityPrefix`: that one component of the operand is the identity
            op = n.ops[0]
            eq = (isinstance(op, (ast.Eq, ast.Is)) and t) or (isinstance(op, (ast.NotEq, ast.IsNot)) and not t)
            return ("component", ("P:" if n.left.attr == "prefix" else "D:") + n.left.value.id, None) if eq else None
        if isinstance(n, ast.Compare) and len(n.ops) == 1 and isinstance(n.left, ast.Name):
            op, r = n.ops[0], n.comparators[0]
            eq = (isinstance(op, (ast.Eq, ast.Is)) and t) or (isinstance(op, (ast.NotEq, ast.IsNot)) and not t)
            if not eq:
                return None
            if isinstance(r, ast.Constant) and isinstance(r.value, int) and not isinstance(r.value, bool):
                return ("param", n.left.id, r.value)
            if isinstance(r, ast.Name) and r.id in ("One", "Number", "IdentityPrefix"):
                return ("identity", n.left.id, None)
        return None
    if isinstance(node, ast.BoolOp):
        parts = [atom(v, truth) for v in node.values]
        if (isinstance(node.op, ast.Or) and truth) or (isinstance(node.op, ast.And) and not truth):
            return [[p] for p in parts if p is not None] or [[]]
        # conjunction that holds / disjunction that fails: all atoms hold
        return [[p for p in parts if p is not None]]
    a = atom(node, truth)
    return [[a]] if a is not None else [[]]


def path_alternatives(path: List[Tuple[str, bool]]) -> List[List[Tuple[str, str, Any]]]:
    alts: List[List[Tuple[str, str, Any]]] = [[]]
    for text, truth in path:
        new = []
        for cur in alts:
            for extra in _atomic_conditions(text, truth):
                new.append(cur + extra)
        alts = new[:16]
    return alts


def subst_mono(mono: Any, subs: List[Tuple[str, str, Any]]) -> Any:
    out = []
    for a, e in mono:
        drop = False
        for kind, name, val in subs:
            if kind == "identity" and a.split(":", 1)[-1].rstrip("+-") == name:
                drop = True
            if kind == "component" and a.rstrip("+-") == name:
                drop = True
            if kind == "param":
                t = dict(e.t)
                c = e.c
                if name in t:
                    c += t.pop(name) * val
                inv = "1/" + name
                if inv in t and val != 0:
                    c += t.pop(inv) / val
                e = Lin(c, t)
        if not drop and not e.is_zero():
            out.append((a, e))
    return tuple(sorted(out, key=lambda x: x[0]))


def subst_value(v: AV, subs: List[Tuple[str, str, Any]]) -> AV:
    if isinstance(v, UnitV):
        return UnitV(GroupV("P", subst_mono(v.p.mono, subs)), GroupV("F", subst_mono(v.f.mono, subs)),
                     GroupV("D", subst_mono(v.d.mono, subs)))
    if isinstance(v, GroupV):
        return GroupV(v.kind, subst_mono(v.mono, subs), set(v.flags), v.vec)
    return v


def check_group_ops(rep: Report, rid: str, prog: Program, resolver: Resolver, table: Dict[str, Any],
                    layer: str, layers: Tuple[str, ...], component: Optional[str] = None) -> None:
    """For each operator: every non-NotImplemented return equals the specification."""
    for qual, spec in table.items():
        fi = prog.func(qual)
        params = fi.params()
        n_checked = 0
        for args in default_arg_sets(prog, resolver, qual, layer):
            argv = _args_list(params, args)
            want = spec(Interp(prog, resolver, {}), fi.node, argv, {})
            if want is None or not isinstance(want, (UnitV, GroupV)):
                continue  # this operand kind is not the group operation (e.g. Unit * number)
            try:
                run = run_function(prog, resolver, qual, layers, args)
            except Unsupported as e:
                raise AnalysisError(f"{qual}: {e}")
            for o in run.outcomes:
                if o.kind != "return" or isinstance(o.value, NotImpl):
                    continue
                got = o.value
                arm = "&".join(("" if v else "not ") + t for t, v in o.path)
                key = f"{qual}[{','.join(type(a).__name__ for a in argv[1:])}]" + (f"|{arm}" if arm else "")
                ok, why = True, ""
                for subs in path_alternatives(o.path):
                    zero_root = [n for k, n, v in subs if k == "param" and v == 0 and f"1/{n}" in repr(want)]
                    if zero_root:
                        # x.root(0): the quotient is undefined; the documented result is the identity
                        ok = (isinstance(got, UnitV) and not got.p.mono and not got.f.mono and not got.d.mono) or \
                             (isinstance(got, GroupV) and not got.mono)
                        why = "root of degree 0 must be the identity element"
                        if not ok:
                            break
                        continue
                    ok, why = same_group_value(subst_value(got, subs), subst_value(want, subs), component, o.trivial)
                    if not ok:
                        break
                n_checked += 1
                rep.check(rid, key, ok, f"{qual} returns {describe(got)} where the group operation is {describe(want)}: {why}",
                          fi.where(o.node), note=describe(got))
        if n_checked == 0:
            raise AnalysisError(f"{qual}: no return value could be compared with its specification")


def mono_equal_mod(a: Any, b: Any, kind: str, trivial: Any) -> bool:
    """a == b, or they differ by a group element the path condition states to be trivial
    (an `if not factors:` arm: the factor map - and with it its dimension image - is empty)."""
    if a == b:
        return True
    from .poly import mono_mul, mono_pow
    inv = mono_pow(b, Lin(-1))
    if inv is None:
        return False
    q = mono_mul(a, inv)
    for k, t in trivial or []:
        cands = [t]
        if k == "F" and kind == "D":
            cands = [tuple(sorted((("D:" + x[2:] if x.startswith("F:") else x, e) for x, e in t), key=lambda z: z[0]))]
        elif k != kind:
            continue
        for c in cands:
            ci = mono_pow(c, Lin(-1))
            if q == c or (ci is not None and q == ci):
                return True
    return False


def same_group_value(got: AV, want: AV, component: Optional[str], trivial: Any = None) -> Tuple[bool, str]:
    if isinstance(want, UnitV):
        if not isinstance(got, UnitV):
            return False, f"result is {type(got).__name__}, not a unit"
        comps = {"p": (got.p, want.p), "f": (got.f, want.f), "d": (got.d, want.d)}
        for name, (g, w) in comps.items():
            if component and name != component:
                continue
            if not mono_equal_mod(g.mono, w.mono, name.upper(), trivial):
                return False, f"{ {'p': 'prefix', 'f': 'factor', 'd': 'dimension'}[name] } component is {g.mono}, expected {w.mono}"
        return True, ""
    if isinstance(want, GroupV):
        if not isinstance(got, GroupV):
            return False, f"result is {type(got).__name__}"
        return mono_equal_mod(got.mono, want.mono, want.kind, trivial), f"{got.mono} vs {want.mono}"
    return False, "uncomparable"


def describe(v: Any) -> str:
    if isinstance(v, UnitV):
        return f"Unit(prefix={_m(v.p.mono)}, factors={_m(v.f.mono)}, dimension={_m(v.d.mono)})"
    if isinstance(v, GroupV):
        return f"{v.kind}{_m(v.mono)}"
    if isinstance(v, PrefixS):
        return f"Prefix(log-value {v.logv!r})"
    if isinstance(v, QuantV):
        return f"Quantity({v.mag.rat!r} in {describe(v.unit)})"
    if isinstance(v, NumV):
        return f"Num({v.rat!r})"
    return type(v).__name__


def _m(mono: Any) -> str:
    if not mono:
        return "1"
    return "*".join(f"{a}^({e})" if e != Lin(1) else a for a, e in mono)


def check_prefix_ops(rep: Report, rid: str, prog: Program, resolver: Resolver) -> None:
    """Prefix.__mul__/__truediv__/__pow__/root on prefix operands: the log-value
    (exponent * ln base) of the result is the sum / difference / multiple of the
    operands' log-values, under each arm's path condition."""
    for qual, kind in PREFIX_OPS.items():
        fi = prog.func(qual)
        n = 0
        for args in default_arg_sets(prog, resolver, qual, "prefix"):
            others = [v for k, v in args.items() if k != "self"]
            if kind in (1, -1) and not (others and isinstance(others[0], PrefixS)):
                continue
            try:
                run = run_function(prog, resolver, qual, ("dimension",), args)
            except Unsupported as e:
                raise AnalysisError(f"{qual}: {e}")
            me = args["self"]
            assert isinstance(me, PrefixS)
            for o in run.outcomes:
                if o.kind != "return" or isinstance(o.value, NotImpl):
                    continue
                got = o.value
                if kind in (1, -1):
                    ot = others[0]
                    assert isinstance(ot, PrefixS)
                    want = me.logv + ot.logv if kind == 1 else me.logv - ot.logv
                elif kind == "pow":
                    p = others[0]
                    want = me.logv * Rat.atom(p.name if isinstance(p, IntParam) else "power")
                else:
                    p = others[0]
                    nm = p.name if isinstance(p, IntParam) else "degree"
                    if any(t.replace(" ", "") == f"{nm}==0" and v for t, v in o.path):
                        want = Rat.const(0)
                    else:
                        want = me.logv / Rat.atom(nm)
                want = substitute_path(want, o.path)
                if isinstance(got, PrefixS):
                    glog = got.logv
                elif isinstance(got, GroupV) and got.kind == "P" and not got.mono:
                    glog = Rat.const(0)   # IdentityPrefix
                else:
                    raise AnalysisError(f"{qual} returns {describe(got)} ({getattr(got, 'why', '')}) on arm "
                                        f"{[t for t, v in o.path if v]}: outside the interpreted subset")
                glog = substitute_path(glog, o.path)
                arm = "&".join(("" if v else "not ") + t for t, v in o.path) or "-"
                n += 1
                rep.check(rid, f"{qual}|{arm}", glog == want,
                          f"log-value of the result is {glog!r}; the group operation requires {want!r}",
                          fi.where(o.node), note=repr(glog))
        if n == 0:
            raise AnalysisError(f"{qual}: no prefix arm analysed")
