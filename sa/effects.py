"""E2 - effect analysis: shared mutable locations read and written per function, and
E3 - exception flow: which exception classes may escape a function.
Both are closed over E1's resolved (context-pruned) call graph."""
from __future__ import annotations

import ast
from dataclasses import dataclass, field
from typing import Dict, Iterable, List, Optional, Set, Tuple

from .calls import Reach, Resolver
from .core import AnalysisError
from .model import FuncInfo, Program

REGISTRY_ATTRS = {"_known", "_by_name", "_by_symbol", "_base", "_fundamental"}
NAMING_ATTRS = {"_by_name", "_by_symbol", "_base", "_fundamental"}
MUTATORS = {"append", "extend", "add", "update", "pop", "remove", "clear", "setdefault", "insert", "discard", "popitem", "sort", "reverse"}


@dataclass
class Write:
    func: str
    node: ast.AST
    location: str        # "Unit._by_name" / "conversions._ratios" / "attr:names"
    how: str             # 'store' | 'delete' | 'mutator:<name>' | 'augassign'


def module_mutable_globals(prog: Program, short: str) -> Dict[str, ast.AST]:
    """Module-level names bound at import to a mutable container literal/constructor."""
    mi = prog.module(short)
    out: Dict[str, ast.AST] = {}
    for name, sts in mi.globals_assigned.items():
        for st in sts:
            v = st.value if isinstance(st, (ast.Assign, ast.AnnAssign)) else None
            if v is None:
                continue
            if isinstance(v, (ast.Dict, ast.List, ast.Set, ast.DictComp, ast.ListComp, ast.SetComp)):
                out[name] = st
            elif isinstance(v, ast.Call) and isinstance(v.func, ast.Name) and v.func.id in ("dict", "list", "set", "defaultdict", "OrderedDict", "deque", "Counter"):
                out[name] = st
    return out


def _class_of_receiver(prog: Program, resolver: Resolver, fi: FuncInfo, recv: ast.AST) -> Optional[str]:
    """`cls` / `self` / ClassName / typed expression -> class key."""
    if isinstance(recv, ast.Name):
        if recv.id in ("cls", "self") and fi.cls:
            return fi.cls if not fi.module else f"{fi.module}.{fi.cls}"
        mi = prog.modules[fi.module]
        k = prog.resolve_name(mi, recv.id)
        if k and k in prog.classes:
            return k
    for kind, full in resolver.expr_alts(fi, recv):
        k = prog.class_key(full)
        if k:
            return k
    return None


_ALIAS_CACHE: Dict[int, Dict[str, List[ast.AST]]] = {}


def local_aliases(fi: FuncInfo) -> Dict[str, List[ast.AST]]:
    """Local name -> the expressions it is bound to by plain (or pairwise tuple) assignment."""
    c = _ALIAS_CACHE.get(id(fi.node))
    if c is not None:
        return c
    out: Dict[str, List[ast.AST]] = {}
    for n in Resolver._own_nodes(fi.node):
        if not isinstance(n, ast.Assign):
            continue
        for t in n.targets:
            if isinstance(t, ast.Name):
                out.setdefault(t.id, []).append(n.value)
            elif isinstance(t, (ast.Tuple, ast.List)) and isinstance(n.value, (ast.Tuple, ast.List)) and len(t.elts) == len(n.value.elts):
                for a, b in zip(t.elts, n.value.elts):
                    if isinstance(a, ast.Name):
                        out.setdefault(a.id, []).append(b)
    _ALIAS_CACHE[id(fi.node)] = out
    return out


def is_alias_binding(n: ast.AST) -> bool:
    """The Load of a registry that only gives it a local name (`by_name = self._by_name`)."""
    p = getattr(n, "_parent", None)
    if isinstance(p, ast.Assign) and p.value is n and all(isinstance(t, ast.Name) for t in p.targets):
        return True
    if isinstance(p, (ast.Tuple, ast.List)):
        pp = getattr(p, "_parent", None)
        if isinstance(pp, ast.Assign) and pp.value is p and all(isinstance(t, (ast.Tuple, ast.List)) and all(isinstance(x, ast.Name) for x in t.elts)
                                                                for t in pp.targets):
            return True
    return False


def location_of(prog: Program, resolver: Resolver, fi: FuncInfo, e: ast.AST, _depth: int = 0) -> Optional[str]:
    """Shared location denoted by expression e (the container itself), or None."""
    if isinstance(e, ast.Name) and _depth < 3:
        al = local_aliases(fi).get(e.id)
        if al and e.id not in fi.params():
            locs = {location_of(prog, resolver, fi, v, _depth + 1) for v in al if not (isinstance(v, ast.Name) and v.id == e.id)}
            locs.discard(None)
            if len(locs) == 1:
                return locs.pop()
    if isinstance(e, ast.Attribute) and e.attr in REGISTRY_ATTRS:
        c = _class_of_receiver(prog, resolver, fi, e.value)
        return f"{c or '?'}.{e.attr}"
    if isinstance(e, ast.Attribute) and isinstance(e.value, ast.Name) and (e.value.id in ("cls", "self") or e.value.id in prog.classes):
        # any other class-level mutable container (a scratch dict shared by all calls)
        c = _class_of_receiver(prog, resolver, fi, e.value)
        ci = prog.classes.get(c) if c else None
        if ci is not None and e.attr in ci.class_attrs:
            v = getattr(ci.class_attrs[e.attr], "value", ci.class_attrs[e.attr])
            if isinstance(v, (ast.Dict, ast.List, ast.Set, ast.DictComp, ast.ListComp, ast.SetComp)) or \
                    (isinstance(v, ast.Call) and ast.unparse(v.func).split(".")[-1] in ("dict", "list", "set", "defaultdict", "OrderedDict", "deque", "Counter", "WeakValueDictionary")):
                return f"{c}.{e.attr}"
    if isinstance(e, ast.Name):
        mi = prog.modules[fi.module]
        if e.id in module_mutable_globals(prog, fi.module) and e.id not in resolver._local_names(fi):
            return f"{fi.module or 'measured'}.{e.id}"
        if e.id in mi.imports:
            m, attr = mi.imports[e.id]
            if not m.startswith("<ext>") and attr and m in prog.modules and attr in module_mutable_globals(prog, m):
                return f"{m or 'measured'}.{attr}"
    if isinstance(e, ast.Attribute) and isinstance(e.value, ast.Name):
        mi = prog.modules[fi.module]
        base = prog.resolve_name(mi, e.value.id)
        if base and base.startswith("<module>"):
            m = base[len("<module>"):]
            if m in prog.modules and e.attr in module_mutable_globals(prog, m):
                return f"{m or 'measured'}.{e.attr}"
    if isinstance(e, ast.Subscript):
        return location_of(prog, resolver, fi, e.value)
    return None


def writes_in(prog: Program, resolver: Resolver, qual: str) -> List[Write]:
    fi = prog.functions[qual]
    out: List[Write] = []
    for n in Resolver._own_nodes(fi.node):
        if isinstance(n, (ast.Assign, ast.AnnAssign, ast.AugAssign)):
            tg = n.targets if isinstance(n, ast.Assign) else [n.target]
            for t in tg:
                for x in (t.elts if isinstance(t, (ast.Tuple, ast.List)) else [t]):
                    if isinstance(x, ast.Subscript):
                        loc = location_of(prog, resolver, fi, x.value)
                        if loc:
                            out.append(Write(qual, n, loc, "augassign" if isinstance(n, ast.AugAssign) else "store"))
                    elif isinstance(x, ast.Attribute):
                        if x.attr in REGISTRY_ATTRS:
                            loc = location_of(prog, resolver, fi, x)
                            out.append(Write(qual, n, loc or f"?.{x.attr}", "rebind"))
                        elif x.attr in ("name", "symbol", "names", "symbols"):
                            out.append(Write(qual, n, f"attr:{x.attr}", "store"))
                    elif isinstance(x, ast.Name) and isinstance(n, (ast.Assign, ast.AugAssign)):
                        # rebinding a module global via `global`
                        pass
        elif isinstance(n, ast.Delete):
            for t in n.targets:
                if isinstance(t, ast.Subscript):
                    loc = location_of(prog, resolver, fi, t.value)
                    if loc:
                        out.append(Write(qual, n, loc, "delete"))
        elif isinstance(n, ast.Call) and isinstance(n.func, ast.Attribute) and n.func.attr in MUTATORS:
            loc = location_of(prog, resolver, fi, n.func.value)
            if loc:
                out.append(Write(qual, n, loc, f"mutator:{n.func.attr}"))
    return out


def reads_in(prog: Program, resolver: Resolver, qual: str) -> List[Tuple[str, ast.AST]]:
    fi = prog.functions[qual]
    out: List[Tuple[str, ast.AST]] = []
    for n in Resolver._own_nodes(fi.node):
        if isinstance(n, (ast.Name, ast.Attribute)) and isinstance(getattr(n, "ctx", None), ast.Load):
            if is_alias_binding(n):
                continue   # naming the container is not reading it; uses of the alias are
            loc = location_of(prog, resolver, fi, n)
            if loc:
                out.append((loc, n))
    return out


# ------------------------------------------------------------------------ E3
BUILTIN_PARENTS = {
    "BaseException": None, "Exception": "BaseException", "ArithmeticError": "Exception",
    "ZeroDivisionError": "ArithmeticError", "OverflowError": "ArithmeticError", "AssertionError": "Exception",
    "AttributeError": "Exception", "LookupError": "Exception", "KeyError": "LookupError", "IndexError": "LookupError",
    "TypeError": "Exception", "ValueError": "Exception", "RuntimeError": "Exception", "RecursionError": "RuntimeError",
    "NotImplementedError": "RuntimeError", "StopIteration": "Exception", "ImportError": "Exception", "OSError": "Exception",
    "UnicodeError": "ValueError", "SystemExit": "BaseException", "NameError": "Exception",
}


class ExcHierarchy:
    def __init__(self, prog: Program, extra: Optional[Dict[str, Optional[str]]] = None) -> None:
        self.parent: Dict[str, Optional[str]] = dict(BUILTIN_PARENTS)
        for key, ci in prog.classes.items():
            for b in ci.bases:
                bn = b.split(".")[-1].split("[")[0]
                if bn in self.parent or bn.endswith("Error") or bn.endswith("Exception"):
                    self.parent[ci.name] = bn
        if extra:
            self.parent.update(extra)

    def is_sub(self, c: str, p: str) -> bool:
        seen = 0
        cur: Optional[str] = c
        while cur is not None and seen < 50:
            if cur == p:
                return True
            cur = self.parent.get(cur)
            seen += 1
        return False

    def known(self, c: str) -> bool:
        return c in self.parent


@dataclass
class RaiseSite:
    func: str
    node: ast.AST
    exc: str
    kind: str          # 'raise' | 'assert' | 'reraise'


def exc_name(e: Optional[ast.AST]) -> str:
    if e is None:
        return "<reraise>"
    if isinstance(e, ast.Call):
        e = e.func
    return ast.unparse(e).split(".")[-1]


def handler_yields(fn: ast.AST, h: ast.ExceptHandler, text: str = "NotImplemented") -> bool:
    """The handler makes the function return `text`: `return NotImplemented` as its last statement, or `result = NotImplemented`
    with every later `return` of the function returning that very name, not reassigned after the try statement."""
    if not h.body:
        return False
    last = h.body[-1]
    if isinstance(last, ast.Return):
        return ast.unparse(last.value or ast.Constant(0)) == text
    if isinstance(last, ast.Assign) and len(last.targets) == 1 and isinstance(last.targets[0], ast.Name) and ast.unparse(last.value) == text:
        nm = last.targets[0].id
        tr = getattr(h, "_parent", None)
        end = getattr(tr, "end_lineno", None) or getattr(h, "end_lineno", 0)
        later_rets = [r for r in ast.walk(fn) if isinstance(r, ast.Return) and r.lineno > end]
        later_stores = [x for x in ast.walk(fn) if isinstance(x, ast.Name) and isinstance(x.ctx, ast.Store) and x.id == nm and x.lineno > end]
        return bool(later_rets) and not later_stores and all(isinstance(r.value, ast.Name) and r.value.id == nm for r in later_rets)
    return False


def handlers_around(fi: FuncInfo, node: ast.AST) -> List[List[str]]:
    """Exception names caught by each enclosing try whose *body* contains node (innermost first)."""
    out: List[List[str]] = []
    child = node
    p = getattr(node, "_parent", None)
    while p is not None and p is not fi.node:
        if isinstance(p, ast.Try) and any(child is s for s in p.body):
            names: List[str] = []
            for h in p.handlers:
                if h.type is None:
                    names.append("BaseException")
                elif isinstance(h.type, ast.Tuple):
                    names += [exc_name(x) for x in h.type.elts]
                else:
                    names.append(exc_name(h.type))
            out.append(names)
        child = p
        p = getattr(p, "_parent", None)
    return out


def table_aliases(fn: ast.AST, attr: str = "_known") -> Set[str]:
    """Local names bound to `<x>.<attr>` inside fn (`known = cls._known`)."""
    return {n.targets[0].id for n in ast.walk(fn) if isinstance(n, ast.Assign) and len(n.targets) == 1
            and isinstance(n.targets[0], ast.Name) and isinstance(n.value, ast.Attribute) and n.value.attr == attr}


def is_table(e: ast.AST, aliases: Set[str], attr: str = "_known") -> bool:
    return (isinstance(e, ast.Attribute) and e.attr == attr) or (isinstance(e, ast.Name) and e.id in aliases)


def _raised_class(prog: Program, fi: FuncInfo, e: Optional[ast.AST], depth: int = 0) -> str:
    """The class of `raise <e>`: the expression itself, what a same-module exception factory returns
    (`raise _no_conversion(a, b)` with `def _no_conversion(..): return ConversionNotFound(..)`), or the single value a
    local was bound to (`error = ValueError(..); raise error`)."""
    if e is None:
        return "<reraise>"
    if isinstance(e, ast.Call) and isinstance(e.func, ast.Name) and depth < 2:
        mi = prog.modules[fi.module]
        q = mi.functions.get(e.func.id)
        if q is not None and q in prog.functions:
            h = prog.functions[q]
            rets = [r.value for r in ast.walk(h.node) if isinstance(r, ast.Return) and r.value is not None]
            names = {_raised_class(prog, h, r, depth + 1) for r in rets}
            if len(names) == 1:
                return names.pop()
    if isinstance(e, ast.Name) and depth < 2 and e.id not in fi.params():
        vals = [n.value for n in Resolver._own_nodes(fi.node) if isinstance(n, ast.Assign) and len(n.targets) == 1
                and isinstance(n.targets[0], ast.Name) and n.targets[0].id == e.id]
        if len(vals) == 1 and isinstance(vals[0], ast.Call):
            return _raised_class(prog, fi, vals[0], depth + 1)
    return exc_name(e)


def raise_sites(prog: Program, qual: str) -> List[RaiseSite]:
    fi = prog.functions[qual]
    out = []
    for n in Resolver._own_nodes(fi.node):
        if isinstance(n, ast.Raise):
            out.append(RaiseSite(qual, n, _raised_class(prog, fi, n.exc), "raise" if n.exc is not None else "reraise"))
        elif isinstance(n, ast.Assert):
            out.append(RaiseSite(qual, n, "AssertionError", "assert"))
    return out


class ExcFlow:
    """May-escape sets of explicitly raised exception classes over a reachable set."""

    def __init__(self, prog: Program, resolver: Resolver, reach: Reach, hier: Optional[ExcHierarchy] = None) -> None:
        self.prog, self.r, self.reach = prog, resolver, reach
        self.h = hier or ExcHierarchy(prog)
        self.escapes: Dict[str, Dict[str, RaiseSite]] = {f: {} for f in reach.reached}
        self._solve()

    def _caught(self, exc: str, handlers: List[List[str]]) -> bool:
        for names in handlers:
            for c in names:
                if self.h.is_sub(exc, c) or c == exc:
                    return True
        return False

    def _solve(self) -> None:
        own: Dict[str, List[RaiseSite]] = {}
        for f in self.reach.reached:
            fi = self.prog.functions[f]
            lst = []
            for rs in raise_sites(self.prog, f):
                if not self.reach.feasible_node(f, rs.node):
                    continue
                if rs.kind == "reraise":
                    continue
                if self._caught(rs.exc, handlers_around(fi, rs.node)):
                    continue
                lst.append(rs)
            own[f] = lst
            for rs in lst:
                self.escapes[f].setdefault(rs.exc, rs)
        changed = True
        guard = 0
        while changed:
            guard += 1
            if guard > 500:
                raise AnalysisError("exception flow did not converge")
            changed = False
            for f in self.reach.reached:
                fi = self.prog.functions[f]
                for cs in self.reach.sites.get(f, []):
                    hs = handlers_around(fi, cs.node)
                    for t in cs.targets:
                        for exc, rs in self.escapes.get(t, {}).items():
                            if exc in self.escapes[f]:
                                continue
                            if self._caught(exc, hs):
                                continue
                            self.escapes[f][exc] = rs
                            changed = True
