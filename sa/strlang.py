"""E6(e) - string-language abstraction of the formatter.

The string-producing functions of formatting.py are translated, from their AST and
mypy's expression types, into a small regular language over *piece classes*
(PREFIX_SYMBOL, UNIT_SYMBOL, INT, FLOAT, DECIMAL, SUP_INT, ...) and literals, with
one-or-more repetition for `"sep".join(<genexp>)`.  Nothing is executed: a piece class
stands for `str()` of a value of a static type, or for a registered symbol.
"""
from __future__ import annotations

import ast
import itertools
from dataclasses import dataclass
from typing import Any, Dict, List, Optional, Sequence, Set, Tuple

from .calls import Resolver
from .core import AnalysisError
from .model import FuncInfo, Program

# items: ('lit', text) | ('cls', NAME) | ('rep', Lang, sep)
Item = Tuple[Any, ...]
Alt = Tuple[Item, ...]


@dataclass
class ListLang:
    """A list of strings under construction: its elements' language, and whether it may be empty."""
    elem: Optional["Lang"]
    optional: bool = True
    chars: Optional["Lang"] = None     # a character map of str(x): the joined result is this language


@dataclass
class Lang:
    alts: List[Alt]

    @staticmethod
    def lit(t: str) -> "Lang":
        return Lang([(("lit", t),)]) if t else Lang([()])

    @staticmethod
    def cls(n: str) -> "Lang":
        return Lang([(("cls", n),)])

    def __add__(self, o: "Lang") -> "Lang":
        out = []
        for a in self.alts:
            for b in o.alts:
                out.append(_norm(a + b))
        return Lang(_dedupe(out))

    def __or__(self, o: "Lang") -> "Lang":
        return Lang(_dedupe(self.alts + o.alts))

    def may_be_empty(self) -> bool:
        return any(not a for a in self.alts)

    def nonempty_part(self) -> "Lang":
        return Lang([a for a in self.alts if a])


def _norm(a: Alt) -> Alt:
    out: List[Item] = []
    for it in a:
        if it[0] == "lit" and out and out[-1][0] == "lit":
            out[-1] = ("lit", out[-1][1] + it[1])
        elif it[0] == "lit" and not it[1]:
            continue
        else:
            out.append(it)
    return tuple(out)


def _dedupe(alts: List[Alt]) -> List[Alt]:
    seen = []
    for a in alts:
        if a not in seen:
            seen.append(a)
    return seen


def shape(a: Alt) -> str:
    parts = []
    for it in a:
        if it[0] == "lit":
            parts.append(repr(it[1]))
        elif it[0] == "cls":
            parts.append(it[1])
        else:
            inner = " | ".join(shape(x) for x in it[1].alts)
            parts.append(f"({inner})(sep {it[2]!r})+")
    return " ".join(parts) or "ε"


NUMERIC = {"builtins.int": "INT", "builtins.float": "FLOAT", "decimal.Decimal": "DECIMAL"}
STR_FUNCS = {"measured.Prefix": "formatting.prefix_str", "measured.Unit": "formatting.unit_str",
             "measured.Quantity": "formatting.quantity_str", "measured.Dimension": "formatting.dimension_str"}


class StrAbs:
    def __init__(self, prog: Program, resolver: Resolver) -> None:
        self.prog, self.r = prog, resolver
        self.depth = 0
        self.tables: Dict[str, Dict[str, str]] = {}
        self._load_tables()

    def _load_tables(self) -> None:
        mi = self.prog.module("formatting")
        for name in ("SUPERSCRIPTS", "DIGITS"):
            sts = mi.globals_assigned.get(name)
            if not sts:
                raise AnalysisError(f"formatting.{name} not found")
        tabs = eval_module_tables(mi.tree)
        if not isinstance(tabs.get("SUPERSCRIPTS"), dict) or not tabs["SUPERSCRIPTS"]:
            raise AnalysisError("formatting.SUPERSCRIPTS is not built from constants this analysis can evaluate")
        self.superscripts = {str(k): str(v) for k, v in tabs["SUPERSCRIPTS"].items()}
        self.digits = {str(k): str(v) for k, v in tabs["DIGITS"].items()} if isinstance(tabs.get("DIGITS"), dict) else None

    # ------------------------------------------------------------ functions
    def function(self, qual: str, arg_types: Optional[Dict[str, str]] = None) -> Lang:
        fi = self.prog.func(qual)
        if self.depth > 6:
            raise AnalysisError(f"string abstraction recursion too deep at {qual}")
        self.depth += 1
        try:
            return self._block(fi, fi.node.body, {}, arg_types or {})  # type: ignore[attr-defined]
        finally:
            self.depth -= 1

    def _block(self, fi: FuncInfo, stmts: List[ast.stmt], env: Dict[str, Lang], at: Dict[str, str]) -> Lang:
        result = Lang([])
        env = dict(env)
        for i, st in enumerate(stmts):
            if isinstance(st, ast.Expr) and isinstance(st.value, ast.Constant):
                continue
            if isinstance(st, (ast.Import, ast.ImportFrom)):
                continue
            if isinstance(st, ast.Return):
                if st.value is None:
                    raise AnalysisError(f"{fi.qual}: bare return in a string function")
                return result | self.expr(fi, st.value, env, at)
            if isinstance(st, ast.If):
                body = self._block_partial(fi, st.body, env, at)
                orelse = self._block_partial(fi, st.orelse, env, at) if st.orelse else (None, env)
                if body[0] is not None:
                    result = result | body[0]
                if orelse[0] is not None:
                    result = result | orelse[0]
                # fallthrough continues with the (joined) environment
                env = self._join_env(body[1], orelse[1])
                if self._always_returns(st.body) and st.orelse and self._always_returns(st.orelse):
                    return result
                continue
            if isinstance(st, ast.Assign) and len(st.targets) == 1:
                t = st.targets[0]
                if isinstance(t, ast.Name):
                    if isinstance(st.value, ast.List) and not st.value.elts:
                        env[t.id] = ListLang(None)  # type: ignore[assignment]
                        continue
                    try:
                        env[t.id] = self.expr(fi, st.value, env, at)
                    except NotString:
                        env.pop(t.id, None)
                continue
            if isinstance(st, ast.AnnAssign):
                if isinstance(st.target, ast.Name) and isinstance(st.value, ast.List) and not st.value.elts:
                    env[st.target.id] = ListLang(None)  # type: ignore[assignment]
                continue
            if isinstance(st, ast.AugAssign) and isinstance(st.target, ast.Name):
                nm = st.target.id
                try:
                    if not isinstance(st.op, ast.Add) or nm not in env:
                        raise NotString()
                    both = ast.copy_location(ast.BinOp(left=ast.Name(id=nm, ctx=ast.Load()), op=ast.Add(), right=st.value), st)
                    ast.fix_missing_locations(both)
                    env[nm] = self.expr(fi, both, env, at)
                except NotString:
                    env.pop(nm, None)
                continue
            if isinstance(st, ast.For):
                self._for(fi, st, env, at)
                continue
            if isinstance(st, ast.Try):
                # both the body and the handlers may run; string functions here use try only for non-string locals
                continue
            if isinstance(st, ast.Raise):
                return result
            raise AnalysisError(f"{fi.qual}: statement {type(st).__name__} outside the string abstraction at line {st.lineno}")
        return result

    def _block_partial(self, fi: FuncInfo, stmts: List[ast.stmt], env: Dict[str, Lang], at: Dict[str, str]) -> Tuple[Optional[Lang], Dict[str, Lang]]:
        """Returns (language returned inside this block or None, environment at fallthrough)."""
        env = dict(env)
        res: Optional[Lang] = None
        for st in stmts:
            if isinstance(st, ast.Return) and st.value is not None:
                l = self.expr(fi, st.value, env, at)
                res = l if res is None else (res | l)
                return res, env
            if isinstance(st, ast.Assign) and len(st.targets) == 1 and isinstance(st.targets[0], ast.Name):
                if isinstance(st.value, ast.List) and not st.value.elts:
                    env[st.targets[0].id] = ListLang(None)  # type: ignore[assignment]
                    continue
                try:
                    env[st.targets[0].id] = self.expr(fi, st.value, env, at)
                except NotString:
                    env.pop(st.targets[0].id, None)
                continue
            if isinstance(st, ast.AugAssign) and isinstance(st.target, ast.Name):
                # `text += piece` concatenates; any other augmented assignment rebinds a non-string (quantity *= factor)
                nm = st.target.id
                try:
                    if not isinstance(st.op, ast.Add) or nm not in env:
                        raise NotString()
                    both = ast.copy_location(ast.BinOp(left=ast.Name(id=nm, ctx=ast.Load()), op=ast.Add(), right=st.value), st)
                    ast.fix_missing_locations(both)
                    env[nm] = self.expr(fi, both, env, at)
                except NotString:
                    env.pop(nm, None)
                continue
            if isinstance(st, ast.For):
                self._for(fi, st, env, at)
                continue
            if isinstance(st, ast.Raise):
                return res, env
            if isinstance(st, ast.If):
                b = self._block_partial(fi, st.body, env, at)
                o = self._block_partial(fi, st.orelse, env, at) if st.orelse else (None, env)
                for x in (b[0], o[0]):
                    if x is not None:
                        res = x if res is None else (res | x)
                env = self._join_env(b[1], o[1])
                continue
            if isinstance(st, (ast.Expr, ast.Pass, ast.AnnAssign, ast.Import, ast.ImportFrom)):
                continue
            raise AnalysisError(f"{fi.qual}: statement {type(st).__name__} outside the string abstraction at line {st.lineno}")
        return res, env

    def _for(self, fi: FuncInfo, st: ast.For, env: Dict[str, Any], at: Dict[str, str]) -> None:
        """for x in seq: [if c:] L.append(<string expr>)   -> L holds a repetition of that language"""
        local = dict(env)

        def walk(stmts: List[ast.stmt], optional: bool) -> None:
            for b in stmts:
                if isinstance(b, ast.Expr) and isinstance(b.value, ast.Call) and isinstance(b.value.func, ast.Attribute) \
                        and b.value.func.attr == "append" and isinstance(b.value.func.value, ast.Name) and len(b.value.args) == 1:
                    name = b.value.func.value.id
                    cur = env.get(name)
                    if not isinstance(cur, ListLang):
                        raise AnalysisError(f"{fi.qual}: append to `{name}`, which is not a fresh list, at line {b.lineno}")
                    arg = b.value.args[0]
                    it = st.iter
                    if isinstance(arg, ast.Subscript) and ast.unparse(arg.value) == "SUPERSCRIPTS" and isinstance(it, ast.Call) \
                            and ast.unparse(it.func) == "str" and len(it.args) == 1:
                        g = ast.GeneratorExp(elt=arg, generators=[ast.comprehension(target=st.target, iter=it, ifs=[], is_async=0)])
                        cur.chars = self.charmap(fi, g, local, at)
                        continue
                    if isinstance(arg, ast.Subscript):
                        raise NotString()
                    e = self.expr(fi, arg, local, at)
                    cur.elem = e if cur.elem is None else (cur.elem | e)
                    cur.optional = cur.optional and optional if cur.elem is not e else optional
                elif isinstance(b, ast.If):
                    walk(b.body, True)
                    walk(b.orelse, True)
                elif isinstance(b, ast.Assign) and len(b.targets) == 1 and isinstance(b.targets[0], ast.Name):
                    try:
                        local[b.targets[0].id] = self.expr(fi, b.value, local, at)
                    except NotString:
                        local.pop(b.targets[0].id, None)
                elif isinstance(b, (ast.Pass, ast.Continue)):
                    continue
                else:
                    raise AnalysisError(f"{fi.qual}: statement {type(b).__name__} in a loop outside the string abstraction at line {b.lineno}")
        try:
            walk(st.body, False)
        except NotString:
            return

    @staticmethod
    def _always_returns(stmts: List[ast.stmt]) -> bool:
        return bool(stmts) and isinstance(stmts[-1], (ast.Return, ast.Raise))

    @staticmethod
    def _join_env(a: Dict[str, Lang], b: Dict[str, Lang]) -> Dict[str, Lang]:
        out = {}
        for k in set(a) | set(b):
            if k in a and k in b:
                if isinstance(a[k], Lang) and isinstance(b[k], Lang):
                    out[k] = a[k] | b[k]
                else:
                    out[k] = a[k]
            else:
                out[k] = a.get(k) or b[k]
        return out

    # ---------------------------------------------------------- expressions
    def types(self, fi: FuncInfo, e: ast.AST) -> List[str]:
        alts = self.r.expr_alts(fi, e)
        return [full for k, full in alts if k == "inst"] + (["None"] if any(k == "none" for k, _ in alts) else [])

    def expr(self, fi: FuncInfo, e: ast.AST, env: Dict[str, Lang], at: Dict[str, str]) -> Lang:
        if isinstance(e, ast.Constant):
            if isinstance(e.value, str):
                return Lang.lit(e.value)
            raise NotString()
        if isinstance(e, ast.JoinedStr):
            out = Lang([()])
            for v in e.values:
                if isinstance(v, ast.Constant):
                    out = out + Lang.lit(str(v.value))
                else:
                    assert isinstance(v, ast.FormattedValue)
                    if v.format_spec is not None or v.conversion not in (-1, 115):
                        spec = ast.unparse(v.format_spec) if v.format_spec is not None else "!r"
                        raise AnalysisError(f"{fi.qual}: formatted value with spec {spec} outside the string abstraction")
                    if isinstance(v.value, (ast.Call, ast.BinOp, ast.IfExp, ast.JoinedStr, ast.BoolOp)) and \
                            not (isinstance(v.value, ast.Call) and ast.unparse(v.value.func) == "str"):
                        try:
                            out = out + self.expr(fi, v.value, env, at)
                            continue
                        except NotString:
                            pass
                    out = out + self.to_str(fi, v.value, env, at)
            return out
        if isinstance(e, ast.BinOp) and isinstance(e.op, ast.Add):
            return self.expr(fi, e.left, env, at) + self.expr(fi, e.right, env, at)
        if isinstance(e, ast.IfExp):
            return self.expr(fi, e.body, env, at) | self.expr(fi, e.orelse, env, at)
        if isinstance(e, ast.BoolOp) and isinstance(e.op, ast.Or) and len(e.values) == 2:
            a = self.expr(fi, e.values[0], env, at)
            b = self.expr(fi, e.values[1], env, at)
            return a.nonempty_part() | b if a.may_be_empty() else a
        if isinstance(e, ast.Name):
            if e.id in env and isinstance(env[e.id], Lang):
                return env[e.id]
            return self.to_str(fi, e, env, at, already_str=True)
        if isinstance(e, ast.Attribute):
            return self.to_str(fi, e, env, at, already_str=True)
        if isinstance(e, ast.Call):
            f = e.func
            if isinstance(f, ast.Name) and f.id == "str" and len(e.args) == 1:
                return self.to_str(fi, e.args[0], env, at)
            if isinstance(f, ast.Attribute) and f.attr == "join" and len(e.args) == 1:
                sepl = self.expr(fi, f.value, env, at)
                if len(sepl.alts) != 1 or any(it[0] != "lit" for it in sepl.alts[0]):
                    raise AnalysisError(f"{fi.qual}: join with a non-literal separator")
                sep = "".join(it[1] for it in sepl.alts[0])
                g = e.args[0]
                if isinstance(g, ast.Call) and isinstance(g.func, ast.Name) and g.func.id == "map" and len(g.args) == 2 and not g.keywords \
                        and isinstance(g.args[0], ast.Attribute) and g.args[0].attr == "__getitem__":
                    # map(TABLE.__getitem__, xs) is (TABLE[c] for c in xs)
                    cvar = ast.Name(id="_c", ctx=ast.Load())
                    g = ast.copy_location(ast.GeneratorExp(
                        elt=ast.copy_location(ast.Subscript(value=g.args[0].value, slice=cvar, ctx=ast.Load()), g),
                        generators=[ast.comprehension(target=ast.Name(id="_c", ctx=ast.Store()), iter=g.args[1], ifs=[], is_async=0)]), g)
                    ast.fix_missing_locations(g)
                if isinstance(g, ast.Name) and isinstance(env.get(g.id), ListLang):
                    ll = env[g.id]
                    if ll.chars is not None:
                        return ll.chars   # type: ignore[return-value]
                    if ll.elem is None:
                        return Lang([()])
                    rep = Lang([(("rep", ll.elem, sep),)])
                    return (rep | Lang([()])) if ll.optional else rep
                if isinstance(g, (ast.GeneratorExp, ast.ListComp)) and len(g.generators) == 1:
                    gen = g.generators[0]
                    it_types = self.types(fi, gen.iter)
                    if it_types == ["builtins.str"] or (isinstance(gen.iter, ast.Call) and ast.unparse(gen.iter.func) == "str"):
                        # character map over str(x): "".join(TABLE[c] for c in str(x))
                        return self.charmap(fi, g, env, at)
                    elt = self.expr(fi, g.elt, env, at)
                    optional = bool(gen.ifs)
                    rep = Lang([(("rep", elt, sep),)])
                    return (rep | Lang([()])) if optional else rep
                if isinstance(g, (ast.Tuple, ast.List)) and not any(isinstance(x, ast.Starred) for x in g.elts):
                    # join over a literal sequence: plain concatenation with the separator in between
                    out = Lang([()])
                    for i, x in enumerate(g.elts):
                        if i:
                            out = out + Lang.lit(sep)
                        out = out + self.expr(fi, x, env, at)
                    return out
                raise AnalysisError(f"{fi.qual}: join over {type(g).__name__}")
            # package string function
            for cs in self.r.callsites(fi.qual):
                if cs.node is e and cs.targets:
                    t = cs.targets[0]
                    if self.prog.functions[t].module == "formatting":
                        callee = self.prog.functions[t]
                        at2 = {}
                        for p, a in zip(callee.params(), e.args):
                            ts = self.types(fi, a)
                            if ts:
                                at2[p] = "|".join(ts)
                        return self.function(t, at2)
            if isinstance(f, ast.Attribute) and f.attr == "__format__" and len(e.args) == 1:
                spec = e.args[0]
                if isinstance(spec, ast.Constant) and spec.value == "":
                    return self.to_str(fi, f.value, env, at)
                raise NotString()
            raise AnalysisError(f"{fi.qual}: call {ast.unparse(e)[:50]} outside the string abstraction")
        raise NotString()

    def charmap(self, fi: FuncInfo, g: Any, env: Dict[str, Lang], at: Dict[str, str]) -> Lang:
        gen = g.generators[0]
        src = gen.iter
        if isinstance(src, ast.Name):
            # a local that names str(x)
            ds = [n.value for n in ast.walk(fi.node) if isinstance(n, ast.Assign) and len(n.targets) == 1
                  and isinstance(n.targets[0], ast.Name) and n.targets[0].id == src.id]
            if len(ds) == 1:
                src = ds[0]
        if not (isinstance(src, ast.Call) and ast.unparse(src.func) == "str" and len(src.args) == 1):
            raise AnalysisError(f"{fi.qual}: character map over something other than str(x)")
        if not (isinstance(g.elt, ast.Subscript) and ast.unparse(g.elt.value) == "SUPERSCRIPTS"):
            raise AnalysisError(f"{fi.qual}: character map through {ast.unparse(g.elt)[:30]}")
        ts = self.types(fi, src.args[0])
        if at:
            # a parameter typed more narrowly at the call site
            if isinstance(src.args[0], ast.Name) and src.args[0].id in at:
                ts = at[src.args[0].id].split("|")
        out = Lang([])
        for t in ts:
            c = NUMERIC.get(t)
            if c is None:
                raise AnalysisError(f"{fi.qual}: superscript of a {t}")
            out = out | Lang.cls("SUP_" + c)
        return out

    def to_str(self, fi: FuncInfo, e: ast.AST, env: Dict[str, Lang], at: Dict[str, str], already_str: bool = False) -> Lang:
        """Language of str(e) (or of e itself when it is a str)."""
        if isinstance(e, ast.Name) and e.id in env and isinstance(env[e.id], Lang):
            return env[e.id]
        ts = self.types(fi, e)
        if isinstance(e, ast.Name) and e.id in at:
            ts = at[e.id].split("|")
        if not ts:
            raise AnalysisError(f"{fi.qual}: no static type for `{ast.unparse(e)[:40]}`")
        out = Lang([])
        for t in ts:
            if t == "None":
                if isinstance(e, ast.Attribute) and e.attr == "symbol" or (isinstance(e, ast.Name) and e.id == "symbol"):
                    continue   # factors are base units; every base unit is defined with a symbol (checked on E5's tables)
                out = out | Lang.lit("None")
            elif t in NUMERIC:
                out = out | Lang.cls(NUMERIC[t])
            elif t == "builtins.str":
                out = out | Lang.cls(self.symbol_class(fi, e))
            elif t in STR_FUNCS:
                out = out | self.function(STR_FUNCS[t])
            else:
                raise AnalysisError(f"{fi.qual}: str() of a {t} outside the string abstraction")
        return out

    def symbol_class(self, fi: FuncInfo, e: ast.AST) -> str:
        if isinstance(e, ast.Attribute) and e.attr == "symbol":
            ts = self.types(fi, e.value)
            if "measured.Prefix" in ts:
                return "PREFIX_SYMBOL"
            if "measured.Unit" in ts:
                return "UNIT_SYMBOL"
            if "measured.Dimension" in ts:
                return "DIM_SYMBOL"
        if isinstance(e, ast.Name) and e.id == "symbol":
            return "UNIT_SYMBOL"     # the (prefix, symbol, exponent) terms carry factor symbols
        raise AnalysisError(f"{fi.qual}: a string of unknown origin `{ast.unparse(e)[:40]}` flows into the rendered text")


class NotString(Exception):
    pass


def eval_module_tables(tree: ast.Module) -> Dict[str, Any]:
    """Constant evaluation of the module-level statements that build the character tables: string constants, dict displays
    (with the `{str(i): v for i, v in enumerate([...])}` spread), `dict(zip(a, b))`, `{v: k for k, v in X.items()}`,
    `X.update(zip(a, b))` / `X.update({...})` and `X[k] = v`, in source order.  Anything else leaves the name unknown."""
    env: Dict[str, Any] = {}

    def ev(e: ast.AST) -> Any:
        if isinstance(e, ast.Constant):
            return e.value
        if isinstance(e, ast.Name) and e.id in env:
            return env[e.id]
        if isinstance(e, (ast.List, ast.Tuple)):
            return [ev(x) for x in e.elts]
        if isinstance(e, ast.Dict):
            try:
                return eval_superscripts(e)
            except AnalysisError:
                out: Dict[Any, Any] = {}
                for k, v in zip(e.keys, e.values):
                    if k is None:
                        out.update(ev(v))
                    else:
                        out[ev(k)] = ev(v)
                return out
        if isinstance(e, ast.DictComp) and len(e.generators) == 1 and not e.generators[0].ifs:
            g = e.generators[0]
            it = g.iter
            if isinstance(it, ast.Call) and isinstance(it.func, ast.Attribute) and it.func.attr == "items" and isinstance(g.target, ast.Tuple) \
                    and len(g.target.elts) == 2 and all(isinstance(x, ast.Name) for x in g.target.elts):
                src = ev(it.func.value)
                kn, vn = (x.id for x in g.target.elts)  # type: ignore[union-attr]
                res = {}
                for k, v in src.items():
                    loc = {kn: k, vn: v}
                    kk = loc[e.key.id] if isinstance(e.key, ast.Name) and e.key.id in loc else None
                    vv = loc[e.value.id] if isinstance(e.value, ast.Name) and e.value.id in loc else None
                    if kk is None or vv is None:
                        raise KeyError("dict comprehension")
                    res[kk] = vv
                return res
            if isinstance(it, ast.Call) and ast.unparse(it.func) == "enumerate" and ast.unparse(e.key) == "str(i)" and isinstance(e.value, ast.Name):
                return {str(i): x for i, x in enumerate(ev(it.args[0]))}
        if isinstance(e, ast.Call) and isinstance(e.func, ast.Name) and e.func.id == "zip" and len(e.args) == 2:
            return list(zip(ev(e.args[0]), ev(e.args[1])))
        if isinstance(e, ast.Call) and isinstance(e.func, ast.Name) and e.func.id == "dict" and len(e.args) <= 1:
            d = dict(ev(e.args[0])) if e.args else {}
            d.update({k.arg: ev(k.value) for k in e.keywords if k.arg})
            return d
        if isinstance(e, ast.Call) and isinstance(e.func, ast.Name) and e.func.id in ("list", "tuple", "str") and len(e.args) == 1:
            v = ev(e.args[0])
            return list(v) if e.func.id != "str" else str(v)
        if isinstance(e, ast.Call) and isinstance(e.func, ast.Attribute) and e.func.attr in ("keys", "values", "items") and not e.args:
            d = ev(e.func.value)
            return list(getattr(d, e.func.attr)())
        raise KeyError(ast.unparse(e)[:40])
    for st in tree.body:
        try:
            if isinstance(st, (ast.Assign, ast.AnnAssign)) and getattr(st, "value", None) is not None:
                tg = st.targets[0] if isinstance(st, ast.Assign) else st.target
                if isinstance(tg, ast.Name):
                    try:
                        env[tg.id] = ev(st.value)  # type: ignore[arg-type]
                    except (KeyError, TypeError, AttributeError, AnalysisError):
                        env.pop(tg.id, None)
                elif isinstance(tg, ast.Subscript) and isinstance(tg.value, ast.Name) and isinstance(env.get(tg.value.id), dict):
                    env[tg.value.id][ev(tg.slice)] = ev(st.value)  # type: ignore[arg-type]
            elif isinstance(st, ast.Expr) and isinstance(st.value, ast.Call) and isinstance(st.value.func, ast.Attribute) \
                    and st.value.func.attr == "update" and isinstance(st.value.func.value, ast.Name) and isinstance(env.get(st.value.func.value.id), dict) \
                    and len(st.value.args) == 1:
                env[st.value.func.value.id].update(dict(ev(st.value.args[0])))
        except (KeyError, TypeError, AttributeError):
            nm = st.value.func.value.id if isinstance(st, ast.Expr) else None  # type: ignore[union-attr]
            if nm:
                env.pop(nm, None)
    return env


def eval_superscripts(node: ast.AST) -> Dict[str, str]:
    """The SUPERSCRIPTS table: literal entries plus the `{str(i): v for i, v in enumerate([...])}` spread."""
    out: Dict[str, str] = {}
    if not isinstance(node, ast.Dict):
        raise AnalysisError("formatting.SUPERSCRIPTS is not a dict display")
    for k, v in zip(node.keys, node.values):
        if k is None:
            if isinstance(v, ast.DictComp) and isinstance(v.generators[0].iter, ast.Call) and ast.unparse(v.generators[0].iter.func) == "enumerate":
                lst = v.generators[0].iter.args[0]
                if isinstance(lst, ast.List) and ast.unparse(v.key) == "str(i)":
                    for i, x in enumerate(lst.elts):
                        if isinstance(x, ast.Constant):
                            out[str(i)] = x.value
                    continue
            raise AnalysisError("formatting.SUPERSCRIPTS: unrecognised spread")
        if isinstance(k, ast.Constant) and isinstance(v, ast.Constant):
            out[k.value] = v.value
        else:
            raise AnalysisError("formatting.SUPERSCRIPTS: non-literal entry")
    return out


# ------------------------------------------------------------------ witnesses
def witnesses(cls: str, tables: Dict[str, List[str]], sup: Dict[str, str], thorough: bool) -> List[str]:
    def s(x: str) -> str:
        return "".join(sup.get(c, "?") for c in x)
    base = {
        "INT": ["7", "-3", "0", "12", "1000"],
        "FLOAT": ["1.5", "-0.25", "1e-07", "1e+16", "0.001", "inf", "-inf", "nan"],
        "DECIMAL": ["1.5", "0E-7", "1E+3", "Infinity", "NaN", "-12"],
        "SUP_INT": [s("2"), s("-1"), s("12"), s("0"), s("-10")],
        "SUP_FLOAT": [s("1.5"), s("-2.25"), s("1e-07")],
        "SUP_DECIMAL": [s("1.5"), s("1E+3")],
    }
    if cls in base:
        return base[cls]
    if cls in tables:
        t = tables[cls]
        if thorough or len(t) <= 6:
            return t
        # short, long, punctuated, non-ascii
        pick = [t[0], max(t, key=len), min(t, key=len)] + [x for x in t if not x.isascii()][:2] + [x for x in t if any(c in x for c in ".-()°")][:2]
        out = []
        for x in pick:
            if x not in out:
                out.append(x)
        return out
    raise AnalysisError(f"no witnesses for piece class {cls}")


Span = Tuple[int, int, str, str]   # start, end, piece class, role ('head' | 'term')


def instantiate(a: Alt, tables: Dict[str, List[str]], sup: Dict[str, str], thorough: bool, cap: int = 400,
                role: str = "head") -> List[Tuple[str, List[Span]]]:
    """Concrete witness strings of one alternative, with the span of every piece."""
    parts: List[List[Tuple[str, List[Span]]]] = []
    for it in a:
        if it[0] == "lit":
            parts.append([(it[1], [(0, len(it[1]), "lit", role)])])
        elif it[0] == "cls":
            opts = []
            for w in witnesses(it[1], tables, sup, thorough):
                c = it[1]
                if c in ("FLOAT", "DECIMAL") and any(x in w.lower() for x in ("inf", "nan")):
                    c += "_SPECIAL"
                opts.append((w, [(0, len(w), c, role)]))
            parts.append(opts)
        else:
            inner: List[Tuple[str, List[Span]]] = []
            for ia in it[1].alts:
                inner += instantiate(ia, tables, sup, thorough, cap=40 if not thorough else 400, role="term")
            sep = it[2]
            reps: List[Tuple[str, List[Span]]] = []
            k = len(inner)

            def cat(xs: List[Tuple[str, List[Span]]]) -> Tuple[str, List[Span]]:
                text, spans = "", []
                for j, (t, sp) in enumerate(xs):
                    if j:
                        spans.append((len(text), len(text) + len(sep), "lit", "sep"))
                        text += sep
                    spans += [(len(text) + a0, len(text) + b0, c0, r0) for a0, b0, c0, r0 in sp]
                    text += t
                return text, spans
            for i in range(k):
                reps.append(cat([inner[i]]))
            for i in range(k):
                reps.append(cat([inner[i], inner[(i + 1) % k]]))
            for i in range(k):
                reps.append(cat([inner[i], inner[(i + 1) % k], inner[(i + 2) % k]]))
            parts.append(reps)
    out: List[Tuple[str, List[Span]]] = []
    for combo in itertools.islice(itertools.product(*parts), cap if not thorough else cap * 20):
        text, spans = "", []
        for t, sp in combo:
            spans += [(len(text) + a0, len(text) + b0, c0, r0) for a0, b0, c0, r0 in sp]
            text += t
        out.append((text, spans))
    return out
