"""Call-site resolution, call graph and context-pruned reachability (E1, second half)."""
from __future__ import annotations

import ast
from dataclasses import dataclass, field
from typing import Any, Dict, FrozenSet, Iterable, List, Optional, Set, Tuple

from .core import AnalysisError
from .model import (BINOPS, CMPOPS, PKG, REFLECTED_CMP, UNARY, CallSite, ClassInfo,
                    FuncInfo, ModuleInfo, Program)

NUMERIC = [("inst", "builtins.int"), ("inst", "builtins.float"), ("inst", "decimal.Decimal")]
BUILTIN_TYPES = {"int": "builtins.int", "float": "builtins.float", "str": "builtins.str",
                 "bool": "builtins.bool", "Decimal": "decimal.Decimal", "object": "builtins.object",
                 "bytes": "builtins.bytes"}
# builtin callables that dispatch to a dunder of their first argument
BUILTIN_DUNDER = {"str": ["__str__"], "repr": ["__repr__"], "abs": ["__abs__"],
                  "hash": ["__hash__"], "float": ["__float__"], "int": ["__int__"],
                  "len": ["__len__"], "format": ["__format__"], "bool": ["__bool__"],
                  "neg": ["__neg__"]}


def _path_in_target(t: ast.AST, name: str) -> Optional[List[int]]:
    if isinstance(t, ast.Name):
        return [] if t.id == name else None
    if isinstance(t, (ast.Tuple, ast.List)):
        for i, x in enumerate(t.elts):
            r = _path_in_target(x, name)
            if r is not None:
                return [i] + r
    return None


def enclosing_function(prog: Program, node: ast.AST) -> Optional[ast.AST]:
    n = getattr(node, "_parent", None)
    while n is not None and not isinstance(n, (ast.FunctionDef, ast.AsyncFunctionDef, ast.Lambda)):
        n = getattr(n, "_parent", None)
    return n


class Resolver:
    """Resolves every call-like construct in a function body to package functions."""

    def __init__(self, prog: Program) -> None:
        self.prog = prog
        self._cache: Dict[str, List[CallSite]] = {}
        self.unresolved: List[Tuple[str, str, int]] = []

    # ------------------------------------------------------------ typing
    def ann_alts(self, mi: ModuleInfo, ann: Optional[ast.AST]) -> List[Tuple[str, str]]:
        if ann is None:
            return []
        if isinstance(ann, ast.Constant):
            if ann.value is None:
                return [("none", "")]
            if isinstance(ann.value, str):
                try:
                    return self.ann_alts(mi, ast.parse(ann.value, mode="eval").body)
                except SyntaxError:
                    return []
            return []
        if isinstance(ann, ast.Name):
            if ann.id == "Numeric":
                return list(NUMERIC)
            if ann.id in BUILTIN_TYPES:
                return [("inst", BUILTIN_TYPES[ann.id])]
            if ann.id == "Any":
                return [("any", "")]
            k = self.prog.resolve_name(mi, ann.id)
            if k and k in self.prog.classes:
                return [("inst", f"{PKG}.{k}")]
            if ann.id in mi.classes:
                return [("inst", f"{PKG}.{mi.classes[ann.id]}")]
            # a module-level type alias: `MeasuredType = Union[Dimension, Prefix, Quantity, Unit]`
            sts = mi.globals_assigned.get(ann.id) or []
            if len(sts) == 1 and isinstance(sts[0], (ast.Assign, ast.AnnAssign)) and getattr(sts[0], "value", None) is not None \
                    and isinstance(sts[0].value, (ast.Subscript, ast.BinOp, ast.Name)) and not getattr(self, "_alias_depth", 0):
                self._alias_depth = 1
                try:
                    got = self.ann_alts(mi, sts[0].value)
                finally:
                    self._alias_depth = 0
                if got and not all(k == "other" for k, _ in got):
                    return got
            if ann.id in mi.imports:
                m_, a_ = mi.imports[ann.id]
                om = self.prog.modules.get(m_)
                if om is not None and a_ and om is not mi and not getattr(self, "_alias_depth", 0):
                    sts2 = om.globals_assigned.get(a_) or []
                    if len(sts2) == 1 and getattr(sts2[0], "value", None) is not None and isinstance(sts2[0].value, (ast.Subscript, ast.BinOp)):
                        self._alias_depth = 1
                        try:
                            got = self.ann_alts(om, sts2[0].value)
                        finally:
                            self._alias_depth = 0
                        if got and not all(k == "other" for k, _ in got):
                            return got
            return [("other", ann.id)]
        if isinstance(ann, ast.Subscript):
            head = ast.unparse(ann.value).split(".")[-1]
            if head == "Optional":
                return self.ann_alts(mi, ann.slice) + [("none", "")]
            if head == "Union":
                elts = ann.slice.elts if isinstance(ann.slice, ast.Tuple) else [ann.slice]
                out: List[Tuple[str, str]] = []
                for e in elts:
                    for a in self.ann_alts(mi, e):
                        if a not in out:
                            out.append(a)
                return out
            if head in ("Type", "type"):
                return [("cls", n) for k, n in self.ann_alts(mi, ann.slice) if k == "inst"]
            return [("other", ast.unparse(ann))]
        if isinstance(ann, ast.BinOp) and isinstance(ann.op, ast.BitOr):
            return self.ann_alts(mi, ann.left) + self.ann_alts(mi, ann.right)
        return [("other", ast.unparse(ann))]

    def expr_alts(self, fi: FuncInfo, node: ast.AST) -> List[Tuple[str, str]]:
        """Type alternatives of an expression: mypy first, annotation fallback."""
        alts = self.prog.type_alts(fi.module, node)
        if alts:
            return alts
        return self._fallback(fi, node)

    def _fallback(self, fi: FuncInfo, node: ast.AST) -> List[Tuple[str, str]]:
        mi = self.prog.modules[fi.module]
        if isinstance(node, ast.Constant):
            if node.value is None:
                return [("none", "")]
            return [("inst", "builtins." + type(node.value).__name__)]
        if isinstance(node, ast.Name):
            # parameter of this function (or of an enclosing one)
            f: Optional[FuncInfo] = fi
            while f is not None:
                a = f.node.args  # type: ignore[attr-defined]
                allargs = a.posonlyargs + a.args + a.kwonlyargs
                for i, x in enumerate(allargs):
                    if x.arg == node.id:
                        if i == 0 and f.cls and not f.is_static and x.annotation is None:
                            key = f.cls if not f.module else f"{f.module}.{f.cls}"
                            return [("cls" if f.is_classmethod else "inst", f"{PKG}.{key}")]
                        return self.ann_alts(mi, x.annotation)
                f = self.prog.functions.get(f.parent) if f.parent else None
            k = self.prog.resolve_name(mi, node.id)
            if k and k in self.prog.classes:
                return [("cls", f"{PKG}.{k}")]
            # comprehension / loop targets (f-string internals carry no mypy position):
            # element type of the iterable, destructured like the target
            t = self._target_type(fi, node)
            if t:
                return t
            # a local variable: the type mypy gives one of its binding occurrences
            for n in self._own_nodes(fi.node):
                if isinstance(n, ast.Name) and n.id == node.id and isinstance(n.ctx, ast.Store):
                    alts = self.prog.type_alts(fi.module, n)
                    if alts:
                        return alts
            return []
        if isinstance(node, ast.Attribute):
            base = self.expr_alts(fi, node.value)
            out: List[Tuple[str, str]] = []
            for kind, full in base:
                k = self.prog.class_key(full)
                if not k:
                    continue
                ci = self.prog.classes[k]
                st = ci.class_attrs.get(node.attr)
                if isinstance(st, ast.AnnAssign):
                    out += self.ann_alts(self.prog.modules[ci.module], st.annotation)
                else:
                    for q in self.prog.method(k, node.attr):
                        f2 = self.prog.functions[q]
                        if f2.is_property:
                            out += self.ann_alts(self.prog.modules[f2.module], f2.node.returns)  # type: ignore[attr-defined]
            return out
        if isinstance(node, ast.Call) and isinstance(node.func, ast.Name):
            k = self.prog.resolve_name(mi, node.func.id)
            if k and k in self.prog.classes:
                return [("inst", f"{PKG}.{k}")]
            if k and k in self.prog.functions:
                f2 = self.prog.functions[k]
                return self.ann_alts(self.prog.modules[f2.module], f2.node.returns)  # type: ignore[attr-defined]
        return []

    def _target_type(self, fi: FuncInfo, name: ast.Name) -> List[Tuple[str, str]]:
        p = getattr(name, "_parent", None)
        while p is not None and p is not fi.node:
            gens = getattr(p, "generators", None)
            if gens:
                for g in gens:
                    path = _path_in_target(g.target, name.id)
                    if path is None:
                        continue
                    t = self.prog.mypy_type(fi.module, g.iter)
                    if t is None:
                        continue
                    try:
                        from mypy import types as T
                        from .model import flatten_type
                        t = T.get_proper_type(t)
                        elem = None
                        if isinstance(t, T.Instance) and t.args:
                            elem = t.args[-1] if t.type.fullname in ("builtins.dict",) else t.args[0]
                            if t.type.fullname.endswith("dict_items") and len(t.args) >= 2:
                                elem = T.TupleType(list(t.args[:2]), t)  # type: ignore[arg-type]
                        if elem is None:
                            return []
                        for idx in path:
                            elem = T.get_proper_type(elem)
                            if isinstance(elem, T.TupleType) and idx < len(elem.items):
                                elem = elem.items[idx]
                            elif isinstance(elem, T.Instance) and elem.type.fullname == "builtins.tuple" and elem.args:
                                elem = elem.args[0]
                            else:
                                return []
                        return flatten_type(elem)
                    except Exception:
                        return []
            p = getattr(p, "_parent", None)
        return []

    # ------------------------------------------------------------ helpers
    def _methods_of(self, alts: List[Tuple[str, str]], attr: str, kinds: Tuple[str, ...] = ("inst", "cls")) -> List[str]:
        out: List[str] = []
        for kind, full in alts:
            if kind not in kinds:
                continue
            k = self.prog.class_key(full)
            if k:
                for q in self.prog.method(k, attr):
                    if q not in out:
                        out.append(q)
        return out

    def _ctor(self, cls_key: str) -> List[str]:
        out: List[str] = []
        for a in ("__new__", "__init__"):
            out += self.prog.method(cls_key, a)
        return out

    # ------------------------------------------------------------ main
    def callsites(self, qual: str) -> List[CallSite]:
        if qual in self._cache:
            return self._cache[qual]
        fi = self.prog.functions[qual]
        mi = self.prog.modules[fi.module]
        sites: List[CallSite] = []
        body_nodes = list(self._own_nodes(fi.node))
        for n in body_nodes:
            cs = self._resolve_node(fi, mi, n)
            if cs is not None:
                sites.extend(cs)
        for cs in sites:
            if cs.kind in ("binop", "compare", "unary", "prop", "format", "builtin", "getitem", "hash"):
                cs.bound = True
            elif cs.external is not None and cs.external.startswith("ctor:"):
                cs.bound = True
        self._cache[qual] = sites
        return sites

    @staticmethod
    def _own_nodes(fn: ast.AST) -> Iterable[ast.AST]:
        """All nodes of a function body, excluding nested defs' bodies and the
        function's own decorators/annotations (defaults are included: they run at
        definition time but belong to the function for reachability purposes)."""
        stack: List[ast.AST] = list(getattr(fn, "body", []))
        if isinstance(fn, ast.Lambda):
            stack = [fn.body]
        while stack:
            n = stack.pop()
            yield n
            for c in ast.iter_child_nodes(n):
                if isinstance(c, (ast.FunctionDef, ast.AsyncFunctionDef, ast.ClassDef)):
                    continue
                stack.append(c)

    def _resolve_node(self, fi: FuncInfo, mi: ModuleInfo, n: ast.AST) -> Optional[List[CallSite]]:
        P = self.prog
        q = fi.qual
        if isinstance(n, ast.Call):
            return self._resolve_call(fi, mi, n)
        if isinstance(n, ast.BinOp) and type(n.op) in BINOPS:
            op = BINOPS[type(n.op)]
            la, ra = self.expr_alts(fi, n.left), self.expr_alts(fi, n.right)
            t = self._methods_of(la, f"__{op}__", ("inst",))
            for m in self._methods_of(ra, f"__r{op}__", ("inst",)):
                if m not in t:
                    t.append(m)
            if t:
                return [CallSite(q, n, "binop", t, args=[n.right], receiver=n.left)]
            return None
        if isinstance(n, ast.AugAssign) and type(n.op) in BINOPS:
            op = BINOPS[type(n.op)]
            la, ra = self.expr_alts(fi, n.target), self.expr_alts(fi, n.value)
            t = self._methods_of(la, f"__i{op}__", ("inst",)) or self._methods_of(la, f"__{op}__", ("inst",))
            for m in self._methods_of(ra, f"__r{op}__", ("inst",)):
                if m not in t:
                    t.append(m)
            if t:
                return [CallSite(q, n, "binop", t, args=[n.value], receiver=n.target)]
            return None
        if isinstance(n, ast.Compare):
            out: List[CallSite] = []
            left = n.left
            for op, right in zip(n.ops, n.comparators):
                if type(op) in CMPOPS:
                    d = CMPOPS[type(op)]
                    la, ra = self.expr_alts(fi, left), self.expr_alts(fi, right)
                    t = self._methods_of(la, d, ("inst",))
                    for m in self._methods_of(ra, REFLECTED_CMP[d], ("inst",)):
                        if m not in t:
                            t.append(m)
                    if d == "__ne__":
                        for m in self._methods_of(la, "__eq__", ("inst",)) + self._methods_of(ra, "__eq__", ("inst",)):
                            if m not in t:
                                t.append(m)
                    if t:
                        out.append(CallSite(q, n, "compare", t, args=[right], receiver=left))
                elif isinstance(op, (ast.In, ast.NotIn)):
                    # membership in a dict/set hashes (and compares) the key
                    la = self.expr_alts(fi, left)
                    t = self._methods_of(la, "__hash__", ("inst",))
                    if t:
                        out.append(CallSite(q, n, "hash", t, receiver=left))
                left = right
            return out or None
        if isinstance(n, ast.UnaryOp) and type(n.op) in UNARY:
            t = self._methods_of(self.expr_alts(fi, n.operand), UNARY[type(n.op)], ("inst",))
            if t:
                return [CallSite(q, n, "unary", t, receiver=n.operand)]
            return None
        if isinstance(n, ast.Attribute) and isinstance(n.ctx, ast.Load):
            # property access
            base = self.expr_alts(fi, n.value)
            t = [m for m in self._methods_of(base, n.attr, ("inst",)) if P.functions[m].is_property]
            if t:
                return [CallSite(q, n, "prop", t, receiver=n.value)]
            return None
        if isinstance(n, ast.Subscript) and isinstance(n.ctx, ast.Load):
            t = self._methods_of(self.expr_alts(fi, n.value), "__getitem__", ("inst",))
            if t:
                return [CallSite(q, n, "getitem", t, args=[n.slice], receiver=n.value)]
            return None
        if isinstance(n, ast.FormattedValue):
            alts = self.expr_alts(fi, n.value)
            if n.conversion == ord("r"):
                t = self._methods_of(alts, "__repr__", ("inst",))
                return [CallSite(q, n, "format", t, receiver=n.value)] if t else None
            spec: Any = ""
            if n.format_spec is not None:
                if all(isinstance(v, ast.Constant) for v in n.format_spec.values):  # type: ignore[attr-defined]
                    spec = "".join(str(v.value) for v in n.format_spec.values)  # type: ignore[attr-defined]
                else:
                    spec = None
            out2: List[CallSite] = []
            t = self._methods_of(alts, "__format__", ("inst",))
            if t:
                out2.append(CallSite(q, n, "format", t, receiver=n.value, literal_args={0: spec}))
            else:
                t = self._methods_of(alts, "__str__", ("inst",))
                if t:
                    out2.append(CallSite(q, n, "format", t, receiver=n.value))
            return out2 or None
        return None

    def _resolve_call(self, fi: FuncInfo, mi: ModuleInfo, n: ast.Call) -> Optional[List[CallSite]]:
        P = self.prog
        q = fi.qual
        kwargs = {k.arg: k.value for k in n.keywords if k.arg}
        f = n.func
        if isinstance(f, ast.Name):
            # local variable shadowing?  parameters / locals named like a function are rare
            target = P.resolve_name(mi, f.id)
            if f.id in self._local_names(fi) and f.id not in ("cls",):
                target = None
                alts = self.expr_alts(fi, f)
                t = self._methods_of(alts, "__call__", ("inst",))
                if t:
                    return [CallSite(q, n, "call", t, args=list(n.args), kwargs=kwargs, receiver=f)]
                for kind, full in alts:
                    if kind == "cls":
                        k = P.class_key(full)
                        if k:
                            return [CallSite(q, n, "call", self._ctor(k), args=list(n.args), kwargs=kwargs, external=f"ctor:{k}")]
                return [CallSite(q, n, "call", [], external=f"local:{f.id}", args=list(n.args), kwargs=kwargs, unresolved=True)]
            if target and target in P.functions:
                return [CallSite(q, n, "call", [target], args=list(n.args), kwargs=kwargs)]
            if target and target in P.classes:
                return [CallSite(q, n, "call", self._ctor(target), args=list(n.args), kwargs=kwargs, external=f"ctor:{target}")]
            if f.id == "cls" and fi.cls:
                key = fi.cls if not fi.module else f"{fi.module}.{fi.cls}"
                return [CallSite(q, n, "call", self._ctor(key), args=list(n.args), kwargs=kwargs, external=f"ctor:{key}")]
            # builtins dispatching to dunders
            if f.id in BUILTIN_DUNDER and n.args:
                alts = self.expr_alts(fi, n.args[0])
                t: List[str] = []
                for d in BUILTIN_DUNDER[f.id]:
                    t += self._methods_of(alts, d, ("inst",))
                if f.id == "str" and not t:
                    t = self._methods_of(alts, "__repr__", ("inst",))
                lit = {}
                if f.id == "format":
                    lit = {0: n.args[1].value if len(n.args) > 1 and isinstance(n.args[1], ast.Constant) else ("" if len(n.args) == 1 else None)}
                return [CallSite(q, n, "builtin", t, external=f"builtins.{f.id}", args=list(n.args[1:]), receiver=n.args[0], literal_args=lit)]
            if f.id in ("sorted", "max", "min") and n.args:
                # orders elements: __lt__ of the element type (unless a key= is given)
                t = []
                if "key" not in kwargs:
                    t = self._element_methods(fi, n.args[0], "__lt__")
                return [CallSite(q, n, "builtin", t, external=f"builtins.{f.id}", args=list(n.args), kwargs=kwargs)]
            if f.id == "sum" and n.args:
                t = self._element_methods(fi, n.args[0], "__add__") + self._element_methods(fi, n.args[0], "__radd__")
                return [CallSite(q, n, "builtin", t, external="builtins.sum", args=list(n.args))]
            if f.id == "reduce" and n.args:
                t = []
                a0 = n.args[0]
                if isinstance(a0, ast.Attribute) and isinstance(a0.value, ast.Name) and a0.value.id == "operator" and len(n.args) > 1:
                    t = self._element_methods(fi, n.args[1], f"__{a0.attr}__")
                return [CallSite(q, n, "builtin", t, external="functools.reduce", args=list(n.args))]
            return [CallSite(q, n, "call", [], external=f"name:{f.id}", args=list(n.args), kwargs=kwargs)]
        if isinstance(f, ast.Attribute):
            # module function?
            tgt = P.resolve_attr_chain(mi, f)
            if tgt and tgt in P.functions and isinstance(f.value, ast.Name) and (P.resolve_name(mi, f.value.id) or "").startswith("<module>"):
                return [CallSite(q, n, "call", [tgt], args=list(n.args), kwargs=kwargs)]
            if tgt and tgt in P.classes:
                return [CallSite(q, n, "call", self._ctor(tgt), args=list(n.args), kwargs=kwargs, external=f"ctor:{tgt}")]
            if isinstance(f.value, ast.Call) and isinstance(f.value.func, ast.Name) and f.value.func.id == "super":
                return [CallSite(q, n, "call", [], external=f"super().{f.attr}", args=list(n.args), kwargs=kwargs)]
            cb = self._transformer_callbacks(mi, f) if f.attr == "parse" else None
            if cb:
                # the embedded Lark parser runs the transformer's callbacks while it parses
                return [CallSite(q, n, "call", cb, external="lark:parse+callbacks", args=[], kwargs={}, receiver=f.value, bound=True)]
            alts = self.expr_alts(fi, f.value)
            t = self._methods_of(alts, f.attr)
            if t:
                via_inst = any(k == "inst" and P.class_key(full) for k, full in alts)
                out3: List[CallSite] = []
                for m in t:
                    fm = P.functions[m]
                    b = (via_inst and not fm.is_static) or (not via_inst and fm.is_classmethod)
                    out3.append(CallSite(q, n, "call", [m], args=list(n.args), kwargs=kwargs, receiver=f.value, bound=b))
                return out3
            # attribute of a function object: f.cache_clear()
            if f.attr in ("cache_clear", "cache_info"):
                inner = None
                if isinstance(f.value, ast.Name):
                    inner = P.resolve_name(mi, f.value.id)
                elif isinstance(f.value, ast.Attribute):
                    inner = P.resolve_attr_chain(mi, f.value)
                    if inner is None:
                        ia = self.expr_alts(fi, f.value.value)
                        ms = self._methods_of(ia, f.value.attr)
                        inner = ms[0] if ms else None
                return [CallSite(q, n, "call", [], external=f"{f.attr}:{inner}", args=list(n.args))]
            pk = [a for a in alts if a[0] in ("inst", "cls") and P.class_key(a[1])]
            return [CallSite(q, n, "call", [], external=f"attr:{ast.unparse(f)}", args=list(n.args),
                             kwargs=kwargs, receiver=f.value, unresolved=bool(pk) or not alts)]
        return [CallSite(q, n, "call", [], external=f"expr:{ast.unparse(f)[:40]}", args=list(n.args), kwargs=kwargs, unresolved=True)]

    def _transformer_callbacks(self, mi: ModuleInfo, f: ast.Attribute) -> List[str]:
        """`parser.parse(..)` where `parser` is a module-level object built as Parser(transformer=T()):
        the methods of T (they are called back by the parser runtime)."""
        if not isinstance(f.value, ast.Name):
            return []
        P = self.prog
        home, name = mi, f.value.id
        if name in mi.imports:
            m_, a_ = mi.imports[name]
            if m_ not in P.modules or not a_:
                return []
            home, name = P.modules[m_], a_
        sts = home.globals_assigned.get(name) or []
        for st in sts:
            v = getattr(st, "value", None)
            if isinstance(v, ast.Call):
                for k in v.keywords:
                    if k.arg == "transformer" and isinstance(k.value, ast.Call) and isinstance(k.value.func, ast.Name):
                        ck = home.classes.get(k.value.func.id)
                        ci = P.classes.get(ck) if ck else None
                        if ci is not None:
                            out = [q_ for q_ in ci.methods.values() if q_ in P.functions]
                            for rhs in ci.aliases.values():
                                for x in ast.walk(rhs):
                                    if isinstance(x, ast.Name):
                                        t_ = P.resolve_name(home, x.id)
                                        if t_ and t_ in P.functions and t_ not in out:
                                            out.append(t_)
                            return out
        return []

    def _element_methods(self, fi: FuncInfo, seq: ast.AST, dunder: str) -> List[str]:
        """Methods `dunder` of the element type of a sequence expression, from mypy's
        type of the sequence (list[T], Iterable[T], Generator[T,..])."""
        t = self.prog.mypy_type(fi.module, seq)
        out: List[str] = []
        if t is None:
            return out
        try:
            from mypy import types as T
            t = T.get_proper_type(t)
            if isinstance(t, T.Instance) and t.args:
                from .model import flatten_type
                alts = flatten_type(t.args[0])
                out = self._methods_of(alts, dunder, ("inst",))
        except Exception:
            pass
        return out

    def _local_names(self, fi: FuncInfo) -> Set[str]:
        c = getattr(fi, "_locals", None)
        if c is not None:
            return c
        names: Set[str] = set(fi.params())
        for n in self._own_nodes(fi.node):
            if isinstance(n, ast.Name) and isinstance(n.ctx, ast.Store):
                names.add(n.id)
        fi._locals = names  # type: ignore[attr-defined]
        return names


# ------------------------------------------------------------------ guards
@dataclass(frozen=True)
class Guard:
    param: str
    kind: str            # 'isinstance' | 'truthy' | 'eq'
    value: Tuple[str, ...]  # class fullnames / ('',) / (repr(literal),)
    positive: bool


def guards_of(fi: FuncInfo, node: ast.AST, resolver: Resolver) -> List[Guard]:
    """Conditions on *parameters* under which `node` executes, from enclosing `if`
    tests of the simple shapes: isinstance(p, T), p, not p, p == lit.  A parameter
    that is reassigned anywhere in the function yields no guard (sound: no pruning)."""
    params = set(fi.params())
    reassigned: Set[str] = getattr(fi, "_reassigned", None)  # type: ignore[assignment]
    if reassigned is None:
        reassigned = set()
        for n in Resolver._own_nodes(fi.node):
            if isinstance(n, ast.Name) and isinstance(n.ctx, ast.Store) and n.id in params:
                reassigned.add(n.id)
        fi._reassigned = reassigned  # type: ignore[attr-defined]
    out: List[Guard] = []
    child = node
    p = getattr(node, "_parent", None)
    while p is not None and p is not fi.node:
        if isinstance(p, ast.If):
            in_body = any(child is s for s in p.body)
            in_else = any(child is s for s in p.orelse)
            if in_body or in_else:
                # a parameter rebound inside the guarded arm itself (the
                # `if isinstance(unit, str): unit = parse(unit)` idiom) still has its
                # incoming value at the test; rebinding *before* the test would not.
                for g in _guards_from_branch(fi, p.test, in_body, params, resolver):
                    if not _rebound_before(fi, g.param, p):
                        out.append(g)
        elif isinstance(p, ast.IfExp):
            if child is p.body or child is p.orelse:
                g = _guard_from_test(fi, p.test, params, resolver)
                if g is not None and not _rebound_before(fi, g.param, p):
                    out.append(Guard(g.param, g.kind, g.value, g.positive if child is p.body else not g.positive))
        elif isinstance(p, ast.BoolOp):
            # short circuit: operand i of `and` runs only if operands < i were true (of `or`: false)
            idx = next((i for i, v in enumerate(p.values) if v is child), None)
            if idx:
                for v in p.values[:idx]:
                    g = _guard_from_test(fi, v, params, resolver)
                    if g is not None and not _rebound_before(fi, g.param, p):
                        out.append(Guard(g.param, g.kind, g.value, g.positive if isinstance(p.op, ast.And) else not g.positive))
        # early exits: `if <test>: return/raise/continue` before `child` in the same block
        for fld in ("body", "orelse", "finalbody"):
            blk = getattr(p, fld, None)
            if isinstance(blk, list) and any(child is s for s in blk):
                for s in blk:
                    if s is child:
                        break
                    if isinstance(s, ast.If) and not s.orelse and s.body and isinstance(s.body[-1], (ast.Return, ast.Raise, ast.Continue)):
                        g = _guard_from_test(fi, s.test, params, resolver)
                        if g is not None and not _rebound_before(fi, g.param, s):
                            out.append(Guard(g.param, g.kind, g.value, not g.positive))
        child = p
        p = getattr(p, "_parent", None)
    if p is fi.node:
        blk = fi.node.body  # type: ignore[attr-defined]
        if any(child is s for s in blk):
            for s in blk:
                if s is child:
                    break
                if isinstance(s, ast.If) and not s.orelse and s.body and isinstance(s.body[-1], (ast.Return, ast.Raise)):
                    g = _guard_from_test(fi, s.test, params, resolver)
                    if g is not None and not _rebound_before(fi, g.param, s):
                        out.append(Guard(g.param, g.kind, g.value, not g.positive))
    return out


def _rebound_before(fi: FuncInfo, param: str, test_stmt: ast.AST) -> bool:
    line = getattr(test_stmt, "lineno", 0)
    for n in Resolver._own_nodes(fi.node):
        if isinstance(n, ast.Name) and isinstance(n.ctx, ast.Store) and n.id == param:
            # inside the tested statement's own arms is fine
            a = n
            inside = False
            while a is not None and a is not fi.node:
                if a is test_stmt:
                    inside = True
                    break
                a = getattr(a, "_parent", None)
            if not inside and getattr(n, "lineno", 0) <= line:
                return True
            if not inside:
                # rebinding after the test in a loop would also matter; be conservative
                b = getattr(test_stmt, "_parent", None)
                while b is not None and b is not fi.node:
                    if isinstance(b, (ast.For, ast.While)):
                        return True
                    b = getattr(b, "_parent", None)
    return False


def _guards_from_branch(fi: FuncInfo, test: ast.AST, taken: bool, params: Set[str], resolver: Resolver) -> List[Guard]:
    """Guards implied by taking (or not taking) a branch: a conjunction that holds gives
    all its conjuncts, a disjunction that fails gives the negation of all disjuncts."""
    neg = False
    t = test
    while isinstance(t, ast.UnaryOp) and isinstance(t.op, ast.Not):
        neg = not neg
        t = t.operand
    eff = taken != neg
    if isinstance(t, ast.BoolOp) and ((isinstance(t.op, ast.And) and eff) or (isinstance(t.op, ast.Or) and not eff)):
        out: List[Guard] = []
        for v in t.values:
            out += _guards_from_branch(fi, v, eff, params, resolver)
        return out
    g = _guard_from_test(fi, test, params, resolver)
    if g is None:
        return []
    return [Guard(g.param, g.kind, g.value, g.positive if taken else not g.positive)]


def _guard_from_test(fi: FuncInfo, test: ast.AST, params: Set[str], resolver: Resolver) -> Optional[Guard]:
    positive = True
    while isinstance(test, ast.UnaryOp) and isinstance(test.op, ast.Not):
        positive = not positive
        test = test.operand
    if isinstance(test, ast.Name) and test.id in params:
        return Guard(test.id, "truthy", ("",), positive)
    if (isinstance(test, ast.Call) and isinstance(test.func, ast.Name) and test.func.id == "isinstance"
            and len(test.args) == 2 and isinstance(test.args[0], ast.Name) and test.args[0].id in params):
        mi = resolver.prog.modules[fi.module]
        ts = test.args[1]
        elts = ts.elts if isinstance(ts, ast.Tuple) else [ts]
        names: List[str] = []
        for e in elts:
            if isinstance(e, ast.Name) and e.id == "NUMERIC_CLASSES":
                names += [n for _, n in NUMERIC]
                continue
            alts = resolver.ann_alts(mi, e)
            if len(alts) != 1 or alts[0][0] != "inst":
                return None
            names.append(alts[0][1])
        return Guard(test.args[0].id, "isinstance", tuple(names), positive)
    if (isinstance(test, ast.Compare) and len(test.ops) == 1 and isinstance(test.ops[0], (ast.Eq, ast.NotEq))
            and isinstance(test.left, ast.Name) and test.left.id in params
            and isinstance(test.comparators[0], ast.Constant)):
        pos = positive if isinstance(test.ops[0], ast.Eq) else not positive
        return Guard(test.left.id, "eq", (repr(test.comparators[0].value),), pos)
    return None


SUBCLASS = {"builtins.bool": "builtins.int"}


def guard_satisfiable(g: Guard, values: Optional[Set[Tuple[str, str]]]) -> bool:
    """values: abstract values observed for the parameter: ('inst', fullname),
    ('none',''), ('lit', repr), ('any','') ...; None = unknown (anything)."""
    if values is None or not values:
        return True
    if any(k in ("any", "other", "callable", "tuple") for k, _ in values):
        return True
    if g.kind == "isinstance":
        def matches(v: Tuple[str, str]) -> bool:
            k, n = v
            if k == "lit":
                n = "builtins." + type(eval(n)).__name__ if n != "None" else ""  # noqa: S307 - repr of a constant
                k = "inst" if n else "none"
            if k != "inst":
                return False
            return n in g.value or SUBCLASS.get(n) in g.value or "builtins.object" in g.value
        if g.positive:
            return any(matches(v) for v in values)
        return any(not matches(v) for v in values)
    if g.kind == "truthy":
        def may_true(v: Tuple[str, str]) -> bool:
            k, n = v
            if k == "none":
                return False
            if k == "lit":
                return bool(eval(n))  # noqa: S307
            return True

        def may_false(v: Tuple[str, str]) -> bool:
            k, n = v
            if k == "none":
                return True
            if k == "lit":
                return not bool(eval(n))  # noqa: S307
            if k == "inst" and n.startswith(PKG + "."):
                return False  # package classes define no __bool__/__len__ (checked by caller)
            return True
        return any(may_true(v) for v in values) if g.positive else any(may_false(v) for v in values)
    if g.kind == "eq":
        def may_eq(v: Tuple[str, str]) -> bool:
            k, n = v
            if k == "lit":
                return n == g.value[0]
            if k == "none":
                return g.value[0] == "None"
            return True

        def may_ne(v: Tuple[str, str]) -> bool:
            k, n = v
            if k == "lit":
                return n != g.value[0]
            return True
        return any(may_eq(v) for v in values) if g.positive else any(may_ne(v) for v in values)
    return True


# ------------------------------------------------------------ reachability
class Reach:
    """Context-pruned reachability from entry points (one level of call-site
    specialisation: each parameter gets the join of its arguments over the call sites
    inside the reachable set; arms whose guard is unsatisfiable under it are dropped)."""

    def __init__(self, resolver: Resolver, entries: Iterable[str], prune: bool = True,
                 entry_values: Optional[Dict[Tuple[str, str], Set[Tuple[str, str]]]] = None) -> None:
        self.r = resolver
        self.prog = resolver.prog
        self.prune = prune
        self.entries = list(entries)
        self.values: Dict[Tuple[str, str], Set[Tuple[str, str]]] = {}
        self.reached: Set[str] = set()
        self.edges: Dict[str, Set[str]] = {}
        self.pred: Dict[str, Tuple[str, ast.AST]] = {}
        self.sites: Dict[str, List[CallSite]] = {}     # feasible call sites per function
        self.pruned: List[Tuple[str, str, int, str]] = []
        for e in self.entries:
            fi = self.prog.func(e)
            mi = self.prog.modules[fi.module]
            a = fi.node.args  # type: ignore[attr-defined]
            allargs = a.posonlyargs + a.args + a.kwonlyargs
            for x in allargs:
                v = set(resolver.ann_alts(mi, x.annotation)) if x.annotation is not None else {("any", "")}
                if entry_values and (e, x.arg) in entry_values:
                    v = set(entry_values[(e, x.arg)])
                self.values[(e, x.arg)] = v or {("any", "")}
        self._run()

    def _param_values(self, f: str, p: str) -> Optional[Set[Tuple[str, str]]]:
        return self.values.get((f, p))

    def _arg_abstract(self, caller: FuncInfo, expr: ast.AST) -> Set[Tuple[str, str]]:
        if isinstance(expr, ast.Constant):
            if expr.value is None:
                return {("none", "")}
            if isinstance(expr.value, (str, int, float, bool)):
                return {("lit", repr(expr.value))}
        if isinstance(expr, ast.Name) and expr.id in caller.params() and expr.id not in getattr(caller, "_reassigned", set()):
            v = self.values.get((caller.qual, expr.id))
            if v:
                # narrow by the guards under which this very expression is evaluated
                gs = [g for g in guards_of(caller, expr, self.r) if g.param == expr.id]
                if gs:
                    nv = {x for x in v if all(guard_satisfiable(g, {x}) for g in gs)}
                    if nv:
                        return nv
                return set(v)
        alts = self.r.expr_alts(caller, expr)
        return set(alts) if alts else {("any", "")}

    def _bind(self, caller: FuncInfo, cs: CallSite, callee: FuncInfo) -> bool:
        """Join the call site's arguments into callee's parameter values; True if changed."""
        a = callee.node.args  # type: ignore[attr-defined]
        pos = a.posonlyargs + a.args
        allargs = pos + a.kwonlyargs
        defaults: Dict[str, ast.AST] = {}
        for x, d in zip(reversed(pos), reversed(a.defaults)):
            defaults[x.arg] = d
        for x, d in zip(a.kwonlyargs, a.kw_defaults):
            if d is not None:
                defaults[x.arg] = d
        names = [x.arg for x in pos]
        bound: Dict[str, Set[Tuple[str, str]]] = {}
        # receiver
        is_ctor = cs.external is not None and cs.external.startswith("ctor:")
        takes_self = cs.bound and bool(names)
        offset = 1 if takes_self else 0
        args = list(cs.args)
        if cs.kind == "builtin" and cs.external in ("functools.reduce", "builtins.sum", "builtins.sorted", "builtins.max", "builtins.min"):
            args = []
            for nm in names[offset:]:
                bound[nm] = {("any", "")}
        # reflected operand: for a binop resolved to the right operand's __rop__, the
        # argument is the left operand
        if cs.kind in ("binop", "compare") and cs.receiver is not None and args:
            both = [cs.receiver, args[0]]
            if len(names) >= 2:
                vals: Set[Tuple[str, str]] = set()
                for e in both:
                    vals |= self._arg_abstract(caller, e)
                bound[names[1]] = vals
            args = []
        for i, e in enumerate(args):
            if isinstance(e, ast.Starred):
                for nm in names[offset + i:]:
                    bound[nm] = {("any", "")}
                if a.vararg:
                    pass
                break
            if offset + i < len(names):
                bound[names[offset + i]] = self._arg_abstract(caller, e)
        for i, lit in cs.literal_args.items():
            if offset + i < len(names):
                bound[names[offset + i]] = {("lit", repr(lit))} if lit is not None else {("any", "")}
        for k, e in cs.kwargs.items():
            bound[k] = self._arg_abstract(caller, e)
        changed = False
        for x in allargs:
            nm = x.arg
            if nm in bound:
                v = bound[nm]
            elif nm in defaults and not (takes_self and nm == names[0] and offset == 1):
                d = defaults[nm]
                v = self._arg_abstract(callee, d) if isinstance(d, ast.Constant) else {("any", "")}
            elif takes_self and names and nm == names[0]:
                if callee.cls:
                    key = callee.cls if not callee.module else f"{callee.module}.{callee.cls}"
                    v = {("cls" if callee.is_classmethod or callee.name == "__new__" else "inst", f"{PKG}.{key}")}
                elif cs.receiver is not None:
                    v = self._arg_abstract(caller, cs.receiver)
                else:
                    v = {("any", "")}
            else:
                v = {("any", "")}
            if any(k == "any" for k, _ in v) and x.annotation is not None:
                # a dynamically typed argument is assumed to conform to the declared
                # parameter annotation (the package type-checks under mypy --strict)
                ann = set(self.r.ann_alts(self.prog.modules[callee.module], x.annotation))
                if ann and not any(k in ("any", "other") for k, _ in ann) and ("inst", "builtins.object") not in ann:
                    v = {a for a in v if a[0] != "any"} | ann
            cur = self.values.setdefault((callee.qual, nm), set())
            if not v <= cur:
                cur |= v
                changed = True
        return changed

    def _run(self) -> None:
        work = list(self.entries)
        self.reached = set(self.entries)
        guard = 0
        while work:
            guard += 1
            if guard > 20000:
                raise AnalysisError("reachability did not converge")
            f = work.pop()
            fi = self.prog.functions[f]
            feasible: List[CallSite] = []
            for cs in self.r.callsites(f):
                if self.prune:
                    gs = guards_of(fi, cs.node, self.r)
                    if any(not guard_satisfiable(g, self._param_values(f, g.param)) for g in gs):
                        continue
                feasible.append(cs)
                for t in cs.targets:
                    callee = self.prog.functions[t]
                    changed = self._bind(fi, cs, callee)
                    self.edges.setdefault(f, set()).add(t)
                    if t not in self.reached:
                        self.reached.add(t)
                        self.pred[t] = (f, cs.node)
                        work.append(t)
                    elif changed:
                        work.append(t)
            self.sites[f] = feasible
            # nested functions defined in f are reachable with it (closures returned/called)
            for q2, f2 in self.prog.functions.items():
                if f2.parent == f and q2 not in self.reached:
                    self.reached.add(q2)
                    self.pred[q2] = (f, f2.node)
                    work.append(q2)

    def feasible_node(self, f: str, node: ast.AST) -> bool:
        """Is a statement/expression inside reached function f on a feasible arm?"""
        if not self.prune:
            return True
        fi = self.prog.functions[f]
        gs = guards_of(fi, node, self.r)
        return all(guard_satisfiable(g, self._param_values(f, g.param)) for g in gs)

    def path_to(self, f: str) -> List[str]:
        out = [f]
        while out[-1] in self.pred:
            out.append(self.pred[out[-1]][0])
            if len(out) > 200:
                break
        return list(reversed(out))
