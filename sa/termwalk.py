"""R11.6 - the text form of a unit means the unit: a symbolic walk of formatting._unit_to_magnitude_and_terms.

The function turns a unit (prefix P, factors f_1**x_1 ... f_n**x_n) into a leading magnitude m and a list of terms
(p_i, symbol_i, exponent_i); every renderer (str, MathML, and through str the JSON / SQL forms) prints
`m  p_1 s_1^e_1 . p_2 s_2^e_2 ...`, which reads back as  m * prod (p_i * unit(s_i)) ** e_i.  The text means the unit iff

    ln m + sum_i e_i * ln p_i  =  ln P + sum_i x_i * ln prefix(f_i)        (values)
    (s_i, e_i) = (symbol(f_i), x_i)                                         (terms)

Decided in log-space over a list abstracted as `first element + unchanged rest` (the function only ever touches the
first term).  The statements it is made of are interpreted (assignments, tuple / starred unpacking, try / except, if,
return); every path to a return is checked.  Anything outside that subset ends in an AnalysisError (no verdict)."""
from __future__ import annotations

import ast
from dataclasses import dataclass, field
from typing import Dict, List, Optional, Tuple, Union

from .core import AnalysisError
from .poly import Rat


@dataclass
class Log:
    """a prefix (or a number) known by its logarithm"""
    v: Rat


@dataclass
class Sym:
    name: str


@dataclass
class Tup:
    items: List["Val"]


@dataclass
class Lst:
    """explicit leading elements followed by the untouched tail of the factor list"""
    head: List["Val"]
    tail: bool


@dataclass
class Rest:
    pass


Val = Union[Log, Sym, Tup, Lst, Rest]


class NoVerdict(Exception):
    pass


@dataclass
class Path:
    env: Dict[str, Val]
    conds: List[str] = field(default_factory=list)


class TermWalk:
    def __init__(self, fn: ast.FunctionDef) -> None:
        self.fn = fn
        self.unit = fn.args.args[0].arg
        self.returns: List[Tuple[Path, Val, ast.AST]] = []
        self.P = Rat.atom("ln(P)")
        self.fp = Rat.atom("ln(prefix(f1))")
        self.x = Rat.atom("x1")

    # ------------------------------------------------------------ expressions
    def ev(self, e: ast.AST, env: Dict[str, Val]) -> Val:
        if isinstance(e, ast.Constant) and isinstance(e.value, (int, float)) and e.value == 1:
            return Log(Rat.const(0))
        if isinstance(e, ast.Name):
            if e.id in env:
                return env[e.id]
            raise NoVerdict(f"name {e.id}")
        if isinstance(e, ast.Attribute) and isinstance(e.value, ast.Name) and e.value.id == self.unit and e.attr == "prefix":
            return Log(self.P)
        if isinstance(e, ast.Tuple):
            return Tup([self.ev(x, env) for x in e.elts])
        if isinstance(e, ast.List):
            head: List[Val] = []
            tail = False
            for x in e.elts:
                if isinstance(x, ast.Starred):
                    v = self.ev(x.value, env)
                    if isinstance(v, Rest) and not tail:
                        tail = True
                        continue
                    if isinstance(v, Lst) and not tail:
                        head += v.head
                        tail = v.tail
                        continue
                    raise NoVerdict("starred element")
                if tail:
                    raise NoVerdict("an element after the tail of the term list")
                head.append(self.ev(x, env))
            return Lst(head, tail)
        if isinstance(e, (ast.ListComp, ast.GeneratorExp)) and len(e.generators) == 1 and not e.generators[0].ifs:
            g = e.generators[0]
            it = ast.unparse(g.iter).replace(" ", "")
            if it == f"{self.unit}.factors.items()" and isinstance(g.target, ast.Tuple) and len(g.target.elts) == 2 \
                    and all(isinstance(t, ast.Name) for t in g.target.elts):
                fvar, xvar = (t.id for t in g.target.elts)  # type: ignore[union-attr]
                first = self.elem(e.elt, fvar, xvar)
                # the same expression builds every element: the tail elements are the spec's iff the first one is
                return Lst([first], True)
            raise NoVerdict("comprehension over something other than unit.factors.items()")
        if isinstance(e, ast.BinOp) and isinstance(e.op, (ast.Mult, ast.Div)):
            a, b = self.ev(e.left, env), self.ev(e.right, env)
            if isinstance(a, Log) and isinstance(b, Log):
                return Log(a.v + b.v if isinstance(e.op, ast.Mult) else a.v - b.v)
            raise NoVerdict(ast.unparse(e)[:40])
        if isinstance(e, ast.BinOp) and isinstance(e.op, ast.Pow):
            a = self.ev(e.left, env)
            b = self.ev(e.right, env)
            if isinstance(a, Log) and isinstance(b, Sym) and b.name == "x1":
                return Log(a.v * self.x)
            raise NoVerdict(ast.unparse(e)[:40])
        if isinstance(e, ast.Call) and isinstance(e.func, ast.Attribute) and not e.keywords:
            recv = self.ev(e.func.value, env)
            if isinstance(recv, Log) and e.func.attr == "quantify" and not e.args:
                return Log(recv.v)
            if isinstance(recv, Log) and e.func.attr == "root" and len(e.args) == 1:
                d = self.ev(e.args[0], env)
                if isinstance(d, Sym) and d.name == "x1":
                    return Log(recv.v / self.x)
            raise NoVerdict(ast.unparse(e)[:40])
        if isinstance(e, ast.Call) and isinstance(e.func, ast.Name) and e.func.id in ("list", "tuple") and len(e.args) == 1:
            return self.ev(e.args[0], env)
        raise NoVerdict(ast.unparse(e)[:40])

    def elem(self, elt: ast.AST, fvar: str, xvar: str) -> Val:
        def one(x: ast.AST) -> Val:
            t = ast.unparse(x).replace(" ", "")
            if t == f"{fvar}.prefix":
                return Log(self.fp)
            if t == f"{fvar}.symbol":
                return Sym("s1")
            if t == xvar:
                return Sym("x1")
            return Sym(f"?{t[:30]}")
        if isinstance(elt, ast.Tuple):
            return Tup([one(x) for x in elt.elts])
        return one(elt)

    # ------------------------------------------------------------ statements
    def bind(self, target: ast.AST, v: Val, env: Dict[str, Val]) -> None:
        if isinstance(target, ast.Name):
            env[target.id] = v
            return
        if isinstance(target, (ast.Tuple, ast.List)):
            star = [i for i, t in enumerate(target.elts) if isinstance(t, ast.Starred)]
            if isinstance(v, Tup) and not star and len(v.items) == len(target.elts):
                for t, x in zip(target.elts, v.items):
                    self.bind(t, x, env)
                return
            if isinstance(v, Lst) and len(star) == 1 and star[0] == len(target.elts) - 1 and len(v.head) >= star[0] and v.tail:
                k = star[0]
                for t, x in zip(target.elts[:k], v.head[:k]):
                    self.bind(t, x, env)
                rest_head = v.head[k:]
                self.bind(target.elts[k].value, Lst(rest_head, True) if rest_head else Rest(), env)  # type: ignore[attr-defined]
                return
        if isinstance(target, ast.Subscript) and isinstance(target.value, ast.Name) and isinstance(target.slice, ast.Constant) \
                and isinstance(target.slice.value, int) and not isinstance(target.slice.value, bool):
            # `terms[0] = (prefix, symbol, exponent)`: that element of the term list is replaced (a new list value: paths share nothing)
            cur = env.get(target.value.id)
            k = target.slice.value
            if isinstance(cur, Lst) and 0 <= k < len(cur.head):
                head = list(cur.head)
                head[k] = v
                env[target.value.id] = Lst(head, cur.tail)
                return
        raise NoVerdict(f"assignment to {ast.unparse(target)[:40]}")

    def may_raise(self, st: ast.stmt) -> bool:
        return any(isinstance(c, ast.Call) for c in ast.walk(st))

    def block(self, body: List[ast.stmt], paths: List[Path]) -> List[Path]:
        for st in body:
            nxt: List[Path] = []
            for p in paths:
                nxt += self.stmt(st, p)
            paths = nxt
        return paths

    def stmt(self, st: ast.stmt, p: Path) -> List[Path]:
        env = p.env
        if isinstance(st, (ast.Import, ast.ImportFrom, ast.Pass)) or (isinstance(st, ast.Expr) and isinstance(st.value, ast.Constant)):
            return [p]
        if isinstance(st, ast.Assign) and len(st.targets) == 1:
            self.bind(st.targets[0], self.ev(st.value, env), env)
            return [p]
        if isinstance(st, ast.AnnAssign):
            if st.value is not None:
                self.bind(st.target, self.ev(st.value, env), env)
            return [p]
        if isinstance(st, ast.Return):
            if st.value is None:
                raise NoVerdict("bare return")
            self.returns.append((p, self.ev(st.value, env), st))
            return []
        if isinstance(st, ast.For) and not st.orelse and ast.unparse(st.iter).replace(" ", "") == f"{self.unit}.factors.items()" \
                and isinstance(st.target, ast.Tuple) and len(st.target.elts) == 2 and all(isinstance(t, ast.Name) for t in st.target.elts) \
                and len(st.body) == 1 and isinstance(st.body[0], ast.Expr) and isinstance(st.body[0].value, ast.Call):
            # `for factor, exponent in unit.factors.items(): terms.append(<term>)` - the comprehension, spelled as a loop
            c = st.body[0].value
            if isinstance(c.func, ast.Attribute) and c.func.attr == "append" and isinstance(c.func.value, ast.Name) and len(c.args) == 1:
                cur = env.get(c.func.value.id)
                if isinstance(cur, Lst) and not cur.head and not cur.tail:
                    fvar, xvar = (t.id for t in st.target.elts)  # type: ignore[union-attr]
                    env[c.func.value.id] = Lst([self.elem(c.args[0], fvar, xvar)], True)
                    return [p]
            raise NoVerdict("loop over the factors that is not a plain append")
        if isinstance(st, ast.If):
            a = Path(dict(env), p.conds + [ast.unparse(st.test)[:50]])
            b = Path(dict(env), p.conds + ["not " + ast.unparse(st.test)[:50]])
            return self.block(st.body, [a]) + self.block(st.orelse, [b])
        if isinstance(st, ast.Try) and not st.finalbody and len(st.handlers) == 1:
            # the body completes, or it is abandoned at a statement that may raise (state as before that statement)
            out: List[Path] = []
            cur = [Path(dict(env), list(p.conds))]
            for i, s in enumerate(st.body):
                if self.may_raise(s):
                    for c in cur:
                        h = Path(dict(c.env), c.conds + [f"{ast.unparse(s)[:40]} raises"])
                        out += self.block(st.handlers[0].body, [h])
                cur = self.block([s], cur)
            # `else:` runs after a body that completed; what it raises is not caught here
            if st.orelse:
                cur = self.block(st.orelse, cur)
            return out + cur
        raise NoVerdict(f"statement {type(st).__name__}")

    def run(self) -> List[Tuple[Path, Val, ast.AST]]:
        try:
            left = self.block(self.fn.body, [Path({})])
        except NoVerdict as e:
            raise AnalysisError(f"formatting.{self.fn.name}: outside the interpreted subset ({e})")
        if left:
            raise AnalysisError(f"formatting.{self.fn.name}: a path falls off the end of the function")
        return self.returns


def judge(w: TermWalk, v: Val) -> Tuple[bool, str]:
    """-> (the returned (magnitude, terms) mean the unit, why not)"""
    if not (isinstance(v, Tup) and len(v.items) == 2):
        return False, "does not return (magnitude, terms)"
    m, terms = v.items
    if not isinstance(m, Log):
        return False, "the magnitude is not a number derived from the unit's prefix"
    if not (isinstance(terms, Lst) and terms.tail and len(terms.head) == 1):
        return False, "the terms are not one per factor (first term followed by the untouched rest)"
    t = terms.head[0]
    if not (isinstance(t, Tup) and len(t.items) == 3):
        return False, "a term is not (prefix, symbol, exponent)"
    p, s, x = t.items
    if not (isinstance(s, Sym) and s.name == "s1"):
        return False, f"the first term's symbol is {getattr(s, 'name', s)}, not the factor's own symbol"
    if not (isinstance(x, Sym) and x.name == "x1"):
        return False, f"the first term's exponent is {getattr(x, 'name', x)}, not the factor's own exponent"
    if not isinstance(p, Log):
        return False, "the first term's prefix is not a prefix derived from the unit's and the factor's"
    # the keys of Unit.factors are base units, and a base unit carries the identity prefix (Unit.define builds it with
    # IdentityPrefix; products and powers only merge factor maps): ln prefix(f_i) = 0
    got = (m.v + w.x * p.v).subst("ln(prefix(f1))", Rat.const(0))
    want = (w.P + w.x * w.fp).subst("ln(prefix(f1))", Rat.const(0))
    if got != want:
        return False, f"ln(magnitude) + x1*ln(prefix of the first term) = {got!r}, but the unit is worth {want!r}"
    return True, ""


def term_splitter(prog):  # type: ignore[no-untyped-def]
    """The function of measured.formatting that turns a unit into (leading magnitude, terms): by its name, or - a private helper
    may be renamed - the one function of the module that takes the unit and returns a pair on every return, and whose result a
    renderer unpacks into two names."""
    q0 = "formatting._unit_to_magnitude_and_terms"
    if q0 in prog.functions:
        return prog.functions[q0]
    called = set()
    for q, fi in prog.functions.items():
        if fi.module != "formatting":
            continue
        for n in ast.walk(fi.node):
            if isinstance(n, ast.Assign) and isinstance(n.value, ast.Call) and isinstance(n.value.func, ast.Name) and len(n.targets) == 1 \
                    and isinstance(n.targets[0], ast.Tuple) and len(n.targets[0].elts) == 2 and len(n.value.args) == 1:
                called.add(n.value.func.id)
    cands = []
    for name in sorted(called):
        fi = prog.functions.get(f"formatting.{name}")
        if fi is None or len(fi.params()) != 1:
            continue
        rets = [r for r in ast.walk(fi.node) if isinstance(r, ast.Return) and r.value is not None]
        if rets and all(isinstance(r.value, ast.Tuple) and len(r.value.elts) == 2 for r in rets) \
                and any(isinstance(x, ast.Attribute) and x.attr == "factors" for x in ast.walk(fi.node)):
            cands.append(fi)
    if len(cands) != 1:
        raise AnalysisError("anchor function formatting._unit_to_magnitude_and_terms not found (and no single function of measured.formatting "
                            "returns (magnitude, terms) of a unit)")
    return cands[0]
