"""Entry point: ./check <property> [--tier quick|thorough] [--replay <path>]"""
from __future__ import annotations

import argparse
import importlib
import json
import os
import sys

sys.path.insert(0, os.path.dirname(os.path.dirname(os.path.abspath(__file__))))

from sa import core  # noqa: E402
from sa.levels import LEVELS  # noqa: E402


def main() -> int:
    ap = argparse.ArgumentParser()
    ap.add_argument("prop")
    ap.add_argument("--tier", default=os.environ.get("VERIF_TIER", "quick"), choices=["quick", "thorough"])
    ap.add_argument("--replay", default=None)
    a = ap.parse_args()
    prop = a.prop.upper()
    core.LEVELS.update(LEVELS)
    if a.replay:
        try:
            with open(a.replay) as fh:
                data = json.load(fh)
            print(json.dumps(data, indent=1, ensure_ascii=False))
        except OSError as e:
            print(f"cannot read replay file: {e}")
    try:
        mod = importlib.import_module(f"sa.props.{prop.lower()}")
    except ModuleNotFoundError:
        print(f"ANALYSIS-ERROR property={prop}: no check registered")
        return 2
    def run(rep: "core.Report") -> None:
        mod.run(rep)
        if a.tier == "thorough" and not os.environ.get("VERIF_NO_SELFTEST"):
            from sa import selftest
            rep.extra["self_validation"] = selftest.run_for(prop)
    rc = core.run_check(prop, a.tier, run, getattr(mod, "TITLE", ""))
    sys.stdout.flush()
    return rc


if __name__ == "__main__":
    rc = main()
    sys.stdout.flush()
    sys.stderr.flush()
    os._exit(rc)  # mypy's teardown costs seconds
