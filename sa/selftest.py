"""Self-validation of the checker, both ways (run by the `thorough` tier; the verdict on
/repo never depends on it):

  * controls - seeded changes (`seeded/<id>/patch.diff`) that this property's check is
    recorded to catch, and small per-rule positive controls (`selftest/controls/<prop>/*.diff`):
    applied to a scratch copy of /repo's *current working tree*, the check must report a
    VIOLATION (naming the expected rule when one is recorded);
  * benign - behaviour-preserving refactorings (`selftest/benign/<name>/patch.diff`): the check
    must stay silent (exit 0).

Scratch copies live in a fresh temporary directory outside /repo and /verif and are removed
as soon as each variant is done.  A patch that no longer applies to the current tree is
reported as stale, not as a failure.
"""
from __future__ import annotations

import concurrent.futures as cf
import glob
import json
import os
import re
import shutil
import subprocess
import tempfile
from typing import Any, Dict, List, Optional

from .core import REPO, VERIF


def _scratch() -> str:
    d = tempfile.mkdtemp(prefix="vst_")
    shutil.copytree(os.path.join(REPO, "src"), os.path.join(d, "src"),
                    ignore=shutil.ignore_patterns("__pycache__", "*.pyc", "*.egg-info"))
    for f in ("Makefile",):
        if os.path.exists(os.path.join(REPO, f)):
            shutil.copy(os.path.join(REPO, f), os.path.join(d, f))
    return d


def _run_variant(prop: str, patch: str) -> Dict[str, Any]:
    d = _scratch()
    try:
        a = subprocess.run(["git", "apply", patch], cwd=d, capture_output=True, text=True)
        if a.returncode:
            return {"patch": os.path.relpath(patch, VERIF), "stale": True, "why": a.stderr.strip()[:120]}
        env = dict(os.environ, VERIF_REPO=d, VERIF_EVIDENCE_DIR=os.path.join(d, ".ev"), VERIF_REPLAY_DIR=os.path.join(d, ".replay"),
                   VERIF_TIER="quick")
        p = subprocess.run([os.path.join(VERIF, "check"), prop, "--tier", "quick"], env=env, capture_output=True, text=True)
        rules = sorted(set(re.findall(r"^  FINDING (\S+) ", p.stdout, re.M)))
        err = re.findall(r"^ANALYSIS-ERROR.*$", p.stdout, re.M)
        return {"patch": os.path.relpath(patch, VERIF), "rc": p.returncode, "rules": rules, "error": err[0][:160] if err else ""}
    finally:
        shutil.rmtree(d, ignore_errors=True)


def discover(prop: str) -> Dict[str, List[Dict[str, Any]]]:
    controls: List[Dict[str, Any]] = []
    for meta in sorted(glob.glob(os.path.join(VERIF, "seeded", "*", "meta.json"))):
        try:
            m = json.load(open(meta))
        except Exception:
            continue
        det = m.get("detected_by", {})
        if prop in det:
            controls.append({"patch": os.path.join(os.path.dirname(meta), "patch.diff"), "expect_rules": det[prop]})
    for p in sorted(glob.glob(os.path.join(VERIF, "selftest", "controls", prop, "*.diff"))):
        exp = None
        mj = p[:-5] + ".json"
        if os.path.exists(mj):
            exp = json.load(open(mj)).get("expect_rules")
        controls.append({"patch": p, "expect_rules": exp or []})
    benign = [{"patch": p} for p in sorted(glob.glob(os.path.join(VERIF, "selftest", "benign", "*", "patch.diff")))]
    return {"controls": controls, "benign": benign}


def run_for(prop: str, jobs: int = 8) -> Dict[str, Any]:
    found = discover(prop)
    out: Dict[str, Any] = {"controls": [], "benign": []}
    with cf.ThreadPoolExecutor(max_workers=jobs) as ex:
        cres = list(ex.map(lambda c: (c, _run_variant(prop, c["patch"])), found["controls"]))
        bres = list(ex.map(lambda c: (c, _run_variant(prop, c["patch"])), found["benign"]))
    fired = missed = stale = 0
    for c, r in cres:
        if r.get("stale"):
            stale += 1
            r["verdict"] = "stale"
        else:
            want = set(c.get("expect_rules") or [])
            ok = r["rc"] == 1 and (not want or bool(want & set(r["rules"])))
            r["verdict"] = "fired" if ok else "MISSED"
            fired += ok
            missed += (not ok)
            r["expected_rules"] = sorted(want)
        out["controls"].append(r)
    silent = noisy = bstale = 0
    for c, r in bres:
        if r.get("stale"):
            bstale += 1
            r["verdict"] = "stale"
        else:
            ok = r["rc"] == 0
            r["verdict"] = "silent" if ok else ("FALSE ALARM" if r["rc"] == 1 else "ANALYSIS ERROR")
            silent += ok
            noisy += (not ok)
        out["benign"].append(r)
    out["summary"] = {"controls": len(cres), "fired": fired, "missed": missed, "stale": stale,
                      "benign": len(bres), "silent": silent, "not_silent": noisy, "benign_stale": bstale}
    print(f"SELFTEST property={prop}: controls fired {fired}/{len(cres) - stale} (stale {stale}); "
          f"benign silent {silent}/{len(bres) - bstale} (stale {bstale})")
    for c, r in cres:
        if r["verdict"] == "MISSED":
            print(f"  SELFTEST-MISSED {r['patch']} rc={r['rc']} rules={r['rules']} expected={r.get('expected_rules')}")
    for c, r in bres:
        if r["verdict"] not in ("silent", "stale"):
            print(f"  SELFTEST-NOISE {r['patch']} {r['verdict']} rules={r.get('rules')} {r.get('error', '')}")
    return out
