"""Shared set-up for the E4-based rules: default abstract arguments per function,
running one function and collecting its outcomes and events."""
from __future__ import annotations

import ast
import itertools
from dataclasses import dataclass
from typing import Any, Dict, List, Optional, Tuple

from . import specs
from .absint import (AV, ONE, G, Event, GroupV, IntParam, Interp, LevelV, LogUnitV, MeasV, NumV,
                     OpaqueV, Outcome, PrefixS, QuantV, StrV, UnitV, identity, prefix_struct, unit_atom)
from .calls import Resolver
from .core import AnalysisError
from .model import FuncInfo, Program
from .poly import Lin, Rat


def quant_atom(name: str, mag_atom: Optional[str] = None) -> QuantV:
    u = unit_atom(name)
    return QuantV(NumV(Rat.atom(mag_atom or f"m:{name}"), u), u)


def meas_atom(name: str) -> MeasV:
    u = unit_atom(name)
    return MeasV(QuantV(NumV(Rat.atom(f"x:{name}"), u), u), QuantV(NumV(Rat.atom(f"s:{name}"), u), u))


def logunit_atom() -> LogUnitV:
    ref = quant_atom("ref", "r")
    return LogUnitV(Rat.atom("B"), Rat.atom("p"), Rat.atom("k"), ref)


def value_for(kind: str, pname: str, layer: str) -> Optional[AV]:
    if kind == "Unit":
        return unit_atom(pname)
    if kind == "Quantity":
        return quant_atom(pname)
    if kind == "Measurement":
        return meas_atom(pname)
    if kind == "Prefix":
        return prefix_struct(pname) if layer == "prefix" else G("P", pname)
    if kind == "Dimension":
        return G("D", pname)
    if kind == "int":
        return IntParam(pname, Lin.sym(pname))
    if kind in ("Numeric", "float", "Decimal"):
        return NumV(Rat.atom(f"n:{pname}"))
    if kind == "str":
        return StrV(None)
    if kind == "LogarithmicUnit":
        return logunit_atom()
    if kind == "Level":
        return LevelV(NumV(Rat.atom(f"L:{pname}")), logunit_atom())
    return None


def annotation_kinds(prog: Program, resolver: Resolver, fi: FuncInfo, ann: Optional[ast.AST]) -> List[str]:
    if ann is None:
        return []
    alts = resolver.ann_alts(prog.modules[fi.module], ann)
    out: List[str] = []
    nums = {"builtins.int", "builtins.float", "decimal.Decimal"}
    fulls = {n for k, n in alts if k == "inst"}
    if nums <= fulls:
        out.append("Numeric")
        fulls -= nums
    for n in sorted(fulls):
        short = n.split(".")[-1]
        out.append({"int": "int", "float": "float", "Decimal": "Decimal", "str": "str"}.get(short, short))
    return out


def _destructures_factors(fi: FuncInfo) -> bool:
    for st in ast.walk(fi.node):
        if isinstance(st, ast.Assign) and len(st.targets) == 1 and isinstance(st.targets[0], (ast.Tuple, ast.List)) and len(st.targets[0].elts) == 1 \
                and isinstance(st.targets[0].elts[0], (ast.Tuple, ast.List)) and isinstance(st.value, ast.Call) \
                and isinstance(st.value.func, ast.Attribute) and st.value.func.attr == "items":
            return True
    return False


def default_arg_sets(prog: Program, resolver: Resolver, qual: str, layer: str,
                     override: Optional[Dict[str, List[AV]]] = None) -> List[Dict[str, AV]]:
    """One abstract argument binding per combination of annotated alternatives."""
    fi = prog.func(qual)
    a = fi.node.args  # type: ignore[attr-defined]
    allargs = a.posonlyargs + a.args + a.kwonlyargs
    choices: List[List[Tuple[str, AV]]] = []
    for i, x in enumerate(allargs):
        if override and x.arg in override:
            choices.append([(x.arg, v) for v in override[x.arg]])
            continue
        if i == 0 and fi.cls and not fi.is_static and x.annotation is None:
            if fi.is_classmethod or fi.name == "__new__":
                choices.append([(x.arg, OpaqueV("cls"))])
                continue
            v = value_for(fi.cls, x.arg, layer)
            alts_: List[Tuple[str, AV]] = [(x.arg, v if v is not None else OpaqueV(fi.cls))]
            if fi.cls == "Unit" and isinstance(v, UnitV) and _destructures_factors(fi):
                # the body takes `self` apart as base ** exponent: also run it on exactly such a unit
                # (exponents 2 and -3: an identity that is linear in the exponent and holds for both holds for all)
                for k_ in (2, -3):
                    xe = Lin(k_)
                    alts_.append((x.arg, UnitV(identity("P"), GroupV("F", ((f"F:{x.arg}_base", xe),)), GroupV("D", ((f"D:{x.arg}_base", xe),)))))
            choices.append(alts_)
            continue
        kinds = annotation_kinds(prog, resolver, fi, x.annotation)
        vals = [(x.arg, value_for(k, x.arg, layer)) for k in kinds]
        vals = [(n, v) for n, v in vals if v is not None]
        if not vals:
            vals = [(x.arg, OpaqueV(f"parameter {x.arg}"))]
        choices.append(vals)  # type: ignore[arg-type]
    out: List[Dict[str, AV]] = []
    for combo in itertools.islice(itertools.product(*choices), 64):
        out.append(dict(combo))
    return out


@dataclass
class Run:
    qual: str
    args: Dict[str, AV]
    outcomes: List[Outcome]
    events: List[Event]
    interp: Interp


def std_globals(it: Interp) -> None:
    it.globals["IdentityPrefix"] = identity("P")
    it.globals["One"] = ONE
    it.globals["Number"] = identity("D")


def run_function(prog: Program, resolver: Resolver, qual: str, layers: Tuple[str, ...],
                 args: Dict[str, AV], inline_depth: int = 2, extra_specs: Optional[Dict[str, Any]] = None,
                 drop_specs: Tuple[str, ...] = ()) -> Run:
    sp = specs.layer(*layers)
    if extra_specs:
        sp.update(extra_specs)
    # the function under analysis is interpreted (it.run), never replaced by its own
    # specification; a recursive call from its body does use the specification
    for d in drop_specs:
        sp.pop(d, None)
    it = Interp(prog, resolver, sp, inline_depth)
    std_globals(it)
    # inlined helpers with several feasible return values are choice points: the function
    # is re-interpreted once per combination (bounded)
    outs: List[Outcome] = []
    plans: List[List[int]] = [[]]
    done = 0
    while plans:
        plan = plans.pop()
        it.choice_plan, it.choice_log, it.choice_notes, it.active_ren, it.active_trivial = plan, [], [], {}, []
        n_ev = len(it.events)
        res = it.run(qual, args)
        done += 1
        for ev_ in it.events[n_ev:]:
            ev_.plan = done
        for o in res:
            o.plan = done
        if done > 48:
            raise AnalysisError(f"{qual}: more than 48 combinations of helper outcomes")
        extra = [(f"<{t}: {' & '.join(('' if v else 'not ') + c for c, v in p) or 'arm'}>", True) for t, p in it.choice_notes]
        for o in res:
            o.path = list(o.path) + extra
            o.ren = {**it.active_ren, **o.ren}
            o.trivial = list(it.active_trivial) + list(o.trivial)
        # a combination of choices that states contradictory sign facts about one name (abs took x >= 0, a conditional x < 0)
        # is not a path of the program
        outs += [o for o in res if Interp._consistent(o.path)]
        for i in range(len(plan), len(it.choice_log)):
            for j in range(1, it.choice_log[i]):
                plans.append(plan + [0] * (i - len(plan)) + [j])
    return Run(qual, args, outs, it.events, it)


def rename(mono: Any, src: str, dst: str) -> Any:
    return tuple(sorted(((dst + a[len(src):] if a.startswith(src) else a, e) for a, e in mono), key=lambda x: x[0]))
