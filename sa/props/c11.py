"""C11 - a prefixed unit means exactly prefix factor times unit."""
from __future__ import annotations

import ast
from fractions import Fraction
from typing import Dict, List, Optional, Set, Tuple

from .. import specs
from ..absint import GroupV, NotImpl, NumV, PrefixS, QuantV, UnitV, Unsupported
from ..algebra import UNIT_OPS, check_group_ops, check_prefix_ops, describe
from ..calls import Resolver
from ..core import AnalysisError, Report
from ..e4util import default_arg_sets, prefix_struct, quant_atom, run_function, unit_atom
from ..model import Program
from ..poly import Lin, Poly, Rat
from .c09 import evaluate

TITLE = "A prefixed unit means exactly prefix factor times unit"


def names_in(e: ast.AST) -> Set[str]:
    return {n.id for n in ast.walk(e) if isinstance(n, ast.Name)}


def _undecidable(rep: Report, what: str, v: object) -> bool:
    """A result the interpreter could not model is not a verdict: defer an analysis error (reported only when no rule finds a violation)."""
    from ..absint import OpaqueV
    if isinstance(v, OpaqueV):
        rep.defer(AnalysisError(f"{what} returns a value outside the interpreted subset ({getattr(v, 'why', '')})"))
        return True
    return False


def value_preservation(rep: Report, prog: Program, resolver: Resolver) -> None:
    # Unit.quantify: m*(p*u) = (m*value(p))*u, identity prefix on the result
    u = unit_atom("self")
    run = run_function(prog, resolver, "Unit.quantify", ("dimension", "prefix", "unit"), {"self": u})
    for o in run.outcomes:
        if o.kind != "return":
            continue
        v = o.value
        if _undecidable(rep, "Unit.quantify", v):
            continue
        ok = isinstance(v, QuantV) and v.value() == u.value() and not v.unit.p.mono and v.unit.f.mono == u.f.mono
        rep.check("R11.3", "Unit.quantify", ok,
                  f"Unit.quantify returns {describe(v)}; it must be value(prefix) in the same unit without prefix "
                  "(physical value unchanged, identity prefix)", prog.func("Unit.quantify").where(o.node))
    # Quantity.unprefixed
    q = quant_atom("self")
    run = run_function(prog, resolver, "Quantity.unprefixed", ("dimension", "prefix", "unit", "quantity"), {"self": q})
    for o in run.outcomes:
        if o.kind != "return":
            continue
        v = o.value
        if _undecidable(rep, "Quantity.unprefixed", v):
            continue
        ok = isinstance(v, QuantV) and v.value() == q.value() and not v.unit.p.mono and v.unit.f.mono == q.unit.f.mono
        rep.check("R11.3", "Quantity.unprefixed", ok,
                  f"Quantity.unprefixed returns {describe(v)}: stripping the prefix must not change the physical value "
                  "and must leave the identity prefix", prog.func("Quantity.unprefixed").where(o.node))
    # Prefix.quantify = base ** exponent
    p = prefix_struct("self")
    run = run_function(prog, resolver, "Prefix.quantify", (), {"self": p})
    want = Rat(Poly({(("b:self", Lin.sym("e:self")),): Fraction(1)}))
    for o in run.outcomes:
        if o.kind != "return":
            continue
        v = o.value
        rep.check("R11.2", "Prefix.quantify", isinstance(v, NumV) and v.rat == want,
                  f"Prefix.quantify returns {describe(v)}, not base ** exponent", prog.func("Prefix.quantify").where(o.node))
    # number * prefix  ->  (number * value(prefix)) One
    for args in default_arg_sets(prog, resolver, "Prefix.__mul__", "prefix"):
        other = args.get("other")
        if not isinstance(other, NumV):
            continue
        run = run_function(prog, resolver, "Prefix.__mul__", ("dimension", "prefix", "unit", "quantity"), args)
        for o in run.outcomes:
            if o.kind != "return" or isinstance(o.value, NotImpl):
                continue
            v = o.value
            if _undecidable(rep, "Prefix.__mul__[number]", v):
                continue
            ok = isinstance(v, QuantV) and v.mag.rat == other.rat * want and not v.unit.p.mono and not v.unit.f.mono
            rep.check("R11.3", "Prefix.__mul__[number]", ok,
                      f"number * prefix returns {describe(v)}; expected (number * base**exponent) One",
                      prog.func("Prefix.__mul__").where(o.node))


def plan_prefix_step(rep: Report, prog: Program) -> None:
    """R11.4: convert() starts from the unprefixed magnitude; the plan divides by the
    target prefix exactly once."""
    conv = prog.func("conversions.convert")
    fn = conv.node
    params = conv.params()
    qparam = params[0]
    rets = [n for n in ast.walk(fn) if isinstance(n, ast.Return) and isinstance(n.value, ast.Call)]
    if not rets:
        raise AnalysisError("conversions.convert: no `return Quantity(...)` found")
    defs: Dict[str, List[ast.AST]] = {}
    for n in ast.walk(fn):
        if isinstance(n, ast.Assign):
            for t in n.targets:
                for x in ast.walk(t):
                    if isinstance(x, ast.Name):
                        defs.setdefault(x.id, []).append(n.value)
        elif isinstance(n, ast.AugAssign) and isinstance(n.target, ast.Name):
            defs.setdefault(n.target.id, []).append(n.value)
        elif isinstance(n, ast.For):
            for x in ast.walk(n.target):
                if isinstance(x, ast.Name):
                    defs.setdefault(x.id, []).append(n.iter)

    def closure(e: ast.AST) -> List[ast.AST]:
        seen: Set[str] = set()
        exprs = [e]
        work = [e]
        while work:
            cur = work.pop()
            for nm in names_in(cur):
                if nm not in seen:
                    seen.add(nm)
                    for d in defs.get(nm, []):
                        exprs.append(d)
                        work.append(d)
        return exprs

    def is_unprefixed_call(x: ast.AST) -> bool:
        return (isinstance(x, ast.Call) and isinstance(x.func, ast.Attribute) and x.func.attr == "unprefixed"
                and isinstance(x.func.value, ast.Name) and x.func.value.id == qparam)
    for i, r in enumerate(rets):
        call = r.value
        assert isinstance(call, ast.Call)
        if ast.unparse(call.func) != "Quantity" or not call.args:
            continue
        exprs = closure(call.args[0])
        from_unprefixed = any(is_unprefixed_call(x) for e in exprs for x in ast.walk(e))
        raw = any(isinstance(x, ast.Attribute) and x.attr == "magnitude" and isinstance(x.value, ast.Name) and x.value.id == qparam
                  for e in exprs for x in ast.walk(e))
        via_quantify = any(isinstance(x, ast.Call) and isinstance(x.func, ast.Attribute) and x.func.attr == "quantify"
                           and any(qparam in names_in(c) for c in closure(x.func.value))
                           for e in exprs for x in ast.walk(e))
        rep.check("R11.4", f"conversions.convert:return#{i + 1}", from_unprefixed or (raw and via_quantify),
                  f"the returned magnitude `{ast.unparse(call.args[0])[:60]}` does not derive from {qparam}.unprefixed() "
                  f"(nor from {qparam}'s prefix through quantify()): the source prefix is lost", conv.where(r))
    plan = prog.func("conversions._plan_conversion")
    pf = plan.node
    end = plan.params()[1]
    # variables derived from end.quantify()
    derived: Set[str] = set()
    for st in ast.walk(pf):
        if isinstance(st, ast.Assign) and isinstance(st.value, ast.Call) and isinstance(st.value.func, ast.Attribute) \
                and st.value.func.attr in ("quantify",) and isinstance(st.value.func.value, ast.Name) \
                and st.value.func.value.id == end:
            for t in st.targets:
                if isinstance(t, ast.Name):
                    derived.add(t.id)
    steps = []
    for n in ast.walk(pf):
        if isinstance(n, ast.Tuple) and n.elts:
            first = n.elts[0]
            if names_in(first) & derived or any(isinstance(c, ast.Call) and isinstance(c.func, ast.Attribute) and c.func.attr == "quantify"
                                               and isinstance(c.func.value, ast.Name) and c.func.value.id == end for c in ast.walk(first)):
                steps.append(n)
    ok = len(steps) == 1
    form = ""
    if ok:
        f0 = steps[0].elts[0]
        form = ast.unparse(f0)
        ok = (isinstance(f0, ast.BinOp) and isinstance(f0.op, ast.Div) and isinstance(f0.left, ast.Constant) and f0.left.value == 1
              and isinstance(f0.right, ast.Attribute) and f0.right.attr == "magnitude")
    rep.check("R11.4", "conversions._plan_conversion:prefix-step", ok,
              f"the plan must contain exactly one step dividing by the target prefix (1 / {end}.quantify().magnitude); "
              f"found {len(steps)} step(s) {form!r}", plan.where())


def prefix_arithmetic_layering(rep: Report, prog: Program, resolver: Resolver) -> None:
    """R11.7: only class Prefix (and display code) touches prefix.base / prefix.exponent in
    arithmetic; everything else obtains factors through Prefix.quantify / the operators."""
    n = 0
    for q, fi in prog.functions.items():
        if fi.cls == "Prefix" or fi.module in ("hypothesis", "pytest", "formatting"):
            continue
        # locals that only name a prefix's base / exponent (`exponent = self.unit.prefix.exponent`)
        named: Set[str] = set()
        for st in ast.walk(fi.node):
            if isinstance(st, ast.Assign) and len(st.targets) == 1 and isinstance(st.targets[0], ast.Name) and isinstance(st.value, ast.Attribute) \
                    and st.value.attr in ("base", "exponent"):
                if any(k == "inst" and f == "measured.Prefix" for k, f in resolver.expr_alts(fi, st.value.value)):
                    named.add(st.targets[0].id)
        for node in ast.walk(fi.node):
            numeric_call = isinstance(node, ast.Call) and (
                (isinstance(node.func, ast.Attribute) and node.func.attr in ("scaleb", "ldexp", "shift", "__pow__", "pow"))
                or ast.unparse(node.func) in ("pow", "math.pow", "math.ldexp", "_pow", "math.log", "round", "_add", "_sub", "_mul", "_div",
                                              "operator.add", "operator.sub", "operator.mul", "operator.truediv", "operator.pow"))
            if not isinstance(node, (ast.BinOp, ast.AugAssign)) and not numeric_call:
                continue
            for sub in (ast.walk(node) if not numeric_call else [x for a in list(node.args) + [k.value for k in node.keywords] for x in ast.walk(a)]):
                if isinstance(sub, ast.Name) and sub.id in named and isinstance(sub.ctx, ast.Load):
                    n += 1
                    rep.fail("R11.7", f"{q}:{ast.unparse(node)[:50]}",
                             f"`{ast.unparse(node)[:80]}` does arithmetic on `{sub.id}`, a prefix's base/exponent, outside class Prefix: "
                             "prefix factors must come from Prefix.quantify and the verified prefix operators "
                             "(mixed bases are otherwise mishandled)", fi.where(node))
                    break
                if isinstance(sub, ast.Attribute) and sub.attr in ("base", "exponent"):
                    alts = resolver.expr_alts(fi, sub.value)
                    if any(k == "inst" and f == "measured.Prefix" for k, f in alts):
                        n += 1
                        rep.fail("R11.7", f"{q}:{ast.unparse(node)[:50]}",
                                 f"`{ast.unparse(node)[:80]}` does arithmetic on a prefix's base/exponent outside class Prefix: "
                                 "prefix factors must come from Prefix.quantify and the verified prefix operators "
                                 "(mixed bases are otherwise mishandled)", fi.where(node))
                        break
    if n == 0:
        rep.ok("R11.7", "package", note="0 sites")


def named_prefixes(rep: Report) -> None:
    ev = evaluate()
    seen: Dict[Tuple[int, Fraction], str] = {}
    for p, name, symbol, module, where in ev.prefix_decls:
        key = f"{module}:{name or symbol}"
        if p is None:
            continue
        ok = p.base >= 2 and p.exponent.denominator == 1
        rep.check("R11.5", key, ok, f"named prefix {name!r} has base {p.base} and exponent {p.exponent}: "
                  "a prefix symbol must denote an integer power of an integer base >= 2", where)
        k = (p.base, p.exponent)
        if k in seen and seen[k] != (name or symbol):
            rep.fail("R11.5", key, f"{name!r} and {seen[k]!r} declare the same factor {p.base}**{p.exponent}", where)
        seen.setdefault(k, name or symbol or "")
    rep.analysed["named_prefixes"] = len(seen)


def ratio_keeps_prefix(rep: Report, prog: Program, rid: str = "R11.8") -> None:
    """R11.8: `Unit.as_ratio()` splits a unit into numerator and denominator for the `/` formats; the pair has to mean the unit.
    Necessary condition: the function reads the unit's prefix (or uses the unit as a whole).  A split computed from the factors
    alone gives Kilo * Meter / Hour and Meter / Hour the same pair - 5 km/h prints as '5 m/h'."""
    q = "Unit.as_ratio"
    if q not in prog.functions:
        rep.ok(rid, q, note="no as_ratio")
        return
    fi = prog.func(q)
    me = fi.params()[0]
    hosts = [fi.node]
    for c in ast.walk(fi.node):
        # a helper that is handed the unit itself
        if isinstance(c, ast.Call) and any(isinstance(a, ast.Name) and a.id == me for a in c.args):
            hosts.append(c)
    reads_prefix = False
    whole = False
    for n in ast.walk(fi.node):
        if isinstance(n, ast.Attribute) and isinstance(n.value, ast.Name) and n.value.id == me and n.attr in ("prefix", "quantify"):
            reads_prefix = True
        if isinstance(n, ast.Name) and n.id == me and isinstance(n.ctx, ast.Load):
            par = getattr(n, "_parent", None)
            if not isinstance(par, ast.Attribute):
                whole = True
    rep.check(rid, q, reads_prefix or whole,
              "Unit.as_ratio() never reads the unit's prefix: the numerator / denominator pair is computed from the factors alone, so a prefixed unit and "
              "its unprefixed form split into the same pair - 5 km/h is printed (and parsed back) as 5 m/h", fi.where())


def text_means_unit(rep: Report, prog: Program, rid: str = "R11.6") -> None:
    """R11.6: the pieces every renderer prints - a leading magnitude and one (prefix, symbol, exponent) term per factor -
    denote the unit: ln m + sum e_i ln p_i = ln P (sa/termwalk.py), and each caller folds the magnitude in by
    multiplication (or prints it in front)."""
    from ..termwalk import TermWalk, judge
    from ..termwalk import term_splitter
    fi = term_splitter(prog)
    try:
        w = TermWalk(fi.node)  # type: ignore[arg-type]
        rets = w.run()
    except AnalysisError as e:
        rep.defer(e)
        rep.rules[rid].floor = 0
        rets = []
        w = None  # type: ignore[assignment]
    for pth, v, st in rets:
        ok, why = judge(w, v)
        arm = " & ".join(pth.conds) or "-"
        rep.check(rid, f"_unit_to_magnitude_and_terms|{arm}", ok,
                  f"on the path [{arm}] the printed pieces do not denote the unit: {why} (a prefix not raised / rooted by the exponent of the "
                  "factor it is pushed onto, or applied twice: Mega * Meter**-2 must print as (mm)^-2, i.e. the prefix's -2nd root)",
                  fi.where(st))
    # callers
    mi = prog.module("formatting")
    for q, cfi in sorted(prog.functions.items()):
        if cfi.module != "formatting" or q == fi.qual:
            continue
        for n in ast.walk(cfi.node):
            if not (isinstance(n, ast.Assign) and isinstance(n.value, ast.Call) and ast.unparse(n.value.func) == fi.name
                    and len(n.targets) == 1 and isinstance(n.targets[0], ast.Tuple) and len(n.targets[0].elts) == 2
                    and isinstance(n.targets[0].elts[0], ast.Name)):
                continue
            m = n.targets[0].elts[0].id
            uses = [x for x in ast.walk(cfi.node) if isinstance(x, ast.Name) and x.id == m and isinstance(x.ctx, ast.Load)]
            bad = None
            folded = False
            for u in uses:
                par = getattr(u, "_parent", None)
                if isinstance(par, ast.BinOp):
                    if isinstance(par.op, ast.Mult):
                        folded = True
                    elif not (isinstance(par.op, ast.Add) and isinstance(getattr(par, "_parent", None), (ast.IfExp, ast.BinOp, ast.JoinedStr))):
                        bad = par
                elif isinstance(par, ast.AugAssign):
                    folded = folded or isinstance(par.op, ast.Mult)
                    if not isinstance(par.op, ast.Mult):
                        bad = par
                elif isinstance(par, ast.Call):
                    folded = True      # printed (str / format) or handed to the shared renderer
                elif isinstance(par, ast.FormattedValue):
                    folded = True
            rep.check(rid, f"{q}:magnitude", folded and bad is None,
                      f"{q} " + (f"combines the unit's leading magnitude by `{ast.unparse(bad)[:50]}`" if bad is not None else
                                 "drops the unit's leading magnitude") + ": the text no longer means magnitude x unit "
                      "(5 km^2 printed without, or divided by, its 1000)", cfi.where(bad if bad is not None else n))


def run(rep: Report) -> None:
    prog = Program()
    resolver = Resolver(prog)
    rep.rule("R11.1", "prefix component of every Unit operator is the same group operation as its factor and "
             "dimension components ((p*u)**n = p**n * u**n, division divides the prefix)", floor=6)
    rep.rule("R11.2", "Prefix operators add / subtract / scale exponents (log-values) in every arm; quantify is base**exponent", floor=11)
    rep.rule("R11.3", "Unit.quantify, Quantity.unprefixed and number*prefix preserve the physical value and leave the identity prefix", floor=3)
    rep.rule("R11.4", "convert() starts from the unprefixed magnitude and the plan divides by the target prefix exactly once", floor=2)
    rep.rule("R11.7", "prefix factors are computed only inside class Prefix (no arithmetic on .base/.exponent elsewhere)")
    rep.rule("R11.6", "the text form means the unit: leading magnitude x prod (prefix_i symbol_i)^e_i is worth prefix x factors on every path of "
             "formatting._unit_to_magnitude_and_terms, and every renderer folds the magnitude in by multiplication", floor=6)
    rep.rule("R11.5", "declared prefixes: integer base >= 2, integer exponent, one name per factor", floor=25)
    ops = dict(UNIT_OPS)
    check_group_ops(rep, "R11.1", prog, resolver, ops, "unit", ("dimension", "prefix", "unit"), component="p")
    # prefix * unit
    fi = prog.func("Prefix.__mul__")
    n = 0
    for args in default_arg_sets(prog, resolver, "Prefix.__mul__", "unit"):
        if not isinstance(args.get("other"), UnitV):
            continue
        me, other = args["self"], args["other"]
        assert isinstance(me, GroupV) and isinstance(other, UnitV)
        try:
            r = run_function(prog, resolver, "Prefix.__mul__", ("dimension", "prefix", "unit"), args)
        except Unsupported as e:
            raise AnalysisError(f"Prefix.__mul__: {e}")
        for o in r.outcomes:
            if o.kind != "return" or isinstance(o.value, NotImpl):
                continue
            v = o.value
            ok = isinstance(v, UnitV) and v.p.mono == other.p.mul(me).mono and v.f.mono == other.f.mono and v.d.mono == other.d.mono
            n += 1
            rep.check("R11.1", "Prefix.__mul__[Unit]", ok, f"prefix * unit returns {describe(v)}; expected the unit with "
                      "its prefix multiplied and factors and dimension unchanged", fi.where(o.node))
    if n == 0:
        raise AnalysisError("Prefix.__mul__: the Unit arm was not analysed")
    check_prefix_ops(rep, "R11.2", prog, resolver)
    from .c05 import check_equate
    rep.rule("R05.1", "the conversion tables are keyed by unprefixed units and store mutually inverse, correctly oriented ratios (shared with C05): "
             "convert() strips the prefix from the magnitude and plans on factors, so a prefixed key applies a prefix twice", floor=6)
    check_equate(rep, prog, resolver)
    value_preservation(rep, prog, resolver)
    text_means_unit(rep, prog)
    rep.rule("R11.8", "Unit.as_ratio() depends on the unit's prefix (the numerator / denominator pair means the unit)", floor=1)
    ratio_keeps_prefix(rep, prog)
    plan_prefix_step(rep, prog)
    prefix_arithmetic_layering(rep, prog, resolver)
    named_prefixes(rep)
    rep.not_decided.append("the 1e-9 relative bound for mixed SI/IEC prefixes (floating point); only the algebraic change of base is decided")
    rep.assume("in_unit is value-preserving where it succeeds (C04)")
    rep.trust("mypy 2.3.1 expression types; E4 idiom recognisers; E5 declaration model")
