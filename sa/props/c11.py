"""C11 - a prefixed unit means exactly prefix factor times unit."""
from __future__ import annotations

import ast
from fractions import Fraction
from typing import Dict, List, Optional, Set, Tuple

from .. import specs
from ..absint import GroupV, NotImpl, NumV, PrefixS, QuantV, UnitV, Unsupported
from ..algebra import UNIT_OPS, check_group_ops, check_prefix_ops, describe
from ..calls import Resolver
from ..core import AnalysisError, Report
from ..e4util import default_arg_sets, prefix_struct, quant_atom, run_function, unit_atom
from ..model import Program
from ..poly import Lin, Poly, Rat
from .c09 import evaluate

TITLE = "A prefixed unit means exactly prefix factor times unit"


def names_in(e: ast.AST) -> Set[str]:
    return {n.id for n in ast.walk(e) if isinstance(n, ast.Name)}


def value_preservation(rep: Report, prog: Program, resolver: Resolver) -> None:
    # Unit.quantify: m*(p*u) = (m*value(p))*u, identity prefix on the result
    u = unit_atom("self")
    run = run_function(prog, resolver, "Unit.quantify", ("dimension", "prefix", "unit"), {"self": u})
    for o in run.outcomes:
        if o.kind != "return":
            continue
        v = o.value
        ok = isinstance(v, QuantV) and v.value() == u.value() and not v.unit.p.mono and v.unit.f.mono == u.f.mono
        rep.check("R11.3", "Unit.quantify", ok,
                  f"Unit.quantify returns {describe(v)}; it must be value(prefix) in the same unit without prefix "
                  "(physical value unchanged, identity prefix)", prog.func("Unit.quantify").where(o.node))
    # Quantity.unprefixed
    q = quant_atom("self")
    run = run_function(prog, resolver, "Quantity.unprefixed", ("dimension", "prefix", "unit", "quantity"), {"self": q})
    for o in run.outcomes:
        if o.kind != "return":
            continue
        v = o.value
        ok = isinstance(v, QuantV) and v.value() == q.value() and not v.unit.p.mono and v.unit.f.mono == q.unit.f.mono
        rep.check("R11.3", "Quantity.unprefixed", ok,
                  f"Quantity.unprefixed returns {describe(v)}: stripping the prefix must not change the physical value "
                  "and must leave the identity prefix", prog.func("Quantity.unprefixed").where(o.node))
    # Prefix.quantify = base ** exponent
    p = prefix_struct("self")
    run = run_function(prog, resolver, "Prefix.quantify", (), {"self": p})
    want = Rat(Poly({(("b:self", Lin.sym("e:self")),): Fraction(1)}))
    for o in run.outcomes:
        if o.kind != "return":
            continue
        v = o.value
        rep.check("R11.2", "Prefix.quantify", isinstance(v, NumV) and v.rat == want,
                  f"Prefix.quantify returns {describe(v)}, not base ** exponent", prog.func("Prefix.quantify").where(o.node))
    # number * prefix  ->  (number * value(prefix)) One
    for args in default_arg_sets(prog, resolver, "Prefix.__mul__", "prefix"):
        other = args.get("other")
        if not isinstance(other, NumV):
            continue
        run = run_function(prog, resolver, "Prefix.__mul__", ("dimension", "prefix", "unit", "quantity"), args)
        for o in run.outcomes:
            if o.kind != "return" or isinstance(o.value, NotImpl):
                continue
            v = o.value
            ok = isinstance(v, QuantV) and v.mag.rat == other.rat * want and not v.unit.p.mono and not v.unit.f.mono
            rep.check("R11.3", "Prefix.__mul__[number]", ok,
                      f"number * prefix returns {describe(v)}; expected (number * base**exponent) One",
                      prog.func("Prefix.__mul__").where(o.node))


def plan_prefix_step(rep: Report, prog: Program) -> None:
    """R11.4: convert() starts from the unprefixed magnitude; the plan divides by the
    target prefix exactly once."""
    conv = prog.func("conversions.convert")
    fn = conv.node
    params = conv.params()
    qparam = params[0]
    rets = [n for n in ast.walk(fn) if isinstance(n, ast.Return) and isinstance(n.value, ast.Call)]
    if not rets:
        raise AnalysisError("conversions.convert: no `return Quantity(...)` found")
    for r in rets:
        call = r.value
        assert isinstance(call, ast.Call)
        if not call.args or not isinstance(call.args[0], ast.Name):
            raise AnalysisError("conversions.convert: returned magnitude is not a local variable")
        m = call.args[0].id
        first = None
        for st in fn.body:
            if isinstance(st, ast.Assign) and any(isinstance(t, ast.Name) and t.id == m for t in st.targets):
                first = st
                break
        ok = False
        why = f"the accumulated magnitude `{m}` has no initial assignment at function level"
        if first is not None:
            v = first.value
            why = f"`{m}` starts from `{ast.unparse(v)}`"
            if isinstance(v, ast.Attribute) and v.attr == "magnitude":
                src = v.value
                if isinstance(src, ast.Name):
                    for st in fn.body:
                        if isinstance(st, ast.Assign) and any(isinstance(t, ast.Name) and t.id == src.id for t in st.targets):
                            src = st.value
                            break
                if isinstance(src, ast.Call) and isinstance(src.func, ast.Attribute) and src.func.attr == "unprefixed" \
                        and isinstance(src.func.value, ast.Name) and src.func.value.id == qparam:
                    ok = True
        rep.check("R11.4", "conversions.convert:start", ok,
                  f"{why}; it must start from {qparam}.unprefixed().magnitude, otherwise the source prefix is lost",
                  conv.where(r))
    plan = prog.func("conversions._plan_conversion")
    pf = plan.node
    end = plan.params()[1]
    # variables derived from end.quantify()
    derived: Set[str] = set()
    for st in ast.walk(pf):
        if isinstance(st, ast.Assign) and isinstance(st.value, ast.Call) and isinstance(st.value.func, ast.Attribute) \
                and st.value.func.attr in ("quantify",) and isinstance(st.value.func.value, ast.Name) \
                and st.value.func.value.id == end:
            for t in st.targets:
                if isinstance(t, ast.Name):
                    derived.add(t.id)
    steps = []
    for n in ast.walk(pf):
        if isinstance(n, ast.Tuple) and n.elts:
            first = n.elts[0]
            if names_in(first) & derived or any(isinstance(c, ast.Call) and isinstance(c.func, ast.Attribute) and c.func.attr == "quantify"
                                               and isinstance(c.func.value, ast.Name) and c.func.value.id == end for c in ast.walk(first)):
                steps.append(n)
    ok = len(steps) == 1
    form = ""
    if ok:
        f0 = steps[0].elts[0]
        form = ast.unparse(f0)
        ok = (isinstance(f0, ast.BinOp) and isinstance(f0.op, ast.Div) and isinstance(f0.left, ast.Constant) and f0.left.value == 1
              and isinstance(f0.right, ast.Attribute) and f0.right.attr == "magnitude")
    rep.check("R11.4", "conversions._plan_conversion:prefix-step", ok,
              f"the plan must contain exactly one step dividing by the target prefix (1 / {end}.quantify().magnitude); "
              f"found {len(steps)} step(s) {form!r}", plan.where())


def named_prefixes(rep: Report) -> None:
    ev = evaluate()
    seen: Dict[Tuple[int, Fraction], str] = {}
    for p, name, symbol, module, where in ev.prefix_decls:
        key = f"{module}:{name or symbol}"
        if p is None:
            continue
        ok = p.base >= 2 and p.exponent.denominator == 1
        rep.check("R11.5", key, ok, f"named prefix {name!r} has base {p.base} and exponent {p.exponent}: "
                  "a prefix symbol must denote an integer power of an integer base >= 2", where)
        k = (p.base, p.exponent)
        if k in seen and seen[k] != (name or symbol):
            rep.fail("R11.5", key, f"{name!r} and {seen[k]!r} declare the same factor {p.base}**{p.exponent}", where)
        seen.setdefault(k, name or symbol or "")
    rep.analysed["named_prefixes"] = len(seen)


def run(rep: Report) -> None:
    prog = Program()
    resolver = Resolver(prog)
    rep.rule("R11.1", "prefix component of every Unit operator is the same group operation as its factor and "
             "dimension components ((p*u)**n = p**n * u**n, division divides the prefix)", floor=6)
    rep.rule("R11.2", "Prefix operators add / subtract / scale exponents (log-values) in every arm; quantify is base**exponent", floor=11)
    rep.rule("R11.3", "Unit.quantify, Quantity.unprefixed and number*prefix preserve the physical value and leave the identity prefix", floor=3)
    rep.rule("R11.4", "convert() starts from the unprefixed magnitude and the plan divides by the target prefix exactly once", floor=2)
    rep.rule("R11.5", "declared prefixes: integer base >= 2, integer exponent, one name per factor", floor=25)
    ops = dict(UNIT_OPS)
    check_group_ops(rep, "R11.1", prog, resolver, ops, "unit", ("dimension", "prefix", "unit"), component="p")
    # prefix * unit
    fi = prog.func("Prefix.__mul__")
    n = 0
    for args in default_arg_sets(prog, resolver, "Prefix.__mul__", "unit"):
        if not isinstance(args.get("other"), UnitV):
            continue
        me, other = args["self"], args["other"]
        assert isinstance(me, GroupV) and isinstance(other, UnitV)
        try:
            r = run_function(prog, resolver, "Prefix.__mul__", ("dimension", "prefix", "unit"), args)
        except Unsupported as e:
            raise AnalysisError(f"Prefix.__mul__: {e}")
        for o in r.outcomes:
            if o.kind != "return" or isinstance(o.value, NotImpl):
                continue
            v = o.value
            ok = isinstance(v, UnitV) and v.p.mono == other.p.mul(me).mono and v.f.mono == other.f.mono and v.d.mono == other.d.mono
            n += 1
            rep.check("R11.1", "Prefix.__mul__[Unit]", ok, f"prefix * unit returns {describe(v)}; expected the unit with "
                      "its prefix multiplied and factors and dimension unchanged", fi.where(o.node))
    if n == 0:
        raise AnalysisError("Prefix.__mul__: the Unit arm was not analysed")
    check_prefix_ops(rep, "R11.2", prog, resolver)
    value_preservation(rep, prog, resolver)
    plan_prefix_step(rep, prog)
    named_prefixes(rep)
    rep.not_decided.append("the 1e-9 relative bound for mixed SI/IEC prefixes (floating point); only the algebraic change of base is decided")
    rep.assume("in_unit is value-preserving where it succeeds (C04)")
    rep.trust("mypy 2.3.1 expression types; E4 idiom recognisers; E5 declaration model")
