"""C18 - levels and quantities interconvert by the logarithmic definition."""
from __future__ import annotations

import ast
from decimal import Decimal
from typing import List

from ..absint import LevelV, LogUnitV, NumV, QuantV, Unsupported
from ..algebra import describe
from ..calls import Resolver
from ..core import AnalysisError, Report
from ..e4util import default_arg_sets, run_function
from ..model import Program
from ..num import Num
from ..poly import Rat
from ..quantity_rules import LAYERS
from .c09 import evaluate

TITLE = "Levels and quantities interconvert by the logarithmic definition"


def run(rep: Report) -> None:
    prog = Program()
    resolver = Resolver(prog)
    rep.rule("R18.1", "quantity -> level is (k/p) * log_B(val(q)/val(ref)); level -> quantity is B**(L*p/k) * ref: the "
             "exponents of k and p are (+1,-1) and (-1,+1), same base, so the two directions are mutually inverse", floor=2)
    rep.rule("R18.2", "the argument of the logarithm is dimensionless (the quantity is converted into the reference's "
             "unit before the ratio)", floor=1)
    rep.rule("R18.3", "LogarithmicUnit stores its reference unprefixed", floor=1)
    rep.rule("R18.4", "power_ratio is 2 exactly for root-power reference dimensions and 1 otherwise", floor=2)
    rep.rule("R18.5", "declared logarithm bases are > 1 (strictly increasing level)", floor=3)
    rep.rule("R18.6", "Level.__eq__ compares through quantify() on every arm", floor=2)

    # ---- level()
    fi = prog.func("LogarithmicUnit.level")
    n = 0
    for args in default_arg_sets(prog, resolver, "LogarithmicUnit.level", "unit"):
        me, q = args["self"], args["quantity"]
        if not (isinstance(me, LogUnitV) and isinstance(q, QuantV)):
            continue
        try:
            r = run_function(prog, resolver, "LogarithmicUnit.level", LAYERS, args)
        except Unsupported as e:
            raise AnalysisError(f"LogarithmicUnit.level: {e}")
        it = r.interp
        ratio = q.value() / me.reference.value()
        want = me.k / me.pval * it.ln(ratio) / it.ln(me.base)
        for o in r.outcomes:
            if o.kind != "return":
                continue
            n += 1
            v = o.value
            ok = isinstance(v, LevelV) and v.mag.rat == want
            rep.check("R18.1", "LogarithmicUnit.level", ok,
                      f"level() returns magnitude {v.mag.rat if isinstance(v, LevelV) else describe(v)!r}; the definition is "
                      f"(k/p) * log_B(q/ref) = {want!r}", fi.where(o.node))
            rep.check("R18.1", "LogarithmicUnit.level:unit", isinstance(v, LevelV) and v.unit is me,
                      "level() does not return a Level of this logarithmic unit", fi.where(o.node))
        logs = [e for e in r.events if e.kind == "log" and e.data.get("func") == "LogarithmicUnit.level"]
        if not logs:
            raise AnalysisError("LogarithmicUnit.level: no math.log call found")
        for e in logs:
            a = e.data["arg"]
            dimless = isinstance(a, NumV) and (a.ut is None or (not a.ut.p.mono and not a.ut.f.mono))
            rep.check("R18.2", "LogarithmicUnit.level:log-argument", dimless,
                      f"the logarithm is taken of a number expressed in {describe(a.unit_type()) if isinstance(a, NumV) else '?'}: "
                      "the quantity is not converted into the reference's unit before the ratio", fi.where(e.node))
    if n == 0:
        raise AnalysisError("LogarithmicUnit.level: no return analysed")

    # ---- quantify()
    fq = prog.func("Level.quantify")
    n = 0
    for args in default_arg_sets(prog, resolver, "Level.quantify", "unit"):
        me = args["self"]
        if not isinstance(me, LevelV):
            continue
        try:
            r = run_function(prog, resolver, "Level.quantify", LAYERS, args)
        except Unsupported as e:
            raise AnalysisError(f"Level.quantify: {e}")
        u = me.unit
        want_exp = me.mag.rat * u.pval / u.k
        for o in r.outcomes:
            if o.kind != "return":
                continue
            n += 1
            v = o.value
            ok = False
            why = describe(v)
            if isinstance(v, QuantV) and v.unit.same(u.reference.unit):
                m = v.mag.rat
                for name, (b, e) in r.interp.heads.pows.items():
                    if m == Rat.atom(name) * u.reference.mag.rat:
                        ok = (b == u.base and e == want_exp)
                        why = f"{b!r} ** ({e!r}) * reference"
            rep.check("R18.1", "Level.quantify", ok,
                      f"quantify() returns {why}; the definition is B ** (L*p/k) * reference with exponent {want_exp!r}",
                      fq.where(o.node))
    if n == 0:
        raise AnalysisError("Level.quantify: no return analysed")

    # ---- R18.3
    init = prog.func("LogarithmicUnit.__init__")
    st = [s for s in ast.walk(init.node) if isinstance(s, ast.Assign)
          and any(isinstance(t, ast.Attribute) and t.attr == "reference" for t in s.targets)]
    ok = bool(st) and all(isinstance(s.value, ast.Call) and isinstance(s.value.func, ast.Attribute)
                          and s.value.func.attr == "unprefixed" and ast.unparse(s.value.func.value) == "reference" for s in st)
    rep.check("R18.3", "LogarithmicUnit.__init__", ok, "self.reference is not stored as reference.unprefixed(): level() "
              "would convert into a prefixed unit and the stored reference would carry a prefix", init.where(st[0] if st else None))

    # ---- R18.4
    pr = prog.func("LogarithmicUnit.power_ratio")
    r = run_function(prog, resolver, "LogarithmicUnit.power_ratio", LAYERS, default_arg_sets(prog, resolver, "LogarithmicUnit.power_ratio", "unit")[0])
    seen_arms = set()
    for o in r.outcomes:
        if o.kind != "return":
            continue
        conds = [(t, v) for t, v in o.path if "ROOT_POWER_DIMENSIONS" in t]
        if len(conds) != 1:
            raise AnalysisError(f"power_ratio: cannot tell the membership arm of a return (path {o.path})")
        t, v = conds[0]
        member = v != ((" not in " in t) or t.lstrip("<ifexp: ").startswith("not "))
        arm = "root-power" if member else "power"
        seen_arms.add(arm)
        want = Rat.const(2) if member else Rat.const(1)
        others = [("" if vv else "not ") + tt for tt, vv in o.path if (tt, vv) != (t, v)]
        key = f"power_ratio[{arm}]" + ("|" + "&".join(others) if others else "")
        got = o.value.rat if isinstance(o.value, NumV) else None
        rep.check("R18.4", key, got is not None and got == want,
                  f"power_ratio returns {got!r} for a {arm} reference" + (f" when {' and '.join(others)}" if others else "")
                  + f"; the definition is k = {want!r}", pr.where(o.node))
    if seen_arms != {"root-power", "power"}:
        rep.fail("R18.4", "power_ratio:arms", f"power_ratio distinguishes {sorted(seen_arms)}; expected both a root-power and a "
                 "power arm decided by membership in ROOT_POWER_DIMENSIONS", pr.where())

    # ---- R18.5 declared bases
    ev = evaluate()
    for key, lg in ev.logs.items():
        b = lg.base
        name = lg.name or lg.symbol or str(key)
        if isinstance(b, Num):
            rep.check("R18.5", f"logarithm:{name}", b.dec() > Decimal(1), f"logarithm {name} has base {b!r} <= 1: the level is "
                      "not strictly increasing in the quantity", lg.where)
        else:
            rep.fail("R18.5", f"logarithm:{name}", f"base of logarithm {name} is not a literal number", lg.where)
    rep.analysed["logarithms"] = len(ev.logs)
    rep.analysed["logarithmic_units"] = len(ev.logunits)

    # ---- R18.6
    leq = prog.func("Level.__eq__")
    arms = [s for s in ast.walk(leq.node) if isinstance(s, ast.Return) and isinstance(s.value, ast.Compare)]
    for i, s in enumerate(arms):
        c = s.value
        assert isinstance(c, ast.Compare)
        left_ok = ast.unparse(c.left) == "self.quantify()"
        rtxt = ast.unparse(c.comparators[0])
        rep.check("R18.6", f"Level.__eq__#{i + 1}", left_ok and isinstance(c.ops[0], ast.Eq) and rtxt in ("other.quantify()", "other"),
                  f"Level.__eq__ compares `{ast.unparse(c)}`: both sides must be the denoted quantities, compared with "
                  "Quantity.__eq__ so that x == y exactly when y == x", leq.where(s))
    if len(arms) < 2:
        rep.fail("R18.6", "Level.__eq__:arms", "expected a Level arm and a Quantity arm returning a comparison", leq.where())
    rep.assume("in_unit is value-preserving (C04); ln/exp are inverse; B > 1")
    rep.not_decided.append("floating-point rounding of the (algebraically verified) formulas; Level.__add__/__sub__ (not part of the property)")
    rep.trust("mypy 2.3.1 expression types; E4 normal forms with ln/exp heads")
