"""C18 - levels and quantities interconvert by the logarithmic definition."""
from __future__ import annotations

import ast
from decimal import Decimal
from typing import Dict, List

from ..absint import LevelV, LogUnitV, NumV, QuantV, Unsupported
from ..algebra import describe
from ..calls import Resolver
from ..core import AnalysisError, Report
from ..e4util import default_arg_sets, run_function
from ..model import Program
from ..num import Num
from ..poly import Rat
from ..quantity_rules import LAYERS
from .c09 import evaluate

TITLE = "Levels and quantities interconvert by the logarithmic definition"


LOSSY_CALLS = {"round", "int", "float", "abs", "math.floor", "math.ceil", "math.trunc", "floor", "ceil", "trunc", "format", "str", "repr", "hash"}


def logarithm_prefix_product(rep: Report, prog: Program, resolver: Resolver) -> None:
    """R18.12: `prefix * logarithm` is the logarithm whose step is scaled by that prefix: the prefix of the result has
    the value of (the logarithm's own prefix) x (the new prefix), whatever their bases (Centi * Semitone is 1/1200, not
    12**-3); the base is kept.  Decided like the prefix algebra of C11: log-values (exponent * ln base) under each arm's
    path condition, with Prefix.__mul__ interpreted, not assumed."""
    from ..absint import NotImpl, ObjV, PrefixS, GroupV, prefix_struct
    from ..algebra import substitute_path
    qual = "Logarithm.__mul__"
    fi = prog.func(qual)
    mine, ot = prefix_struct("self"), prefix_struct("other")
    me = ObjV("Logarithm", {"base": NumV(Rat.atom("B")), "prefix": mine})
    try:
        run = run_function(prog, resolver, qual, ("dimension",), {"self": me, fi.params()[1]: ot})
    except Unsupported as e:
        raise AnalysisError(f"{qual}: {e}")
    n = 0
    for o in run.outcomes:
        if o.kind != "return" or isinstance(o.value, NotImpl):
            continue
        # conditions of inlined callees arrive as `<Callee: a & not b>`; Prefix.__mul__'s own self/other are this call's
        flat: List = []
        for text, truth in o.path:
            if text.startswith("<") and ": " in text and truth:
                for part in text[text.index(": ") + 2:].rstrip(">").split(" & "):
                    neg = part.startswith("not ")
                    flat.append((part[4:] if neg else part, not neg))
            else:
                flat.append((text.replace("self.prefix", "self"), truth))
        arm = "&".join(("" if v else "not ") + t for t, v in flat) or "-"
        got = o.value
        n += 1
        if not (isinstance(got, ObjV) and got.cls == "Logarithm"):
            rep.fail("R18.12", f"{qual}|{arm}", f"{qual} returns {describe(got)}, not a Logarithm", fi.where(o.node))
            continue
        b = got.fields.get("base")
        rep.check("R18.12", f"{qual}|{arm}:base", isinstance(b, NumV) and b.rat == Rat.atom("B"),
                  f"the prefixed logarithm has base {describe(b)}, not the base of the logarithm it was made from", fi.where(o.node))
        px = got.fields.get("prefix")
        if isinstance(px, PrefixS):
            glog = px.logv
        elif isinstance(px, GroupV) and px.kind == "P" and not px.mono:
            glog = Rat.const(0)
        else:
            raise AnalysisError(f"{qual} builds its prefix as {describe(px)} on arm {arm}: outside the interpreted subset")
        want = substitute_path(mine.logv + ot.logv, flat)
        glog = substitute_path(glog, flat)
        rep.check("R18.12", f"{qual}|{arm}", glog == want,
                  f"log-value of the new logarithm's prefix is {glog!r}; scaling the step by the prefix requires {want!r} "
                  "(exponents of prefixes of different bases are added: Centi * Semitone gets the step 12**-3 instead of 1/1200)",
                  fi.where(o.node), note=repr(glog))
    if n == 0:
        raise AnalysisError(f"{qual}: no prefix arm analysed")


def interning_keys(rep: Report, prog: Program) -> None:
    """R18.7: Logarithm and LogarithmicUnit are interned first-wins under a key; the unit a reference
    gets back has *that first reference*.  The key must therefore determine (base, prefix) /
    (logarithm, reference) exactly: every identifying constructor argument takes part in it and
    nothing on the way is many-to-one on numbers (rounding, truncation, formatting, //, %)."""
    for cls in ("Logarithm", "LogarithmicUnit"):
        fi = prog.func(f"{cls}.__new__")
        params = [p for p in fi.params()[1:] if p not in ("name", "symbol")]
        defs: Dict[str, ast.AST] = {}
        for n in ast.walk(fi.node):
            if isinstance(n, ast.Assign) and len(n.targets) == 1 and isinstance(n.targets[0], ast.Name):
                defs.setdefault(n.targets[0].id, n.value)
        keys = []
        for n in ast.walk(fi.node):
            if isinstance(n, ast.Subscript) and ast.unparse(n.value).endswith("._known"):
                keys.append(n.slice)
            if isinstance(n, ast.Compare) and len(n.ops) == 1 and isinstance(n.ops[0], (ast.In, ast.NotIn)) and ast.unparse(n.comparators[0]).endswith("._known"):
                keys.append(n.left)
            if isinstance(n, ast.Call) and isinstance(n.func, ast.Attribute) and n.func.attr in ("setdefault", "get") and ast.unparse(n.func.value).endswith("._known") and n.args:
                keys.append(n.args[0])
        if not keys:
            raise AnalysisError(f"{cls}.__new__: no use of _known found (R18.7 anchor moved)")
        texts = {ast.unparse(k) for k in keys}
        rep.check("R18.7", f"{cls}.__new__:one-key", len(texts) == 1, f"{cls}.__new__ tests and stores under different keys {sorted(texts)}", fi.where())

        def expand(e: ast.AST, depth: int = 0) -> List[ast.AST]:
            """The expressions that make up the key: locals and class helpers followed."""
            out = [e]
            for x in ast.walk(e):
                if isinstance(x, ast.Name) and x.id in defs and depth < 4:
                    out += expand(defs[x.id], depth + 1)
                if isinstance(x, ast.Call) and isinstance(x.func, ast.Attribute) and isinstance(x.func.value, ast.Name) and x.func.value.id in ("cls", "self", cls) and depth < 3:
                    for q in prog.method(cls, x.func.attr):
                        h = prog.functions.get(q)
                        if h is not None:
                            for r in ast.walk(h.node):
                                if isinstance(r, ast.Return) and r.value is not None:
                                    out += expand_in(h.node, r.value, depth + 1)
            return out

        def expand_in(fn: ast.AST, e: ast.AST, depth: int) -> List[ast.AST]:
            ldefs = {n.targets[0].id: n.value for n in ast.walk(fn) if isinstance(n, ast.Assign) and len(n.targets) == 1 and isinstance(n.targets[0], ast.Name)}
            out = [e]
            for x in ast.walk(e):
                if isinstance(x, ast.Name) and x.id in ldefs and depth < 5:
                    out += expand_in(fn, ldefs[x.id], depth + 1)
            return out
        parts = expand(keys[0])
        used = {x.id for pt in parts for x in ast.walk(pt) if isinstance(x, ast.Name)}
        missing = [p for p in params if p not in used]
        rep.check("R18.7", f"{cls}.__new__:identifying-arguments", not missing,
                  f"the interning key of {cls} does not involve {missing}: two {cls}s that differ only there are the same object", fi.where())
        lossy = []
        for pt in parts:
            for x in ast.walk(pt):
                if isinstance(x, ast.Call) and ast.unparse(x.func) in LOSSY_CALLS:
                    lossy.append(x)
                elif isinstance(x, ast.BinOp) and isinstance(x.op, (ast.FloorDiv, ast.Mod)):
                    lossy.append(x)
                elif isinstance(x, ast.JoinedStr):
                    lossy.append(x)
        rep.check("R18.7", f"{cls}.__new__:exact-key", not lossy,
                  f"the interning key of {cls} goes through `{ast.unparse(lossy[0])[:50] if lossy else ''}`, which maps different numbers "
                  f"to one key: a later {cls} silently gets the earlier object (for a LogarithmicUnit, the earlier reference - every level "
                  "in it is off by the ratio of the two references)", fi.where(lossy[0] if lossy else None))


def log_sites(rep: Report, prog: Program, resolver: Resolver, rid: str) -> None:
    """R18.1 decides `LogarithmicUnit.level` (and R18.10 the sums of levels).  That settles the property only if those are the places
    where levels are computed: a second copy of the formula - a Decimal branch in `Quantity.level` that leaves the power ratio out -
    is not looked at by them.  Who may compute a logarithm is therefore a closed list."""
    allowed = {"LogarithmicUnit.level", "Level.__add__", "Level.__sub__", "Prefix.__mul__", "Prefix.__truediv__"}
    callers: Dict[str, set] = {}
    for q0 in prog.functions:
        for cs in resolver.callsites(q0):
            for t in cs.targets:
                callers.setdefault(t, set()).add(q0)
    grew = True
    while grew:
        grew = False
        for t, cs_ in callers.items():
            if t not in allowed and cs_ and cs_ <= allowed and prog.functions[t].module == "" and prog.functions[t].name.startswith("_") \
                    and not prog.functions[t].name.startswith("__"):
                allowed.add(t)
                grew = True
    def log_calls(fi_) -> List[ast.Call]:  # type: ignore[no-untyped-def]
        out = []
        for c in Resolver._own_nodes(fi_.node):
            if not isinstance(c, ast.Call):
                continue
            ft = ast.unparse(c.func)
            if ft in ("math.log", "math.log10", "math.log2", "math.log1p", "log", "log10", "log2", "log1p") or \
                    (isinstance(c.func, ast.Attribute) and c.func.attr in ("ln", "log10", "logb") and not c.args):
                out.append(c)
        return out
    n = 0
    for q, fi in sorted(prog.functions.items()):
        if fi.module in ("hypothesis", "pytest"):
            continue
        # only where a Level is made: a logarithm elsewhere (a display heuristic, a range check) is none of this property's business
        makes_level = any(isinstance(c, ast.Call) and ast.unparse(c.func).split(".")[-1] == "Level" for c in Resolver._own_nodes(fi.node))
        if not makes_level:
            continue
        sites = [(fi, c) for c in log_calls(fi)]
        for cs in resolver.callsites(q):
            for t in cs.targets:
                tfi = prog.functions.get(t)
                if tfi is not None and tfi.name.startswith("_") and not tfi.name.startswith("__"):
                    sites += [(tfi, c) for c in log_calls(tfi)]
        for hfi, c in sites:
            n += 1
            rep.check(rid, f"{q}:{ast.unparse(c)[:40]}", q in allowed,
                      f"{q} makes a Level from a logarithm it computes itself (`{ast.unparse(c)[:50]}` in {hfi.qual}): levels are computed by LogarithmicUnit.level "
                      "(decided by R18.1) and added by Level.__add__ / __sub__ (R18.10); a further formula here is decided by nobody - a Decimal branch that "
                      "leaves out the power ratio gives 50 dBSPL for 2 Pa instead of 100", hfi.where(c))
    if n < 1:
        raise AnalysisError("no logarithm call site found where levels are made (LogarithmicUnit.level has one): R18.14 anchors moved")


def run(rep: Report) -> None:
    prog = Program()
    resolver = Resolver(prog)
    rep.rule("R18.1", "quantity -> level is (k/p) * log_B(val(q)/val(ref)); level -> quantity is B**(L*p/k) * ref: the "
             "exponents of k and p are (+1,-1) and (-1,+1), same base, so the two directions are mutually inverse", floor=2)
    rep.rule("R18.2", "the argument of the logarithm is dimensionless (the quantity is converted into the reference's "
             "unit before the ratio)", floor=1)
    rep.rule("R18.3", "LogarithmicUnit stores its reference unprefixed", floor=1)
    rep.rule("R18.4", "power_ratio is 2 exactly for root-power reference dimensions and 1 otherwise", floor=2)
    rep.rule("R18.5", "declared logarithm bases are > 1 (strictly increasing level)", floor=3)
    rep.rule("R18.11", "Level.__init__ stores the magnitude and unit it is given (no snapping, no rounding: every computed level is built through it)", floor=2)
    rep.rule("R18.10", "a copy/pickle hook on Logarithm / LogarithmicUnit passes every argument its __new__ interns under (otherwise the copy lands on "
             "another interned object, e.g. Bel for a decibel, and overwrites it)", floor=2)
    rep.rule("R18.14", "one formula: a function that makes a Level from a logarithm it computes is LogarithmicUnit.level, Level.__add__ / __sub__ or a helper "
             "only they call (a second quantity -> level formula elsewhere is not decided by R18.1)", floor=1)
    log_sites(rep, prog, resolver, "R18.14")
    rep.rule("R18.13", "ROOT_POWER_DIMENSIONS is written nowhere but in its literal (k must not depend on import history)", floor=1)
    rep.rule("R20.9", "lazy initialisation on a (shared, interned) logarithm or logarithmic unit publishes its guard attribute last - shared with C20", floor=1)
    from .c20 import lazy_publication
    lazy_publication(rep, prog, "R20.9", ("Logarithm", "LogarithmicUnit"))
    rep.rule("R18.9", "ROOT_POWER_DIMENSIONS has no entry written twice", floor=1)
    rep.rule("R18.8", "membership of the reference's dimension in ROOT_POWER_DIMENSIONS cannot go stale: interned classes hash by identity or over "
             "fields nothing assigns after construction (shared with C02 R02.11)", floor=5)
    rep.rule("R18.7", "Logarithm / LogarithmicUnit are interned under a key that determines their defining arguments exactly", floor=6)
    rep.rule("R18.12", "prefix * logarithm: the result keeps the base and its prefix is the product of the logarithm's prefix and the new one "
             "(log-values add on every arm, Prefix.__mul__ interpreted)", floor=4)
    rep.rule("R18.6", "Level.__eq__ compares through quantify() on every arm", floor=2)
    rep.rule("R18.15", "the two directions are real-valued formulas: no arm of LogarithmicUnit.level / Level.quantify (or of a private helper of "
             "theirs) divides with // or %, or truncates with int / round / floor / ceil / trunc (3 B re 1 V is 10**1.5 V, not 10**1 V)", floor=2)
    _no_truncation(rep, prog, resolver)

    # ---- level()
    fi = prog.func("LogarithmicUnit.level")
    n = 0
    for args in default_arg_sets(prog, resolver, "LogarithmicUnit.level", "unit"):
        me, q = args["self"], args["quantity"]
        if not (isinstance(me, LogUnitV) and isinstance(q, QuantV)):
            continue
        try:
            r = run_function(prog, resolver, "LogarithmicUnit.level", LAYERS, args)
        except Unsupported as e:
            raise AnalysisError(f"LogarithmicUnit.level: {e}")
        it = r.interp
        ratio = q.value() / me.reference.value()
        want = me.k / me.pval * it.ln(ratio) / it.ln(me.base)
        # `if base == 10: return math.log10(x)`: under that arm's path condition ln(B) is ln(10)
        base_is: Dict[str, int] = {}
        for ev_ in r.events:
            if ev_.kind == "cmp" and ev_.data.get("op") == "Eq":
                a_, b_ = ev_.data.get("left"), ev_.data.get("right")
                for x_, y_ in ((a_, b_), (b_, a_)):
                    if isinstance(x_, NumV) and isinstance(y_, NumV) and x_.rat == me.base and y_.rat.d == Rat.const(1).n and not y_.rat.atoms():
                        cst = y_.rat.n.terms.get((), None)
                        if cst is not None and cst.denominator == 1:
                            base_is[ast.unparse(ev_.node)] = int(cst)
        for o in r.outcomes:
            if o.kind != "return":
                continue
            n += 1
            v = o.value
            if not isinstance(v, LevelV) or "Opaque" in repr(v.mag.rat):
                # not a verdict: the logarithm is computed by something the interpreter does not model
                rep.defer(AnalysisError(f"LogarithmicUnit.level returns {describe(v)} on the path {[t for t, _ in o.path][-2:]}: outside the interpreted subset"))
                rep.rules["R18.1"].floor = 0
                continue
            want_o = want
            for t_, tv in o.path:
                parts_ = t_[t_.index(": ") + 2:].rstrip(">").split(" & ") if t_.startswith("<") and ": " in t_ else [t_]
                for part in parts_:
                    for txt, cst in base_is.items():
                        if tv and part.strip() == txt:
                            want_o = want_o.subst("ln(B)", it.ln(Rat.const(cst)))
            ok = isinstance(v, LevelV) and v.mag.rat == want_o
            rep.check("R18.1", "LogarithmicUnit.level" + ("|" + "&".join(t for t, tv in o.path if tv)[:60] if o.path else ""), ok,
                      f"level() returns magnitude {v.mag.rat if isinstance(v, LevelV) else describe(v)!r}; the definition is "
                      f"(k/p) * log_B(q/ref) = {want_o!r}", fi.where(o.node))
            rep.check("R18.1", "LogarithmicUnit.level:unit", isinstance(v, LevelV) and v.unit is me,
                      "level() does not return a Level of this logarithmic unit", fi.where(o.node))
        logs = [e for e in r.events if e.kind == "log" and e.data.get("func") == "LogarithmicUnit.level"]
        if not logs:
            rep.defer(AnalysisError("LogarithmicUnit.level: no math.log call found"))
            rep.rules["R18.2"].floor = 0
        for e in logs:
            a = e.data["arg"]
            dimless = isinstance(a, NumV) and (a.ut is None or (not a.ut.p.mono and not a.ut.f.mono))
            rep.check("R18.2", "LogarithmicUnit.level:log-argument", dimless,
                      f"the logarithm is taken of a number expressed in {describe(a.unit_type()) if isinstance(a, NumV) else '?'}: "
                      "the quantity is not converted into the reference's unit before the ratio", fi.where(e.node))
        # the conversion is applied to the quantity itself - a point on its scale - not to something derived from it: converting the
        # *ratio* q/ref instead is the same number for proportional units and a different one for a scale with a zero point
        # ((400 degC).level(dBK) gives 21.03 dB instead of 28.28)
        convs = [e for e in r.events if e.kind == "in_unit"]
        if convs:
            direct = any(isinstance(e.data.get("q"), QuantV) and e.data["q"].mag.rat == q.mag.rat and e.data["q"].unit.same(q.unit)
                         and e.data["unit"].same(me.reference.unit) for e in convs)
            rep.check("R18.2", "LogarithmicUnit.level:converts-the-quantity", direct,
                      "level() converts something other than the given quantity into the reference's unit (a ratio or product already formed): a zero-point "
                      "offset is then applied to a ratio ((400 degC).level(dBK) gives 21.03 dB instead of 28.28)", fi.where(convs[0].node))
    if n == 0:
        raise AnalysisError("LogarithmicUnit.level: no return analysed")

    # ---- quantify()
    fq = prog.func("Level.quantify")
    n = 0
    for args in default_arg_sets(prog, resolver, "Level.quantify", "unit"):
        me = args["self"]
        if not isinstance(me, LevelV):
            continue
        try:
            r = run_function(prog, resolver, "Level.quantify", LAYERS, args)
        except Unsupported as e:
            raise AnalysisError(f"Level.quantify: {e}")
        u = me.unit
        want_exp = me.mag.rat * u.pval / u.k
        for o in r.outcomes:
            if o.kind != "return":
                continue
            n += 1
            v = o.value
            ok = False
            why = describe(v)
            if isinstance(v, QuantV) and v.unit.same(u.reference.unit):
                m = v.mag.rat
                for name, (b, e) in r.interp.heads.pows.items():
                    if m == Rat.atom(name) * u.reference.mag.rat:
                        ok = (b == u.base and e == want_exp)
                        why = f"{b!r} ** ({e!r}) * reference"
            rep.check("R18.1", "Level.quantify", ok,
                      f"quantify() returns {why}; the definition is B ** (L*p/k) * reference with exponent {want_exp!r}",
                      fq.where(o.node))
    if n == 0:
        raise AnalysisError("Level.quantify: no return analysed")

    # ---- R18.3
    init = prog.func("LogarithmicUnit.__init__")
    st = [s for s in ast.walk(init.node) if isinstance(s, ast.Assign)
          and any(isinstance(t, ast.Attribute) and t.attr == "reference" for t in s.targets)]
    ok = bool(st) and all(isinstance(s.value, ast.Call) and isinstance(s.value.func, ast.Attribute)
                          and s.value.func.attr == "unprefixed" and ast.unparse(s.value.func.value) == "reference" for s in st)
    rep.check("R18.3", "LogarithmicUnit.__init__", ok, "self.reference is not stored as reference.unprefixed(): level() "
              "would convert into a prefixed unit and the stored reference would carry a prefix", init.where(st[0] if st else None))

    # ---- R18.4
    pr = prog.func("LogarithmicUnit.power_ratio")
    r = run_function(prog, resolver, "LogarithmicUnit.power_ratio", LAYERS, default_arg_sets(prog, resolver, "LogarithmicUnit.power_ratio", "unit")[0])
    seen_arms = set()
    for o in r.outcomes:
        if o.kind != "return":
            continue
        def _pred(t: str) -> str:
            # `self._has_root_power_reference()`: a one-expression predicate of the class stands for its expression
            try:
                e = ast.parse(t, mode="eval").body
            except SyntaxError:
                return t
            neg = isinstance(e, ast.UnaryOp) and isinstance(e.op, ast.Not)
            c = e.operand if neg else e  # type: ignore[union-attr]
            if isinstance(c, ast.Call) and isinstance(c.func, ast.Attribute) and ast.unparse(c.func.value) == "self" and not c.args and not c.keywords:
                h = prog.functions.get(f"LogarithmicUnit.{c.func.attr}")
                if h is not None:
                    hb = [x for x in h.node.body if not (isinstance(x, ast.Expr) and isinstance(x.value, ast.Constant))]  # type: ignore[attr-defined]
                    if len(hb) == 1 and isinstance(hb[0], ast.Return) and hb[0].value is not None:
                        inner = ast.unparse(hb[0].value)
                        return f"not ({inner})" if neg else inner
            return t
        o.path = [(_pred(t), v) for t, v in o.path]
        conds = [(t, v) for t, v in o.path if "ROOT_POWER_DIMENSIONS" in t]
        if len(conds) != 1:
            raise AnalysisError(f"power_ratio: cannot tell the membership arm of a return (path {o.path})")
        t, v = conds[0]
        member = v != ((" not in " in t) or t.lstrip("<ifexp: ").startswith("not "))
        arm = "root-power" if member else "power"
        seen_arms.add(arm)
        want = Rat.const(2) if member else Rat.const(1)
        others = [("" if vv else "not ") + tt for tt, vv in o.path if (tt, vv) != (t, v)]
        key = f"power_ratio[{arm}]" + ("|" + "&".join(others) if others else "")
        got = o.value.rat if isinstance(o.value, NumV) else None
        rep.check("R18.4", key, got is not None and got == want,
                  f"power_ratio returns {got!r} for a {arm} reference" + (f" when {' and '.join(others)}" if others else "")
                  + f"; the definition is k = {want!r}", pr.where(o.node))
    if seen_arms != {"root-power", "power"}:
        rep.fail("R18.4", "power_ratio:arms", f"power_ratio distinguishes {sorted(seen_arms)}; expected both a root-power and a "
                 "power arm decided by membership in ROOT_POWER_DIMENSIONS", pr.where())

    ev = evaluate()
    # ---- R18.9 the table itself
    table = ev.ns.get("", {}).get("ROOT_POWER_DIMENSIONS") if hasattr(ev, "ns") else None
    if not isinstance(table, (list, tuple, set)) or not table:
        raise AnalysisError("ROOT_POWER_DIMENSIONS is not a literal collection of dimensions the declaration evaluator can read")
    distinct = {id(d) for d in table}
    rep.check("R18.9", "ROOT_POWER_DIMENSIONS:distinct", len(distinct) == len(table),
              f"ROOT_POWER_DIMENSIONS lists {len(table)} dimensions but only {len(distinct)} different ones: an entry is written twice (structurally equal "
              "dimensions are one object) and the dimension it was meant to be is missing, so k = 1 is used for it", "src/measured/__init__.py")

    # ---- R18.13 the table is its literal: whether a dimension is root-power must not depend on which modules were imported
    import glob as _glob
    import os as _os
    from ..core import SRC as _SRC, rel as _rel
    n13 = 0
    for path in sorted(_glob.glob(_os.path.join(_SRC, "*.py"))):
        if _os.path.basename(path) == "_parser.py":
            continue
        tr = ast.parse(open(path, encoding="utf-8").read())
        for x in ast.walk(tr):
            hit = None
            if isinstance(x, ast.Call) and isinstance(x.func, ast.Attribute) and x.func.attr in ("add", "update", "discard", "remove", "clear", "pop", "append", "extend", "insert", "__ior__") \
                    and ast.unparse(x.func.value).split(".")[-1] == "ROOT_POWER_DIMENSIONS":
                hit = x
            if isinstance(x, ast.AugAssign) and ast.unparse(x.target).split(".")[-1] == "ROOT_POWER_DIMENSIONS":
                hit = x
            if isinstance(x, ast.Assign) and any(ast.unparse(t).split(".")[-1] == "ROOT_POWER_DIMENSIONS" for t in x.targets) and _os.path.basename(path) != "__init__.py":
                hit = x
            if hit is not None:
                n13 += 1
                rep.fail("R18.13", f"{_os.path.basename(path)}:{ast.unparse(hit)[:50]}", f"{_os.path.basename(path)} changes ROOT_POWER_DIMENSIONS at run time "
                         f"(`{ast.unparse(hit)[:60]}`): the power ratio k of a logarithmic unit then depends on which modules have been imported when the level is "
                         "taken (10 dB before, 20 dB after)", f"{_rel(path)}:{hit.lineno}")
    if n13 == 0:
        rep.ok("R18.13", "package", note="ROOT_POWER_DIMENSIONS is only ever its literal")

    # ---- R18.5 declared bases
    for key, lg in ev.logs.items():
        b = lg.base
        name = lg.name or lg.symbol or str(key)
        if isinstance(b, Num):
            rep.check("R18.5", f"logarithm:{name}", b.dec() > Decimal(1), f"logarithm {name} has base {b!r} <= 1: the level is "
                      "not strictly increasing in the quantity", lg.where)
        else:
            rep.fail("R18.5", f"logarithm:{name}", f"base of logarithm {name} is not a literal number", lg.where)
    rep.analysed["logarithms"] = len(ev.logs)
    rep.analysed["logarithmic_units"] = len(ev.logunits)

    # ---- R18.6 (decided on the abstract run, not on the text: arms may be reordered or share locals)
    from ..absint import BoolV, NotImpl
    from ..e4util import logunit_atom, quant_atom
    from .c12 import normal_value
    leq = prog.func("Level.__eq__")
    ps = leq.params()
    lu6 = logunit_atom()
    me6 = LevelV(NumV(Rat.atom("L:a")), lu6)
    for label, other6 in (("Level", LevelV(NumV(Rat.atom("L:b")), lu6)), ("Quantity", quant_atom("b"))):
        try:
            run6 = run_function(prog, resolver, "Level.__eq__", LAYERS, {ps[0]: me6, ps[1]: other6}, inline_depth=2)
        except Unsupported as e:
            raise AnalysisError(f"Level.__eq__: {e}")
        want = sorted([normal_value(run6, me6) or "?", normal_value(run6, other6) or "??"])
        cmps = [e for e in run6.events if e.kind == "cmp" and e.data.get("func") == "Level.__eq__"
                and isinstance(e.data["left"], QuantV) and isinstance(e.data["right"], QuantV)]
        good = [e for e in cmps if e.data["op"] == "Eq" and sorted([repr(e.data["left"].value()), repr(e.data["right"].value())]) == want]
        rets = [o for o in run6.outcomes if o.kind == "return"]
        verdicts = bool(rets) and all(isinstance(o.value, BoolV) and isinstance(o.value.cond, tuple) for o in rets)
        rep.check("R18.6", f"Level.__eq__[{label}]", bool(good) and len(good) == len(cmps) and verdicts,
                  f"Level.__eq__ with a {label} on the right does not return `self.quantify() == <the quantity the other side denotes>` "
                  f"(comparisons seen: {[ast.unparse(e.node) for e in cmps]}): both sides must be the denoted quantities, compared with "
                  "Quantity.__eq__ so that x == y exactly when y == x", leq.where())
    interning_keys(rep, prog)
    logarithm_prefix_product(rep, prog, resolver)
    from ..quantity_rules import check_plain_ctor
    check_plain_ctor(rep, prog, "R18.11", "Level", {"magnitude": ["$p"], "unit": ["$p"]})
    from .c11 import value_preservation
    rep.rule("R11.2", "Prefix.quantify is base ** exponent (the prefix of a logarithm enters level() and quantify() through it) - shared with C11", floor=1)
    rep.rule("R11.3", "Unit.quantify / Quantity.unprefixed / number*prefix preserve the value - shared with C11", floor=3)
    value_preservation(rep, prog, resolver)
    from .c02 import stable_hash
    stable_hash(rep, prog, resolver, "R18.8")
    from .c15 import newargs_cover_key
    newargs_cover_key(rep, prog, "R18.10", ("Logarithm", "LogarithmicUnit"), required=False)
    rep.assume("in_unit is value-preserving (C04); ln/exp are inverse; B > 1")
    rep.not_decided.append("floating-point rounding of the (algebraically verified) formulas; Level.__add__/__sub__ (not part of the property)")
    rep.trust("mypy 2.3.1 expression types; E4 normal forms with ln/exp heads")


def _no_truncation(rep: Report, prog: Program, resolver: Resolver) -> None:
    """R18.15 (round 13, C18x): an 'exact integer' fast path `base ** (exponent // power_ratio)` is a different function
    of the level wherever the division is not exact.  E4 judges the formula on the arms it can reach with its
    abstract operands; an arm selected by the run-time type of the magnitude is not one of them, so the operators
    themselves are checked: on every arm, none of them truncates."""
    trunc = {"int", "round", "math.floor", "math.ceil", "math.trunc", "floor", "ceil", "trunc", "divmod"}
    for q in ("LogarithmicUnit.level", "Level.quantify"):
        fi = prog.func(q)
        todo, seen = [q], set()
        bad = []
        n_fn = 0
        while todo:
            f = todo.pop()
            if f in seen:
                continue
            seen.add(f)
            ffi = prog.functions[f]
            n_fn += 1
            for x in Resolver._own_nodes(ffi.node):
                if isinstance(x, ast.BinOp) and isinstance(x.op, (ast.FloorDiv, ast.Mod)) and not isinstance(x.left, (ast.Constant, ast.JoinedStr)):
                    bad.append((ffi, x))
                elif isinstance(x, ast.AugAssign) and isinstance(x.op, (ast.FloorDiv, ast.Mod)):
                    bad.append((ffi, x))
                elif isinstance(x, ast.Call) and ast.unparse(x.func) in trunc:
                    bad.append((ffi, x))
            for cs in resolver.callsites(f):
                for t in cs.targets:
                    tf = prog.functions.get(t)
                    if tf is not None and tf.module == "" and tf.name.startswith("_") and not tf.name.startswith("__") and tf.cls in (None, ffi.cls):
                        todo.append(t)
        for ffi, x in bad:
            rep.fail("R18.15", f"{q}:{ast.unparse(x)[:40]}", f"`{ast.unparse(x)[:60]}` in {ffi.qual} (on the path of {q}) truncates: the level/quantity "
                     "relation is B**(L*p/k) with a true division - for a level the divisor does not divide (3 B re 1 V) the result is off by a "
                     "factor of the base's root", ffi.where(x))
        if not bad:
            rep.ok("R18.15", q, note=f"{n_fn} function(s), no truncating operator")
