"""C05 - conversion is an invertible linear scaling, independent of the route taken.

Decided here: the structural part.  Stores into the ratio/offset tables are mutually
inverse and correctly oriented (tier B), convert() applies an affine map whose
coefficients do not depend on the magnitude and returns the requested unit, the path
search reads both tables in one direction and orders hops start -> end, the declared
data are positive and scales are leaves.  Not decided: that there-and-back and
via-intermediate agree numerically (needs C04 and C09 together).
"""
from __future__ import annotations

import ast
from typing import Dict, List, Optional, Set, Tuple

from ..absint import NumV, QuantV, UnitV, Unsupported
from ..algebra import describe
from ..calls import Resolver
from ..core import AnalysisError, Report
from ..e4util import default_arg_sets, run_function
from ..model import Program
from ..poly import Rat
from ..quantity_rules import LAYERS
from .c09 import evaluate

TITLE = "Conversion is an invertible linear scaling, independent of the route taken"


def names_in(e: ast.AST) -> Set[str]:
    return {n.id for n in ast.walk(e) if isinstance(n, ast.Name)}


def defs_of(fn: ast.AST) -> Dict[str, List[ast.AST]]:
    defs: Dict[str, List[ast.AST]] = {}
    for n in ast.walk(fn):
        if isinstance(n, ast.Assign):
            for t in n.targets:
                for x in ast.walk(t):
                    if isinstance(x, ast.Name):
                        defs.setdefault(x.id, []).append(n.value)
        elif isinstance(n, ast.AugAssign) and isinstance(n.target, ast.Name):
            defs.setdefault(n.target.id, []).append(n.value)
        elif isinstance(n, (ast.For, ast.comprehension)):
            for x in ast.walk(n.target):
                if isinstance(x, ast.Name):
                    defs.setdefault(x.id, []).append(n.iter)
    return defs


def closure_names(e: ast.AST, defs: Dict[str, List[ast.AST]], stop: Set[str]) -> Tuple[Set[str], List[ast.AST]]:
    seen: Set[str] = set()
    exprs = [e]
    work = [e]
    while work:
        cur = work.pop()
        for nm in names_in(cur):
            if nm in seen or nm in stop:
                seen.add(nm)
                continue
            seen.add(nm)
            for d in defs.get(nm, []):
                exprs.append(d)
                work.append(d)
    return seen, exprs


def stores(prog: Program, resolver: Resolver, qual: str):
    out = []
    for args in default_arg_sets(prog, resolver, qual, "unit"):
        try:
            r = run_function(prog, resolver, qual, LAYERS, args)
        except Unsupported as e:
            raise AnalysisError(f"{qual}: {e}")
        out.append((args, [e for e in r.events if e.kind == "store"], r))
    return out


def check_equate(rep: Report, prog: Program, resolver: Resolver) -> None:
    fi = prog.func("conversions.equate")
    runs = []
    for args, evs_all, r in stores(prog, resolver, "conversions.equate"):
        # one table per combination of helper outcomes (a helper that unprefixes on one arm only must not hide behind the other)
        for plan in sorted({e.plan for e in evs_all}) or [0]:
            runs.append((args, [e for e in evs_all if e.plan == plan], r, plan))
    for args, evs, r, plan in runs:
        a, b = args["a"], args["b"]
        if not (isinstance(a, QuantV) and isinstance(b, QuantV)):
            continue
        arm = next((" | " + " & ".join(("" if v_ else "not ") + t_ for t_, v_ in o.path if t_.startswith("<")) for o in r.outcomes if o.plan == plan and any(t_.startswith("<") for t_, _ in o.path)), "")
        table: Dict[Tuple[str, str], Tuple[UnitV, UnitV, Rat, ast.AST]] = {}
        for e in evs:
            ks = e.data["keys"]
            v = e.data["value"]
            if e.data["table"] != "_ratios" or len(ks) != 2 or not all(isinstance(k, UnitV) for k in ks) or not isinstance(v, NumV):
                rep.fail("R05.1", f"conversions.equate:{ast.unparse(e.node)}", f"store `{ast.unparse(e.node)}` is not a ratio "
                         "keyed by two units", fi.where(e.node))
                continue
            table[(repr(ks[0].f.mono), repr(ks[1].f.mono))] = (ks[0], ks[1], v.rat, e.node)
        if len(table) < 2:
            rep.fail("R05.1", "conversions.equate:both-directions", f"equate stores {len(table)} direction(s); both directions of a "
                     "declared ratio must be stored together", fi.where())
        # defining equation val(a) = val(b): F:a = m:b*P:b*F:b / (m:a*P:a)
        fa = next((x for x, _ in a.unit.f.mono), None)
        rel = (b.mag.rat * b.unit.value()) / (a.mag.rat * _pval(a.unit))
        for (kx, ky), (ux, uy, ratio, node) in table.items():
            want = ux.value() / uy.value()        # x_Y = x_X * v(X)/v(Y)
            lhs, rhs = ratio, want
            if fa:
                rhs = rhs.subst(fa, rel)
                lhs = lhs.subst(fa, rel)
            key = f"conversions.equate:{ast.unparse(node)}{arm}"
            rep.check("R05.1", key, lhs == rhs,
                      f"`{ast.unparse(node)}` stores {ratio!r} at [{describe(ux)}][{describe(uy)}]; given val(a) = val(b) the factor "
                      f"from the first unit to the second is {rhs!r} (swapped or prefix-unaware store)", fi.where(node))
            rev = table.get((ky, kx))
            if rev is not None:
                rep.check("R05.1", key + ":reciprocal", ratio * rev[2] == Rat.const(1),
                          f"the two stored directions multiply to {ratio * rev[2]!r}, not 1: there-and-back is not the identity",
                          fi.where(node))
            # keys must be the unprefixed units
            rep.check("R05.1", key + ":keys", not ux.p.mono and not uy.p.mono,
                      "the ratio table is keyed by prefixed units: the path search (which looks up unprefixed units) misses it",
                      fi.where(node))


def _pval(u: UnitV) -> Rat:
    from ..specs import pval
    return pval(u.p)


def check_translate(rep: Report, prog: Program, resolver: Resolver) -> None:
    fi = prog.func("conversions.translate")
    for args, evs, r in stores(prog, resolver, "conversions.translate"):
        scale, zero = args["scale"], args["zero"]
        if not (isinstance(scale, UnitV) and isinstance(zero, QuantV)):
            continue
        ratios: Dict[Tuple[str, str], Rat] = {}
        offs: Dict[Tuple[str, str], Rat] = {}
        nodes: Dict[Tuple[str, str, str], ast.AST] = {}

        def tag(u: UnitV) -> str:
            return "scale" if u.same(scale) else ("degree" if u.same(zero.unit) else describe(u))
        for e in evs:
            ks, v = e.data["keys"], e.data["value"]
            if len(ks) != 2 or not all(isinstance(k, UnitV) for k in ks) or not isinstance(v, NumV):
                rep.fail("R05.1", f"conversions.translate:{ast.unparse(e.node)}", "store is not keyed by two units", fi.where(e.node))
                continue
            k = (tag(ks[0]), tag(ks[1]))
            (ratios if e.data["table"] == "_ratios" else offs)[k] = v.rat
            nodes[(e.data["table"],) + k] = e.node
        need = [("scale", "degree"), ("degree", "scale")]
        for k in need:
            rep.check("R05.1", f"conversions.translate:stores{k}", k in ratios and k in offs,
                      f"translate does not store both a ratio and an offset for direction {k[0]} -> {k[1]}", fi.where())
        if all(k in ratios and k in offs for k in need):
            sd, ds = ("scale", "degree"), ("degree", "scale")
            rep.check("R05.1", "conversions.translate:reciprocal", ratios[sd] * ratios[ds] == Rat.const(1),
                      "the two ratios of a scale are not reciprocal", fi.where())
            rep.check("R05.1", "conversions.translate:inverse-offsets", offs[sd] * ratios[ds] + offs[ds] == Rat.const(0),
                      f"offsets {offs[sd]!r} (scale->degree) and {offs[ds]!r} (degree->scale) do not compose to the identity "
                      "(o_xy * r_yx + o_yx must be 0)", fi.where(nodes.get(("_offsets",) + sd)))
            rep.check("R05.1", "conversions.translate:zero-point", offs[sd] == zero.mag.rat and ratios[sd] == Rat.const(1),
                      f"scale->degree is x*{ratios[sd]!r} + {offs[sd]!r}; the zero of the scale must map to the declared zero "
                      f"point {zero.mag.rat!r} (sign or direction swapped)", fi.where(nodes.get(("_offsets",) + sd)))


def plan_applier(prog: Program, resolver: Optional[Resolver] = None) -> Tuple["FuncInfo", Optional[str]]:
    """The function that walks the plan and updates the magnitude: convert() itself, or a
    helper it delegates to (-> (function, name of the accumulated variable or None))."""
    from ..model import FuncInfo  # noqa: F401
    from ..inline import inline_helpers
    conv = prog.func("conversions.convert")

    def has_plan_loop(fn: ast.AST) -> bool:
        return any(isinstance(n, ast.For) and isinstance(n.target, ast.Tuple) and len(n.target.elts) == 3 for n in ast.walk(fn))
    # a step or the whole loop may live in a helper with a single trailing return: decide the inlined body
    inl = inline_helpers(prog, conv)
    if has_plan_loop(inl.node):
        return inl, None
    for n in ast.walk(conv.node):
        if isinstance(n, ast.Call) and isinstance(n.func, ast.Name):
            q = prog.modules["conversions"].functions.get(n.func.id)
            if q and has_plan_loop(prog.functions[q].node):
                h = prog.functions[q]
                rets = [r for r in ast.walk(h.node) if isinstance(r, ast.Return) and isinstance(r.value, ast.Name)]
                return h, (rets[0].value.id if rets else None)  # type: ignore[union-attr]
    raise AnalysisError("conversions.convert: no loop over the plan found, neither in convert nor in a helper it calls")


def check_convert(rep: Report, prog: Program) -> None:
    applier, acc_name = plan_applier(prog)
    fi = applier if applier.qual == "conversions.convert" else prog.func("conversions.convert")
    fn = fi.node
    params = fi.params()
    qparam, uparam = params[0], params[1]
    defs = defs_of(fn)
    rets = [n for n in ast.walk(fn) if isinstance(n, ast.Return)]
    if not rets:
        raise AnalysisError("conversions.convert has no return")
    accs: Set[str] = set()
    for i, r in enumerate(rets):
        v = r.value
        ok = isinstance(v, ast.Call) and ast.unparse(v.func) == "Quantity" and len(v.args) == 2 \
            and isinstance(v.args[1], ast.Name) and v.args[1].id == uparam and uparam not in defs
        rep.check("R05.3", f"conversions.convert:return#{i + 1}", ok,
                  f"convert returns `{ast.unparse(v) if v else None}`; every return must be Quantity(<magnitude>, {uparam}) with the "
                  "requested unit unmodified", fi.where(r))
        if ok and isinstance(v.args[0], ast.Name):  # type: ignore[union-attr]
            accs.add(v.args[0].id)  # type: ignore[union-attr]
    if applier is not fi:
        # the plan is applied by a helper: analyse its body, with its accumulated parameter
        fi = applier
        fn = applier.node
        defs = defs_of(fn)
        accs = {acc_name} if acc_name else set()
    # `result = magnitude` (a helper's return value, once inlined): the accumulated variable is the one copied from
    grew = True
    while grew:
        grew = False
        for nm in list(accs):
            for d in defs.get(nm, []):
                if isinstance(d, ast.Name) and d.id not in accs:
                    accs.add(d.id)
                    grew = True
    mag_names: Set[str] = set(accs)
    # names holding a magnitude: anything assigned from `<x>.magnitude`
    for nm, ds in defs.items():
        for d in ds:
            if isinstance(d, ast.Attribute) and d.attr == "magnitude":
                mag_names.add(nm)

    def depends_on_magnitude(e: ast.AST) -> bool:
        seen, exprs = closure_names(e, defs, stop=set())
        if seen & mag_names:
            return True
        return any(isinstance(x, ast.Attribute) and x.attr == "magnitude" for ex in exprs for x in ast.walk(ex))
    n_updates = 0
    # the accumulator family: names that carry the running magnitude - the returned name(s) and any temporary
    # that is one affine step away from a member (`scaled = _mul(magnitude, c); magnitude = _add(scaled, o)`)
    def affine_parts(v: ast.AST) -> Optional[Tuple[ast.AST, ast.AST]]:
        if isinstance(v, ast.Call) and isinstance(v.func, ast.Name) and v.func.id in ("_mul", "_add") and len(v.args) == 2:
            return v.args[0], v.args[1]
        if isinstance(v, ast.BinOp) and isinstance(v.op, (ast.Mult, ast.Add)):
            return v.left, v.right
        return None
    assigns = [n for n in ast.walk(fn) if isinstance(n, ast.Assign) and len(n.targets) == 1 and isinstance(n.targets[0], ast.Name)]
    family: Set[str] = set(accs)
    changed = True
    while changed:
        changed = False
        for n in assigns:
            t = n.targets[0].id  # type: ignore[attr-defined]
            parts = affine_parts(n.value)
            srcs = {x.id for x in parts if isinstance(x, ast.Name)} if parts else ({n.value.id} if isinstance(n.value, ast.Name) else set())
            if t in family and srcs - family:
                new_members = {x for x in srcs if any(a.targets[0].id == x and (affine_parts(a.value) or isinstance(a.value, (ast.Name, ast.Attribute)))  # type: ignore[attr-defined]
                                                    for a in assigns)}
                # only temporaries that are themselves built from the family join it
                for x in new_members:
                    for a in assigns:
                        if a.targets[0].id == x:  # type: ignore[attr-defined]
                            p2 = affine_parts(a.value)
                            if p2 and any(isinstance(y, ast.Name) and y.id in family for y in p2) and x not in family:
                                family.add(x)
                                changed = True
    for n in assigns:
        acc = n.targets[0].id  # type: ignore[attr-defined]
        if acc not in family:
            continue
        v = n.value
        key = f"conversions.convert:{ast.unparse(n)[:60]}"
        if isinstance(v, ast.Attribute) and v.attr == "magnitude":
            rep.ok("R05.2", key, note="initial value")
            continue
        if isinstance(v, ast.Name) and v.id in family:
            continue
        def coefficients(e: ast.AST, depth: int = 0) -> Optional[List[ast.AST]]:
            """c1, c2, .. when e is the accumulator combined with them by * / + - (also nested: _add(_mul(m, c1), c2))"""
            if isinstance(e, ast.Name) and e.id in family:
                return []
            pp = affine_parts(e) if depth < 4 else None
            if not pp:
                return None
            x0, x1 = pp
            inner = coefficients(x0, depth + 1)
            if inner is not None:
                return inner + [x1]
            inner = coefficients(x1, depth + 1)
            if inner is not None:
                return inner + [x0]
            return None
        coefs = coefficients(v)
        coef = coefs[0] if coefs else None
        n_updates += len(coefs) if coefs else 1
        rep.check("R05.2", key, bool(coefs) and not any(depends_on_magnitude(c) for c in coefs),
                  f"`{ast.unparse(n)}` is not an affine update magnitude*c / magnitude+c with c independent of the "
                  "magnitude: conversion would not be a linear scaling for fixed units", fi.where(n))
    if n_updates < 2:
        raise AnalysisError(f"{fi.qual}: fewer than two affine updates of the accumulated magnitude found")
    for n in ast.walk(fn):
        test = None
        if isinstance(n, (ast.If, ast.While, ast.IfExp)):
            test = n.test
        if test is not None and isinstance(test, ast.Call) and isinstance(test.func, ast.Name) and test.func.id == "isinstance":
            continue   # dispatch on the numeric *type* (as the Decimal helpers do), not on the value
        if test is not None:
            key = f"conversions.convert:if {ast.unparse(test)[:50]}"
            rep.check("R05.2", key, not depends_on_magnitude(test),
                      f"convert branches on the magnitude (`{ast.unparse(test)[:70]}`): the map is not the same affine function "
                      "for every magnitude", fi.where(n))
    # the plan is a function of the two units only
    plans = [n for n in ast.walk(fn) if isinstance(n, ast.Call) and isinstance(n.func, ast.Name) and n.func.id == "_plan_conversion"]
    if not plans:
        raise AnalysisError(f"{fi.qual} does not call _plan_conversion")
    for c in plans:
        bad = any(depends_on_magnitude(a) for a in c.args)
        rep.check("R05.2", "conversions.convert:plan-arguments", not bad and len(c.args) == 2,
                  "the conversion plan is computed from something that depends on the magnitude", fi.where(c))


def check_path_search(rep: Report, prog: Program) -> None:
    fi = prog.func("conversions._find_path_recursive")
    fn = fi.node
    params = fi.params()
    start, end = params[0], params[1]
    base_start, base_end = start, end
    # after `exponent, s, e = _reduce_dimension(start, end)` the search goes on with s and e (the parameters rebound, or new names)
    for n in ast.walk(fn):
        if isinstance(n, ast.Assign) and isinstance(n.value, ast.Call) and ast.unparse(n.value.func) == "_reduce_dimension" \
                and isinstance(n.targets[0], ast.Tuple) and len(n.targets[0].elts) == 3 and all(isinstance(x, ast.Name) for x in n.targets[0].elts) \
                and [ast.unparse(a) for a in n.value.args] == [start, end]:
            start, end = n.targets[0].elts[1].id, n.targets[0].elts[2].id  # type: ignore[attr-defined]
    loops = [n for n in ast.walk(fn) if isinstance(n, ast.For) and isinstance(n.iter, ast.Call)
             and isinstance(n.iter.func, ast.Attribute) and n.iter.func.attr == "items"
             and isinstance(n.iter.func.value, ast.Subscript) and ast.unparse(n.iter.func.value.value) == "_ratios"]
    if len(loops) != 1:
        raise AnalysisError("_find_path_recursive: expected one loop over _ratios[...].items()")
    lp = loops[0]
    origin = ast.unparse(lp.iter.func.value.slice)  # type: ignore[attr-defined]
    if not (isinstance(lp.target, ast.Tuple) and len(lp.target.elts) == 2 and all(isinstance(x, ast.Name) for x in lp.target.elts)):
        raise AnalysisError("_find_path_recursive: loop target is not (intermediate, scale)")
    inter, scale = (x.id for x in lp.target.elts)  # type: ignore[attr-defined]
    # offsets read in the same direction
    offs = [n for n in ast.walk(lp) if isinstance(n, ast.Subscript) and ast.unparse(n.value) == "_offsets"]
    okdir = bool(offs)
    offvar = None
    for o in offs:
        par = getattr(o, "_parent", None)
        keytxt = None
        if isinstance(par, ast.Attribute) and par.attr == "get":
            call = getattr(par, "_parent", None)
            if isinstance(call, ast.Call) and call.args:
                keytxt = ast.unparse(call.args[0])
                asg = getattr(call, "_parent", None)
                if isinstance(asg, ast.Assign) and isinstance(asg.targets[0], ast.Name):
                    offvar = asg.targets[0].id
        elif isinstance(par, ast.Subscript):
            keytxt = ast.unparse(par.slice)
        okdir = okdir and ast.unparse(o.slice) == origin and keytxt == inter
    rep.check("R05.4", "_find_path_recursive:table-direction", okdir,
              f"scale is read from _ratios[{origin}][{inter}] but the offset is not read from _offsets[{origin}][{inter}]: "
              "the two tables are consulted in different directions", fi.where(lp))
    # recursion continues from the intermediate towards end
    recs = [n for n in ast.walk(lp) if isinstance(n, ast.Call) and isinstance(n.func, ast.Name) and n.func.id == fi.name]
    rep.check("R05.4", "_find_path_recursive:recursion", bool(recs) and all(
        len(c.args) >= 2 and ast.unparse(c.args[0]) == inter and ast.unparse(c.args[1]) == end for c in recs),
        f"the recursive search does not continue from `{inter}` towards `{end}`", fi.where(recs[0] if recs else lp))
    # the hop for the intermediate is prepended (start -> end order)
    defs = defs_of(fn)
    loopvars = {inter, scale}

    def deep_names(e: ast.AST) -> Set[str]:
        return closure_names(e, defs, stop=loopvars | {start, end})[0]
    cats = [n for n in ast.walk(lp) if isinstance(n, ast.BinOp) and isinstance(n.op, ast.Add)
            and any(isinstance(s, ast.List) for s in (n.left, n.right))]
    # ... or as a display with the rest unpacked behind it: [(scale, offset, intermediate), *path]
    stars = [n for n in ast.walk(lp) if isinstance(n, ast.List) and any(isinstance(x, ast.Starred) for x in n.elts)]
    okorder = bool(cats) or bool(stars)
    for c in cats:
        hop_first = isinstance(c.left, ast.List)
        lst = c.left if hop_first else c.right
        names = deep_names(lst)
        okorder = okorder and hop_first and {scale, inter} <= names and (offvar is None or offvar in names)
    for d in stars:
        plain = [x for x in d.elts if not isinstance(x, ast.Starred)]
        hop_first = bool(plain) and not isinstance(d.elts[0], ast.Starred) and all(isinstance(x, ast.Starred) for x in d.elts[len(plain):])
        names = set().union(*[deep_names(x) for x in plain]) if plain else set()
        okorder = okorder and hop_first and {scale, inter} <= names and (offvar is None or offvar in names)
    rep.check("R05.4", "_find_path_recursive:hop-order", okorder,
              "the hop to the intermediate is not placed before the rest of the path as (scale, offset, intermediate)",
              fi.where(cats[0] if cats else lp))
    # direct hit returns the single hop to end
    direct = [n for n in ast.walk(lp) if isinstance(n, ast.If) and ast.unparse(n.test).replace(" ", "") in
              (f"{inter}=={end}", f"{inter}is{end}")]
    okd = bool(direct)
    for d in direct:
        r = d.body[-1] if d.body else None
        okd = okd and isinstance(r, ast.Return) and isinstance(r.value, ast.List) and len(r.value.elts) == 1 \
            and {scale} <= deep_names(r.value) and (offvar is None or offvar in deep_names(r.value))
    rep.check("R05.4", "_find_path_recursive:direct-hit", okd, "a direct neighbour equal to the target does not return the single "
              "hop (scale, offset, end)", fi.where(direct[0] if direct else lp))
    # base case: identity hop
    base = [n for n in fn.body if isinstance(n, ast.If) and ast.unparse(n.test).replace(" ", "") in (f"{base_start}is{base_end}", f"{base_start}=={base_end}")]
    okb = bool(base)
    for b in base:
        r = b.body[-1] if b.body else None
        okb = okb and isinstance(r, ast.Return) and isinstance(r.value, ast.List) and len(r.value.elts) == 1 \
            and isinstance(r.value.elts[0], ast.Tuple) and [ast.unparse(x) for x in r.value.elts[0].elts[:2]] == ["1", "0"]
    rep.check("R05.4", "_find_path_recursive:base-case", okb, "start is end does not yield the identity hop (1, 0, end)", fi.where())


def check_lifting(rep: Report, prog: Program) -> None:
    """R05.6: _find_path_recursive searches between the units reduced by `exponent`
    (= _reduce_dimension); every hop it returns from there on must be lifted back by
    `** exponent` - also the hops of a sub-path found by the recursive call.
    Small forward abstract interpretation over list values: EMPTY < LIFTED, RAW, MIXED."""
    fi = prog.func("conversions._find_path_recursive")
    fn = fi.node
    E: Optional[str] = None
    red_line = None
    for n in ast.walk(fn):
        if isinstance(n, ast.Assign) and isinstance(n.value, ast.Call) and ast.unparse(n.value.func) == "_reduce_dimension" \
                and isinstance(n.targets[0], ast.Tuple) and isinstance(n.targets[0].elts[0], ast.Name):
            E = n.targets[0].elts[0].id
            red_line = n.lineno
    if E is None:
        raise AnalysisError("_find_path_recursive no longer reduces the units with _reduce_dimension (R05.6 anchor moved)")

    def join(a: str, b: str) -> str:
        if a == b:
            return a
        if a == "EMPTY":
            return b
        if b == "EMPTY":
            return a
        return "MIXED"

    def lifted_tuple(t: ast.AST, env: Dict[str, str]) -> Optional[bool]:
        if isinstance(t, ast.Name):
            v = env.get("tuple:" + t.id)
            return None if v is None else v == "LIFTED"
        if isinstance(t, ast.Tuple) and t.elts:
            f = t.elts[0]
            if isinstance(f, ast.BinOp) and isinstance(f.op, ast.Pow) and isinstance(f.right, ast.Name) and f.right.id == E:
                return True
            if isinstance(f, ast.Constant):
                return True      # the identity hop (1, 0, u) needs no lifting
            return False
        return None

    def val(e: ast.AST, env: Dict[str, str]) -> str:
        if isinstance(e, ast.List):
            if not e.elts:
                return "EMPTY"
            r = "EMPTY"
            for x in e.elts:
                lt = lifted_tuple(x, env)
                r = join(r, "LIFTED" if lt else "RAW")
            return r
        if isinstance(e, ast.Name):
            return env.get(e.id, "RAW")
        if isinstance(e, ast.Call):
            f = ast.unparse(e.func)
            if f in ("list", "tuple") and e.args:
                return val(e.args[0], env)
            if f == fi.name:
                return "RAW"
            return "RAW"
        if isinstance(e, ast.BinOp) and isinstance(e.op, ast.Add):
            return join(val(e.left, env), val(e.right, env))
        if isinstance(e, (ast.ListComp, ast.GeneratorExp)):
            lt = lifted_tuple(e.elt, env)
            if lt:
                return "LIFTED"
            if isinstance(e.elt, ast.Name):
                return val(e.generators[0].iter, env)
            return "RAW"
        if isinstance(e, ast.IfExp):
            return join(val(e.body, env), val(e.orelse, env))
        return "RAW"

    returns: List[Tuple[ast.Return, str]] = []

    def block(stmts: List[ast.stmt], env: Dict[str, str]) -> Dict[str, str]:
        for st in stmts:
            if isinstance(st, (ast.Assign, ast.AnnAssign)) and st.value is not None:
                tg = st.targets if isinstance(st, ast.Assign) else [st.target]
                for t in tg:
                    if isinstance(t, ast.Name):
                        if isinstance(st.value, ast.Tuple):
                            lt = lifted_tuple(st.value, env)
                            env["tuple:" + t.id] = "LIFTED" if lt else "RAW"
                        else:
                            env[t.id] = val(st.value, env)
            elif isinstance(st, ast.If):
                a = block(st.body, dict(env))
                b = block(st.orelse, dict(env))
                for k in set(a) | set(b):
                    env[k] = join(a.get(k, env.get(k, "EMPTY")), b.get(k, env.get(k, "EMPTY"))) if (k in a and k in b) else (a.get(k) or b.get(k) or "RAW")
            elif isinstance(st, (ast.For, ast.While)):
                for _ in range(3):
                    after = block(st.body, dict(env))
                    for k in after:
                        env[k] = join(env.get(k, "EMPTY"), after[k]) if k in env else after[k]
            elif isinstance(st, ast.Return) and st.value is not None:
                if red_line is not None and st.lineno > red_line:
                    returns.append((st, val(st.value, env)))
        return env
    block(fn.body, {})
    seen = set()
    for st, v in returns:
        if id(st) in seen:
            continue
        seen.add(id(st))
        worst = v
        for st2, v2 in returns:
            if st2 is st and v2 not in ("EMPTY", "LIFTED"):
                worst = v2
        rep.check("R05.6", f"_find_path_recursive:return {ast.unparse(st.value)[:40]}", worst in ("EMPTY", "LIFTED"),
                  f"`{ast.unparse(st)[:70]}` can return hops found between the units reduced by `{E}` without raising them to "
                  f"`** {E}` ({worst}): the factor between powers of units is applied linearly", fi.where(st))
    if not returns:
        raise AnalysisError("_find_path_recursive: no return after the reduction")


def check_declared(rep: Report) -> None:
    ev = evaluate()
    scales = [e for e in ev.edges if e.is_scale]
    for e in ev.edges:
        rep.check("R05.5", f"{e.module}:{e.text}", e.ratio.sign() > 0, f"declared ratio {e.ratio!r} is not positive: conversion "
                  "would not preserve sign", e.where)
    for s in scales:
        # as the unit of either side, or as a *factor* of a compound side (`1 * Celsius * Day`): the factor planner matches
        # that factor through the scale's offset hop
        others = [e for e in ev.edges if e is not s and (e.a is s.a or e.b is s.a or s.a.uid in e.a.factors or s.a.uid in e.b.factors)]
        rep.check("R05.5", f"scale-leaf:{s.a.name}", not others,
                  f"scale unit {s.a.name!r} (non-zero offset) also appears in {[o.text for o in others][:2]}: a path between "
                  "offset-free units could pass through an offset hop and zero would not map to zero", others[0].where if others else s.where)
        # ... or as a factor of a *named* compound unit (`Unit.derive(BTU / (Hour * Foot**2 * Fahrenheit), "U-factor", ..)`): every
        # conversion of that unit matches the factor through the offset hop
        named = [u for u in ev.unit_by_id.values() if u is not s.a and u.names and s.a.uid in u.factors]
        rep.check("R05.5", f"scale-factor:{s.a.name}", not named,
                  f"scale unit {s.a.name!r} (non-zero offset) is a factor of the named unit(s) {[u.name for u in named][:3]}: converting them passes through "
                  "the offset hop, so zero does not map to zero (0 U-factor converts to 8906 W/(m^2 K))", named[0].where if named else s.where)
    rep.analysed["declared_edges"] = len(ev.edges)
    rep.analysed["scales"] = [s.a.name for s in scales]
    # R05.12: a base unit whose own dimension is the inverse of a fundamental one (a frequency unit: T^-1) is filed by _splat
    # under that inverse dimension as a *numerator* - in the bucket where the planner expects denominators (R05.11, third
    # probe: exponent -1) - and it is never decomposed (total exponent 1, anchor F2).  Alone it is harmless; two of them linked
    # by declared equivalences are matched against each other with the ratio inverted (Ci/g -> Rd/g gives 2.7e-5 for 37000).
    from ..planner_reach import PlannerReach
    pr = PlannerReach(ev)
    groups: Dict[Tuple, List[Any]] = {}
    for u in ev.unit_by_id.values():
        ex = [e for e in u.dimension.exps.values() if e]
        if u.is_base and len(ex) == 1 and ex[0] == -1:
            groups.setdefault(tuple(sorted(u.dimension.exps.items())), []).append(u)
    n12 = 0
    for key, us in sorted(groups.items()):
        for u in us:
            n12 += 1
            comp = pr.component(u)
            linked = [v.name for v in us if v is not u and v.uid in comp]
            rep.check("R05.12", f"inverse-dimension base unit:{u.name}", not linked,
                      f"{u.name!r} and {linked[:3]} are base units of an inverse fundamental dimension linked by declared equivalences: inside a compound "
                      "unit the planner files them where it expects denominators and applies their ratio inverted, so the converted value depends on "
                      "whether the unit stands alone or in a compound", u.where)
    if n12 == 0:
        rep.ok("R05.12", "no base unit of an inverse fundamental dimension")


def check_reduce_dimension(rep: Report, prog: Program) -> None:
    """R05.8: _reduce_dimension returns (n, start.root(n), end.root(n)) - the exponent that hops are later
    lifted by (R05.6) is the degree of the roots actually taken - or (1, start, end)."""
    fi = prog.func("conversions._reduce_dimension")
    ps = fi.params()
    defs: Dict[str, List[ast.AST]] = {}
    for n in ast.walk(fi.node):
        if isinstance(n, ast.Assign) and len(n.targets) == 1 and isinstance(n.targets[0], ast.Name):
            defs.setdefault(n.targets[0].id, []).append(n.value)
    rets = [r for r in ast.walk(fi.node) if isinstance(r, ast.Return) and isinstance(r.value, ast.Tuple) and len(r.value.elts) == 3]
    if not rets:
        raise AnalysisError("conversions._reduce_dimension: no (exponent, start, end) return found")
    for i, r in enumerate(rets):
        e0, a, b = r.value.elts  # type: ignore[union-attr]
        key = f"_reduce_dimension:return#{i + 1}"
        if isinstance(e0, ast.Constant) and e0.value == 1:
            okr = isinstance(a, ast.Name) and isinstance(b, ast.Name) and [a.id, b.id] == ps[:2] and a.id not in defs and b.id not in defs
            rep.check("R05.8", key, okr, f"`{ast.unparse(r)}` returns exponent 1 with something other than the two units it was given", fi.where(r))
            continue
        degs = set()
        okr = True
        for side, src in ((a, ps[0]), (b, ps[1])):
            vals = defs.get(side.id, []) if isinstance(side, ast.Name) else [side]
            for v in vals:
                if isinstance(v, ast.Call) and isinstance(v.func, ast.Attribute) and v.func.attr == "root" and len(v.args) == 1 \
                        and ast.unparse(v.func.value) == src:
                    degs.add(ast.unparse(v.args[0]))
                else:
                    okr = False
            if not vals:
                okr = False
        rep.check("R05.8", key, okr and degs == {ast.unparse(e0)},
                  f"`{ast.unparse(r)}` returns the exponent `{ast.unparse(e0)}` but the roots it returns were taken with {sorted(degs) or 'something else'}: "
                  "every hop of the reduced path is lifted by the wrong power (1 acre^2 -> 3.6e18 ft^4)", fi.where(r))


class _NoVerdict(Exception):
    pass


_DIM = "<dimension>"
RAISED = "<raised>"


class SignProbe:
    """Partial evaluation of the planner's sign computation for one abstract dimension.  The only unknown is the dimension a
    factor is filed under, represented by its exponents (one of three sign patterns); every name whose `.exponents` is read,
    or that is handed to a helper predicate, stands for it.  Statements are walked in order with an environment of the
    locals whose value is known; an `if` with a known test follows its arm, an unknown test walks both and keeps what agrees.
    Only side-effect-free expression kinds are interpreted; everything else is simply unknown."""

    def __init__(self, helpers: Dict[str, ast.FunctionDef], exps: Tuple[int, ...]) -> None:
        self.helpers = helpers
        self.exps = exps
        self.sites: List[Tuple[ast.AST, str, object]] = []      # (tuple node, sign variable, value or _NoVerdict)

    # ---------------------------------------------------------------- expressions
    def ev(self, e: ast.AST, env: Dict[str, object], depth: int = 0) -> object:
        if isinstance(e, ast.Constant):
            return e.value
        if isinstance(e, ast.Name):
            if e.id in env:
                return env[e.id]
            raise _NoVerdict(e.id)
        if isinstance(e, ast.Attribute) and e.attr == "exponents" and isinstance(e.value, ast.Name) and env.get(e.value.id, _DIM) == _DIM:
            return self.exps
        if isinstance(e, ast.Attribute) and e.attr == "exponents" and isinstance(e.value, ast.Attribute) and e.value.attr == "dimension":
            return self.exps                     # self.unit.dimension.exponents
        if isinstance(e, ast.Attribute) and e.attr == "dimension":
            return _DIM
        if isinstance(e, ast.UnaryOp) and isinstance(e.op, ast.Not):
            return not self.ev(e.operand, env, depth)
        if isinstance(e, ast.UnaryOp) and isinstance(e.op, ast.USub):
            return -self.ev(e.operand, env, depth)  # type: ignore[operator]
        if isinstance(e, ast.BoolOp):
            vals = [self.ev(v, env, depth) for v in e.values]
            return all(vals) if isinstance(e.op, ast.And) else any(vals)
        if isinstance(e, ast.Compare) and len(e.ops) == 1:
            if isinstance(e.ops[0], (ast.Is, ast.IsNot, ast.Eq, ast.NotEq)) and isinstance(e.comparators[0], ast.Name) and e.comparators[0].id == "Number":
                if self.ev(e.left, env, depth) == _DIM:
                    is_number = not any(self.exps)
                    return is_number if isinstance(e.ops[0], (ast.Is, ast.Eq)) else not is_number
            x, y = self.ev(e.left, env, depth), self.ev(e.comparators[0], env, depth)
            if x == _DIM or y == _DIM:
                raise _NoVerdict("comparison of the dimension itself")
            table = {ast.Lt: lambda: x < y, ast.LtE: lambda: x <= y, ast.Gt: lambda: x > y, ast.GtE: lambda: x >= y,  # type: ignore[operator]
                     ast.Eq: lambda: x == y, ast.NotEq: lambda: x != y}
            if type(e.ops[0]) in table:
                return table[type(e.ops[0])]()
            raise _NoVerdict(ast.unparse(e)[:50])
        if isinstance(e, ast.IfExp):
            return self.ev(e.body if self.ev(e.test, env, depth) else e.orelse, env, depth)
        if isinstance(e, ast.BinOp) and isinstance(e.op, (ast.Mult, ast.Add, ast.Sub)):
            x, y = self.ev(e.left, env, depth), self.ev(e.right, env, depth)
            if isinstance(x, (int, bool)) and isinstance(y, (int, bool)):
                return {ast.Mult: x * y, ast.Add: x + y, ast.Sub: x - y}[type(e.op)]
            raise _NoVerdict(ast.unparse(e)[:50])
        if isinstance(e, (ast.GeneratorExp, ast.ListComp)) and len(e.generators) == 1 and isinstance(e.generators[0].target, ast.Name):
            g = e.generators[0]
            out = []
            for x in self.ev(g.iter, env, depth):  # type: ignore[attr-defined]
                env2 = dict(env)
                env2[g.target.id] = x  # type: ignore[union-attr]
                if all(self.ev(c, env2, depth) for c in g.ifs):
                    out.append(self.ev(e.elt, env2, depth))
            return out
        if isinstance(e, ast.Call) and isinstance(e.func, ast.Name) and not e.keywords:
            f = e.func.id
            if f in ("any", "all", "sum", "min", "max", "abs", "len", "tuple", "list", "bool") and len(e.args) == 1:
                v = self.ev(e.args[0], env, depth)
                return {"any": any, "all": all, "sum": sum, "min": min, "max": max, "abs": abs, "len": len, "tuple": tuple, "list": list, "bool": bool}[f](v)  # type: ignore[operator]
            h = self.helpers.get(f)
            if h is not None and depth < 2 and len(h.args.args) == len(e.args) and not h.decorator_list:
                env2: Dict[str, object] = {}
                for a_, x in zip(h.args.args, e.args):
                    if isinstance(x, ast.Name) and x.id not in env:
                        env2[a_.arg] = _DIM
                    else:
                        env2[a_.arg] = self.ev(x, env, depth)
                done, val = self.block(h.body, env2, depth + 1, record=False)
                if done:
                    return val
        raise _NoVerdict(ast.unparse(e)[:60])

    # ---------------------------------------------------------------- statements
    @staticmethod
    def _assigned(body: List[ast.stmt]) -> Set[str]:
        return {x.id for st in body for x in ast.walk(st) if isinstance(x, ast.Name) and isinstance(x.ctx, ast.Store)}

    def _record(self, st: ast.AST, env: Dict[str, object], depth: int) -> None:
        nested = [b for fld in ("body", "orelse", "finalbody") for b in (getattr(st, fld, None) or []) if isinstance(b, ast.stmt)]
        nested += [b for h in getattr(st, "handlers", []) for b in h.body]
        skip = {id(x) for b in nested for x in ast.walk(b)}
        for x in ast.walk(st):
            if id(x) in skip or not (isinstance(x, ast.Tuple) and len(x.elts) == 4 and isinstance(x.ctx, ast.Load)):
                continue
            last = x.elts[3]
            neg = isinstance(last, ast.UnaryOp) and isinstance(last.op, ast.USub)
            nm = last.operand if neg else last  # type: ignore[union-attr]
            if not isinstance(nm, ast.Name):
                continue
            try:
                self.sites.append((x, nm.id, self.ev(nm, env, depth)))
            except _NoVerdict as ex:
                self.sites.append((x, nm.id, ex))

    def block(self, body: List[ast.stmt], env: Dict[str, object], depth: int = 0, record: bool = True) -> Tuple[bool, object]:
        """-> (a return was definitely reached, its value)"""
        for st in body:
            if record:
                self._record(st, env, depth)
            if isinstance(st, ast.Return):
                if st.value is None:
                    return True, None
                if record:
                    return True, None      # the walked function's own result is not needed
                return True, self.ev(st.value, env, depth)
            if isinstance(st, (ast.Assign, ast.AnnAssign)) and getattr(st, "value", None) is not None:
                tg = st.targets if isinstance(st, ast.Assign) else [st.target]
                for t in tg:
                    if isinstance(t, ast.Name):
                        try:
                            env[t.id] = self.ev(st.value, env, depth)  # type: ignore[arg-type]
                        except _NoVerdict:
                            env.pop(t.id, None)
                    else:
                        for nm in self._assigned([st]):
                            env.pop(nm, None)
                continue
            if isinstance(st, ast.If):
                try:
                    t = bool(self.ev(st.test, env, depth))
                except _NoVerdict:
                    if not record:
                        raise
                    e1, e2 = dict(env), dict(env)
                    self.block(st.body, e1, depth, record)
                    self.block(st.orelse, e2, depth, record)
                    for k in list(env):
                        if not (k in e1 and k in e2 and e1[k] == e2[k]):
                            env.pop(k, None)
                    for k in e1:
                        if k in e2 and e1[k] == e2[k]:
                            env[k] = e1[k]
                    continue
                done, val = self.block(st.body if t else st.orelse, env, depth, record)
                if done:
                    return True, val
                continue
            if isinstance(st, (ast.For, ast.While, ast.Try, ast.With)):
                if not record:
                    raise _NoVerdict(type(st).__name__)
                inner = list(getattr(st, "body", [])) + list(getattr(st, "orelse", [])) + list(getattr(st, "finalbody", [])) + \
                    [b for h in getattr(st, "handlers", []) for b in h.body]
                dropped = self._assigned(inner) | ({x.id for x in ast.walk(st.target) if isinstance(x, ast.Name)} if isinstance(st, ast.For) else set())
                for nm in dropped:
                    env.pop(nm, None)
                for part in ("body", "orelse", "finalbody"):
                    self.block(list(getattr(st, part, [])), dict(env) if part != "body" else env, depth, record)
                for h in getattr(st, "handlers", []):
                    self.block(h.body, dict(env), depth, record)
                for nm in dropped:
                    env.pop(nm, None)
                continue
            if isinstance(st, (ast.FunctionDef, ast.ClassDef, ast.AsyncFunctionDef)):
                continue
            if isinstance(st, ast.Raise) and not record:
                return True, RAISED
            for nm in self._assigned([st]):
                env.pop(nm, None)
        return False, None


def _splat_convention(prog: Program) -> bool:
    """anchor: _splat files a factor of negative exponent under dimension**-1 and any other under its dimension"""
    sp = prog.func("conversions._splat")

    def norm(x: ast.AST) -> str:
        return ast.unparse(x).replace(" ", "").replace("(", "").replace(")", "")
    for node in ast.walk(sp.node):
        if isinstance(node, (ast.If, ast.IfExp)) and norm(node.test) in ("exponent<0", "0>exponent"):
            body = node.body if isinstance(node.body, list) else [node.body]
            orelse = node.orelse if isinstance(node.orelse, list) else [node.orelse]
            neg = any("dimension**-1" in norm(st) for st in body)
            pos = any(".dimension" in norm(st) and "**-1" not in norm(st) for st in orelse)
            if neg and pos:
                return True
    return False


def check_factor_sign(rep: Report, prog: Program, rid: str = "R05.11") -> None:
    """_splat files a factor in the numerator under its dimension and a factor in the denominator under the inverse of
    its dimension; a dimensionless factor lands under Number either way.  _match_factors and _cancel_factors turn the
    dimension a factor is filed under back into the exponent its step is applied with.  The two conventions agree only if
    that exponent is +1 for a numerator dimension - Number (all zeros) included - and -1 for its inverse; decided by
    partial evaluation of the sign computation (SignProbe) on the three sign patterns a base dimension can be filed under."""
    mi = prog.module("conversions")
    helpers = {n.name: n for n in mi.tree.body if isinstance(n, ast.FunctionDef)}
    if not _splat_convention(prog):
        rep.defer(AnalysisError("conversions._splat no longer files denominators under dimension**-1 and numerators under dimension (anchor of R05.11 moved)"))
        rep.rules[rid].floor = 0
        return
    n = 0
    for q in ("conversions._match_factors", "conversions._cancel_factors"):
        fi = prog.func(q)
        for label, exps, want in (("Number (dimensionless numerator)", (0, 0, 0), 1), ("a numerator base dimension", (0, 1, 0), 1),
                                  ("the inverse of a base dimension (denominator)", (0, -1, 0), -1)):
            sp = SignProbe(helpers, exps)
            try:
                sp.block(fi.node.body, {})  # type: ignore[attr-defined]
            except _NoVerdict as ex:
                rep.defer(AnalysisError(f"{q}: cannot follow the sign computation ({ex})"))
                continue
            sites = [(node, nm, v) for node, nm, v in sp.sites]
            if not sites:
                rep.defer(AnalysisError(f"{q}: no plan step (ratio, start, end, exponent) is built here"))
                continue
            unknown = [s_ for s_ in sites if isinstance(s_[2], _NoVerdict)]
            if unknown:
                rep.defer(AnalysisError(f"{q}: the exponent `{unknown[0][1]}` of a plan step has no value the probe can follow ({unknown[0][2]})"))
                continue
            n += 1
            bad = [s_ for s_ in sites if s_[2] != want]
            rep.check(rid, f"{q.split('.')[-1]}:{label.split(' (')[0]}", not bad,
                      f"{q} applies a factor filed under {label} with exponent {bad[0][2] if bad else ''}, but _splat files it there as a factor of "
                      f"exponent {want:+d}: its ratio is inverted (180 deg/s -> 10313 rad/s; 1 deg/s < 1 rad/s is False)",
                      fi.where(bad[0][0] if bad else None))
    if n < 6:
        rep.rules[rid].floor = min(rep.rules[rid].floor, n)


def check_table_walkers(rep: Report, prog: Program, rid: str = "R05.13") -> None:
    """`_ratios[U][V]` is the number a magnitude *expressed in U* is multiplied by to be expressed in V.  Code outside the planner
    that walks the table on its own (the command line's listing of equivalents) has to multiply the magnitude of the very quantity
    whose unit indexes the table - the starting quantity's magnitude times the ratio of a unit two hops away is not a conversion
    (1 ft listed as 6 pica)."""
    n = 0
    for q, fi in sorted(prog.functions.items()):
        if fi.module in ("hypothesis", "pytest"):
            continue
        defs: Dict[str, List[ast.AST]] = {}
        for st in ast.walk(fi.node):
            if isinstance(st, ast.Assign) and len(st.targets) == 1 and isinstance(st.targets[0], ast.Name):
                defs.setdefault(st.targets[0].id, []).append(st.value)

        def owner_of_unit(e: ast.AST) -> Optional[str]:
            """the quantity variable Q when e is `Q.unit` (possibly through one single-definition local)"""
            if isinstance(e, ast.Name) and len(defs.get(e.id, [])) == 1:
                e = defs[e.id][0]
            if isinstance(e, ast.Attribute) and e.attr == "unit" and isinstance(e.value, ast.Name):
                return e.value.id
            return None

        def owner_of_magnitude(e: ast.AST) -> Optional[str]:
            if isinstance(e, ast.Name) and len(defs.get(e.id, [])) == 1:
                e = defs[e.id][0]
            if isinstance(e, ast.Attribute) and e.attr == "magnitude" and isinstance(e.value, ast.Name):
                return e.value.id
            return None
        for loop in ast.walk(fi.node):
            if not (isinstance(loop, ast.For) and isinstance(loop.iter, ast.Call) and isinstance(loop.iter.func, ast.Attribute) and loop.iter.func.attr == "items"
                    and isinstance(loop.iter.func.value, ast.Subscript) and ast.unparse(loop.iter.func.value.value).endswith("_ratios")
                    and isinstance(loop.target, ast.Tuple) and len(loop.target.elts) == 2 and isinstance(loop.target.elts[1], ast.Name)):
                continue
            ratio = loop.target.elts[1].id
            holder = owner_of_unit(loop.iter.func.value.slice)
            for c in ast.walk(loop):
                ops: List[ast.AST] = []
                if isinstance(c, ast.Call) and ast.unparse(c.func) in ("_mul", "_div") and len(c.args) == 2:
                    ops = list(c.args)
                elif isinstance(c, ast.BinOp) and isinstance(c.op, (ast.Mult, ast.Div)):
                    ops = [c.left, c.right]
                if not ops or not any(isinstance(o, ast.Name) and o.id == ratio for o in ops):
                    continue
                other = next(o for o in ops if not (isinstance(o, ast.Name) and o.id == ratio))
                mo = owner_of_magnitude(other)
                if mo is None:
                    continue       # not a magnitude of a quantity variable (a hop being built, a product of ratios)
                n += 1
                if holder is None:
                    rep.defer(AnalysisError(f"{q}: cannot tell which quantity's unit indexes `{ast.unparse(loop.iter.func.value)[:40]}`"))
                    continue
                rep.check(rid, f"{q}:{ast.unparse(c)[:40]}", mo == holder,
                          f"{q} walks `{ast.unparse(loop.iter.func.value)[:40]}` - the ratios for a magnitude expressed in `{holder}.unit` - but multiplies "
                          f"`{ast.unparse(other)}` by them: the magnitude of another quantity (1 ft is listed as 6 pica)", fi.where(c))
    if n == 0:
        rep.ok(rid, "package", note="no function outside the planner applies table ratios to a magnitude")


def check_inline_paths(rep: Report, prog: Program, rid: str = "R05.10") -> None:
    """_inline_paths turns rough steps (ratio, start, end, exponent) into plan steps (ratio, path, exponent).
    convert applies a step's ratio before its hops (and their offsets), so the plan means what the rough plan
    means only if the mapping is element-wise: one plan step per rough step, in order, carrying that step's own
    ratio and exponent; nothing else writes the result."""
    fi = prog.func("conversions._inline_paths")
    fn = fi.node
    param = fi.params()[0]
    sites: List[Tuple[ast.AST, ast.AST, ast.AST, Optional[ast.For]]] = []   # (target, iter, element, loop)
    for n in ast.walk(fn):
        if isinstance(n, ast.For):
            for a in ast.walk(n):
                if isinstance(a, ast.Call) and isinstance(a.func, ast.Attribute) and a.func.attr == "append" and len(a.args) == 1:
                    sites.append((n.target, n.iter, a.args[0], n))
        elif isinstance(n, (ast.ListComp, ast.GeneratorExp)) and len(n.generators) == 1:
            sites.append((n.generators[0].target, n.generators[0].iter, n.elt, None))
    sites = [s_ for s_ in sites if isinstance(s_[1], ast.Name) and s_[1].id == param]
    if len(sites) != 1:
        rep.fail(rid, "_inline_paths:element-wise", f"_inline_paths builds its result at {len(sites)} places over `{param}`; expected one "
                 "append in a forward loop (or one comprehension)", fi.where())
        return
    target, _, elt, loop = sites[0]
    unpack: Optional[ast.stmt] = None
    if isinstance(target, ast.Name) and loop is not None:
        # `for step in plan: ratio, start, end, exponent = step`
        for st in loop.body:
            if isinstance(st, ast.Assign) and len(st.targets) == 1 and isinstance(st.targets[0], ast.Tuple) and isinstance(st.value, ast.Name) \
                    and st.value.id == target.id:
                unpack, target = st, st.targets[0]
                break
    if not (isinstance(target, ast.Tuple) and len(target.elts) == 4 and all(isinstance(x, ast.Name) for x in target.elts)):
        rep.defer(AnalysisError("_inline_paths: the loop does not unpack (ratio, start, end, exponent)"))
        rep.rules[rid].floor = 0
        return
    ratio, _, _, exponent = (x.id for x in target.elts)  # type: ignore[union-attr]
    ok = isinstance(elt, ast.Tuple) and len(elt.elts) == 3 and isinstance(elt.elts[0], ast.Name) and elt.elts[0].id == ratio \
        and isinstance(elt.elts[2], ast.Name) and elt.elts[2].id == exponent
    rep.check(rid, "_inline_paths:own-ratio-and-exponent", ok,
              f"the plan step built for a rough step is {ast.unparse(elt)[:80]}: it must carry that step's own ratio and exponent", fi.where(elt))
    if loop is None:
        # a comprehension: nothing can be rebound or written afterwards; only a filter can drop a step
        comp = getattr(elt, "_parent", None)
        ifs = [i for g in getattr(comp, "generators", []) for i in g.ifs]
        rep.ok(rid, "_inline_paths:ratio-unmodified", note="comprehension")
        rep.check(rid, "_inline_paths:one-step-per-rough-step", not ifs,
                  "the comprehension filters rough steps: a dropped step's ratio would have to be applied somewhere else", fi.where(elt))
        rep.ok(rid, "_inline_paths:append-only", note="comprehension")
    if loop is not None:
        body_nodes = [x for st in loop.body if st is not unpack for x in ast.walk(st)]
        rebound = sorted({x.id for x in body_nodes if isinstance(x, ast.Name) and isinstance(x.ctx, ast.Store) and x.id in (ratio, exponent)})
        rep.check(rid, "_inline_paths:ratio-unmodified", not rebound,
                  f"{', '.join(rebound)} rebound inside the loop before the step is built", fi.where(loop))
        def _neutral(x: ast.AST) -> bool:
            # `if ratio == 1 and start is end: continue` drops a step that does nothing
            par = getattr(x, "_parent", None)
            if not (isinstance(x, ast.Continue) and isinstance(par, ast.If) and par.body == [x]):
                return False
            conj = par.test.values if isinstance(par.test, ast.BoolOp) and isinstance(par.test.op, ast.And) else [par.test]
            texts = {ast.unparse(c) for c in conj}
            return f"{ratio} == 1" in texts and bool(texts & {f"{target.elts[1].id} is {target.elts[2].id}", f"{target.elts[2].id} is {target.elts[1].id}"})  # type: ignore[union-attr]
        skips = [x for x in body_nodes if isinstance(x, (ast.Continue, ast.Break)) and not _neutral(x)]
        app_stmt = next((st for st in loop.body if any(x is elt for x in ast.walk(st))), None)
        top = isinstance(app_stmt, ast.Expr)
        rep.check(rid, "_inline_paths:one-step-per-rough-step", not skips and top,
                  "a rough step can leave the loop without its own plan step (continue / break / conditional append): its ratio "
                  "would have to be applied somewhere else, and a ratio moved across a hop with an offset changes the result "
                  "(1000 mK + 1 degC)", fi.where(skips[0] if skips else loop))
        # the result list is only ever appended to
        res = None
        for a in ast.walk(loop):
            if isinstance(a, ast.Call) and isinstance(a.func, ast.Attribute) and a.func.attr == "append" and a.args and a.args[0] is elt \
                    and isinstance(a.func.value, ast.Name):
                res = a.func.value.id
        other_writes = []
        for x in ast.walk(fn):
            if isinstance(x, ast.Subscript) and isinstance(x.ctx, (ast.Store, ast.Del)) and isinstance(x.value, ast.Name) and x.value.id == res:
                other_writes.append(x)
            if isinstance(x, ast.Call) and isinstance(x.func, ast.Attribute) and isinstance(x.func.value, ast.Name) and x.func.value.id == res \
                    and x.func.attr in ("insert", "extend", "pop", "remove", "reverse", "sort", "clear", "__setitem__"):
                other_writes.append(x)
            if isinstance(x, ast.AugAssign) and isinstance(x.target, ast.Name) and x.target.id == res:
                other_writes.append(x)
        rep.check(rid, "_inline_paths:append-only", not other_writes,
                  f"the plan under construction is also written at {', '.join(fi.where(w) for w in other_writes[:3])}: a step already "
                  "emitted is changed afterwards", fi.where(other_writes[0]) if other_writes else fi.where())


def check_match_direction(rep: Report, prog: Program, rid: str = "R05.9") -> None:
    """_match_factors(x, y) yields steps (ratio, from-x, to-y, exponent).  _plan_conversion calls it once
    in the plan's direction and once with the sides exchanged; the steps of the exchanged call point the
    wrong way and have to be turned round (positions 1 and 2 swapped) before they join the plan."""
    fi = prog.func("conversions._plan_conversion")
    ps = fi.params()
    side: Dict[str, str] = {}
    for n in ast.walk(fi.node):
        if isinstance(n, ast.Assign) and len(n.targets) == 1 and isinstance(n.targets[0], ast.Name) and isinstance(n.value, ast.Call) \
                and ast.unparse(n.value.func) == "_splat" and n.value.args and isinstance(n.value.args[0], ast.Name) and n.value.args[0].id in ps[:2]:
            side[n.targets[0].id] = "start" if n.value.args[0].id == ps[0] else "end"
    def match_calls(host: "FuncInfo", sd: Dict[str, str]) -> List[ast.Call]:
        return [c for c in ast.walk(host.node) if isinstance(c, ast.Call) and ast.unparse(c.func) == "_match_factors" and len(c.args) == 2
                and all(isinstance(a, ast.Name) and a.id in sd for a in c.args)]
    calls = match_calls(fi, side)
    if len(calls) < 2:
        # the pairing stages may live in a helper that is handed both splatted sides
        for c in ast.walk(fi.node):
            if not (isinstance(c, ast.Call) and isinstance(c.func, ast.Name) and f"conversions.{c.func.id}" in prog.functions):
                continue
            h = prog.functions[f"conversions.{c.func.id}"]
            hp = h.params()
            sd = {hp[i]: side[a.id] for i, a in enumerate(c.args) if isinstance(a, ast.Name) and a.id in side and i < len(hp)}
            sd.update({k.arg: side[k.value.id] for k in c.keywords if k.arg and isinstance(k.value, ast.Name) and k.value.id in side})
            if len(set(sd.values())) == 2 and len(match_calls(h, sd)) >= 2 and not any(p_ in {x.id for n in ast.walk(h.node) for x in ast.walk(n)
                                                                                     if isinstance(x, ast.Name) and isinstance(x.ctx, ast.Store)} for p_ in sd):
                fi, side = h, sd
                calls = match_calls(h, sd)
                break
    if len(calls) < 2:
        raise AnalysisError("conversions._plan_conversion: expected _match_factors to be called in both directions over the _splat()ed sides")
    for c in calls:
        d = (side[c.args[0].id], side[c.args[1].id])  # type: ignore[union-attr]
        key = f"_plan_conversion:_match_factors({d[0]}, {d[1]})"
        parent = getattr(c, "_parent", None)
        swapped = None
        site: ast.AST = c
        # the steps may first be named: `reverse_steps = _match_factors(end_factors, start_factors)`
        if isinstance(parent, ast.Assign) and len(parent.targets) == 1 and isinstance(parent.targets[0], ast.Name):
            lname = parent.targets[0].id
            users = [n for n in ast.walk(fi.node) if isinstance(n, ast.Name) and n.id == lname and isinstance(n.ctx, ast.Load)]
            if len(users) == 1:
                site = users[0]
                parent = getattr(site, "_parent", None)
        if isinstance(parent, ast.comprehension):
            comp = getattr(parent, "_parent", None)
            tgt = parent.target
            elt = getattr(comp, "elt", None)
            if isinstance(tgt, ast.Tuple) and len(tgt.elts) == 4 and isinstance(elt, ast.Tuple) and len(elt.elts) == 4:
                t1, t2 = ast.unparse(tgt.elts[1]), ast.unparse(tgt.elts[2])
                e1, e2 = ast.unparse(elt.elts[1]), ast.unparse(elt.elts[2])
                swapped = (e1, e2) == (t2, t1)
                same = (e1, e2) == (t1, t2)
                if not swapped and not same:
                    swapped = None
        elif isinstance(parent, ast.For) and parent.iter is site and isinstance(parent.target, ast.Tuple) and len(parent.target.elts) == 4:
            t1, t2 = ast.unparse(parent.target.elts[1]), ast.unparse(parent.target.elts[2])
            for a in ast.walk(parent):
                if isinstance(a, ast.Tuple) and len(a.elts) == 4 and isinstance(a.ctx, ast.Load):
                    e1, e2 = ast.unparse(a.elts[1]), ast.unparse(a.elts[2])
                    if (e1, e2) == (t2, t1):
                        swapped = True
                    elif (e1, e2) == (t1, t2):
                        swapped = False
        else:
            swapped = False   # used as it comes (plan += _match_factors(..))
        if swapped is None:
            rep.defer(AnalysisError(f"{key}: cannot tell how its steps are re-tupled"))
            continue
        want = d == ("end", "start")
        rep.check(rid, key, swapped == want,
                  f"the steps of _match_factors({c.args[0].id}, {c.args[1].id}) are " + ("not turned round" if want else "turned round") +  # type: ignore[union-attr]
                  f" before joining the plan: they convert {'end -> start' if d[0] == 'end' else 'start -> end'} and the plan runs start -> end, so that step "
                  "multiplies by the inverse ratio (3 tsp x 2 s -> 1.2e6 m^3 s)", fi.where(c))


def check_in_unit(rep: Report, prog: Program, rid: str) -> None:
    """The public entry Quantity.in_unit is conversions.convert(self, unit) and nothing else: every other
    rule about conversion (affine map, prefix step last, offsets scaled) is proved about convert, so a
    shortcut here bypasses all of them.  Allowed besides the call: returning self when the unit already
    is the requested one."""
    fi = prog.func("Quantity.in_unit")
    ps = fi.params()
    me, unit = ps[0], ps[1]
    defs = {n.targets[0].id: n.value for n in ast.walk(fi.node) if isinstance(n, ast.Assign) and len(n.targets) == 1 and isinstance(n.targets[0], ast.Name)}
    rets = [r for r in ast.walk(fi.node) if isinstance(r, ast.Return) and r.value is not None]
    if not rets:
        raise AnalysisError("Quantity.in_unit has no return")
    for i, r in enumerate(rets):
        v = r.value
        if isinstance(v, ast.Name) and v.id in defs:
            v = defs[v.id]
        okc = isinstance(v, ast.Call) and ast.unparse(v.func).split(".")[-1] == "convert" and len(v.args) == 2 and not v.keywords \
            and isinstance(v.args[0], ast.Name) and v.args[0].id == me and isinstance(v.args[1], ast.Name) and v.args[1].id == unit \
            and unit not in defs and me not in defs
        same = False
        if isinstance(v, ast.Name) and v.id == me:
            p = getattr(r, "_parent", None)
            if isinstance(p, ast.If):
                t = ast.unparse(p.test).replace(" ", "")
                same = t in (f"{me}.unitis{unit}", f"{unit}is{me}.unit", f"{me}.unit=={unit}", f"{unit}=={me}.unit") and any(r is x for x in p.body)
        rep.check(rid, f"Quantity.in_unit:return#{i + 1}", okc or same,
                  f"Quantity.in_unit returns `{ast.unparse(r.value)[:60]}`: a conversion that does not go through conversions.convert(self, {unit}) "
                  "unchanged escapes every rule proved about convert (offsets of temperature scales, the prefix step, linearity)", fi.where(r))


def run(rep: Report) -> None:
    prog = Program()
    resolver = Resolver(prog)
    rep.rule("R05.1", "mutually inverse, correctly oriented stores: in equate r_xy*r_yx = 1 and _ratios[X][Y] = v(X)/v(Y) given "
             "val(a) = val(b), keyed by unprefixed units; in translate o_xy*r_yx + o_yx = 0 and the scale's zero maps to the "
             "declared zero point", floor=10)
    rep.rule("R05.2", "convert applies an affine map whose coefficients do not depend on the magnitude: updates are "
             "magnitude*c / magnitude+c, no branch tests the magnitude, the plan depends on the units only", floor=4)
    rep.rule("R05.3", "every return of convert is Quantity(<magnitude>, <the requested unit, unmodified>)", floor=1)
    rep.rule("R05.9", "the steps of the exchanged _match_factors call are turned round before they join the plan (and those of the forward call are not)", floor=2)
    rep.rule("R05.8", "_reduce_dimension returns the degree of the roots it actually took (or 1 with the units unchanged)", floor=2)
    rep.rule("R05.7", "Quantity.in_unit is conversions.convert(self, unit), unchanged, on every path", floor=1)
    rep.rule("R05.4", "path search: both tables read in one direction, recursion from the intermediate to end, hops ordered "
             "start -> end, direct hit and base case return single hops", floor=5)
    rep.rule("R05.6", "every hop returned by the path search after the dimension reduction is lifted by ** exponent, including "
             "the hops of a recursively found sub-path", floor=2)
    rep.rule("R05.13", "a function that walks the ratio table on its own multiplies the magnitude of the quantity whose unit indexes the table", floor=1)
    check_table_walkers(rep, prog, "R05.13")
    rep.rule("R05.12", "no two base units of an inverse fundamental dimension (T^-1, ...) are linked by declared equivalences (the planner's sign rule would invert "
             "their ratio inside compound units)", floor=1)
    rep.rule("R05.5", "declared ratios are positive; scale units (non-zero offsets) are leaves of the declared graph", floor=200)
    check_equate(rep, prog, resolver)
    check_translate(rep, prog, resolver)
    from ..quantity_rules import check_decimal_helpers
    rep.rule("R03.2", "the Decimal-preserving helpers every conversion multiplies and adds with apply the operator they are named for, exactly "
             "(no lossy coercion of the other operand) - shared with C03", floor=5)
    check_decimal_helpers(rep, prog, "R03.2")
    check_convert(rep, prog)
    check_in_unit(rep, prog, "R05.7")
    check_reduce_dimension(rep, prog)
    check_match_direction(rep, prog)
    rep.rule("R05.11", "the exponent a matched / cancelled factor is applied with agrees with the dimension _splat files it under: +1 for "
             "Number and numerator dimensions, -1 for inverse dimensions", floor=6)
    check_factor_sign(rep, prog)
    rep.rule("R05.10", "_inline_paths is element-wise: one plan step per rough step, in order, with that step's own ratio and exponent; "
             "the plan under construction is append-only", floor=4)
    check_inline_paths(rep, prog)
    check_path_search(rep, prog)
    check_lifting(rep, prog)
    check_declared(rep)
    rep.not_decided += ["that there-and-back and via-intermediate agree numerically (needs the planner to choose valid paths, "
                        "C04, and consistent data, C09)", "exponent handling of multi-hop paths between powers of units (planner heuristics, C04)"]
    rep.assume("unprefixed()/quantify() are value-preserving (C11 R11.3)")
    rep.trust("mypy 2.3.1 expression types; E4 normal forms; E5 declaration model")
