"""C02 - dimensions, prefixes and units are canonical objects forming abelian groups.

If the intern key is injective on normal forms (R02.1, R02.2, R02.6), every operator
computes the componentwise group operation (R02.3, R02.5, R02.8) and renormalises
(R02.4, R02.7), then the interned objects are exactly the elements of a free abelian
group and `is` coincides with equality of normal forms, for expression trees of any
shape and evaluation order.
"""
from __future__ import annotations

import ast
from typing import Any, Dict, List, Optional, Set, Tuple

from ..absint import DictV, GroupV, NotImpl, TupleV, UnitV, Unsupported
from ..algebra import DIM_OPS, UNIT_OPS, check_group_ops, check_prefix_ops
from ..calls import Resolver
from ..cfg import CFG
from ..core import AnalysisError, Report
from ..e4util import default_arg_sets, run_function
from ..model import FuncInfo, Program

TITLE = "Dimensions, prefixes and units are canonical objects forming abelian groups"
INTERNED = ("Dimension", "Prefix", "Unit")


def names_in(e: ast.AST) -> Set[str]:
    return {n.id for n in ast.walk(e) if isinstance(n, ast.Name)}


def key_canonicity(rep: Report, prog: Program) -> None:
    # Unit: _build_key must order-normalise factors.items()
    fi = prog.func("Unit._build_key")
    fn = fi.node
    items_calls = [n for n in ast.walk(fn) if isinstance(n, ast.Call) and isinstance(n.func, ast.Attribute)
                   and n.func.attr == "items"]
    if not items_calls:
        raise AnalysisError("Unit._build_key: no .items() call found (anchor moved)")
    normalised = True
    for c in items_calls:
        p = getattr(c, "_parent", None)
        found = False
        while p is not None and p is not fn and not isinstance(p, ast.stmt):
            if isinstance(p, ast.Call) and isinstance(p.func, ast.Name) and p.func.id in ("sorted", "frozenset"):
                found = True
            p = getattr(p, "_parent", None)
        if not found:
            # `pairs = list(factors.items())` followed by an in-place `pairs.sort(..)`
            st = c
            while st is not None and not isinstance(st, ast.stmt):
                st = getattr(st, "_parent", None)
            if isinstance(st, ast.Assign) and len(st.targets) == 1 and isinstance(st.targets[0], ast.Name):
                lname = st.targets[0].id
                found = any(isinstance(x, ast.Call) and isinstance(x.func, ast.Attribute) and x.func.attr == "sort"
                            and isinstance(x.func.value, ast.Name) and x.func.value.id == lname for x in ast.walk(fn))
        normalised = normalised and found
    # an ordering key that can tie leaves tied factors in insertion order: a*b and b*a get different keys
    for c in [n for n in ast.walk(fn) if isinstance(n, ast.Call) and ((isinstance(n.func, ast.Name) and n.func.id == "sorted")
                                                                 or (isinstance(n.func, ast.Attribute) and n.func.attr == "sort"))]:
        kw = {k.arg: k.value for k in c.keywords}
        if "key" not in kw:
            continue
        k = kw["key"]
        bodies: List[ast.AST] = []
        if isinstance(k, ast.Lambda):
            bodies = [k.body]
        else:
            # a named key function (module level, or a method / staticmethod of the class)
            nm = k.id if isinstance(k, ast.Name) else (k.attr if isinstance(k, ast.Attribute) else None)
            for q_, f_ in prog.functions.items():
                if nm and f_.name == nm and (f_.cls in (None, "Unit")) and f_.module == "":
                    bodies += [r.value for r in ast.walk(f_.node) if isinstance(r, ast.Return) and r.value is not None]
        injective = bool(bodies) and all(any(isinstance(x, ast.Call) and isinstance(x.func, ast.Name) and x.func.id == "id" for x in ast.walk(b)) for b in bodies)
        rep.check("R02.1", "Unit._build_key:order-key", injective,
                  f"the factors of the intern key are ordered by `{ast.unparse(k)[:60]}`, which is not the identity of the factor: two different base units can "
                  "tie (symbols that differ only in case, equal names), a stable sort then keeps operand order, and a*b and b*a intern separately",
                  fi.where(c))
    rep.check("R02.1", "Unit._build_key:order", normalised,
              "the factor part of the intern key is built from factors.items() without an order-normalising call "
              "(sorted / frozenset): dict insertion order leaks into the key and A*B and B*A intern separately",
              fi.where())
    # both parameters flow into every returned value
    params = [p for p in fi.params() if p != "cls"]
    assigned: Dict[str, Set[str]] = {}
    for n in ast.walk(fn):
        if isinstance(n, ast.Assign) and len(n.targets) == 1 and isinstance(n.targets[0], ast.Name):
            assigned[n.targets[0].id] = names_in(n.value)
    nested_ = {id(x) for d_ in ast.walk(fn) if isinstance(d_, (ast.FunctionDef, ast.Lambda)) and d_ is not fn for x in ast.walk(d_) if x is not d_}
    for r in [n for n in ast.walk(fn) if isinstance(n, ast.Return) and n.value is not None and id(n) not in nested_]:   # not the returns of a local key function (refAQ24)
        deps = names_in(r.value)
        for _ in range(4):
            for v in list(deps):
                deps |= assigned.get(v, set())
        rep.check("R02.1", "Unit._build_key:inputs", set(params) <= deps,
                  f"the key does not depend on all of {params}: distinct units would share one interned object",
                  fi.where(r))
    # Dimension / Prefix keys
    for cls, want in (("Dimension", {"exponents"}), ("Prefix", {"base", "exponent"})):
        new = prog.func(f"{cls}.__new__")
        # the expression used as intern key: subscript / membership operand / setdefault argument on cls._known
        key_exprs: List[ast.AST] = []
        tables = {"cls._known"} | {n.targets[0].id for n in ast.walk(new.node) if isinstance(n, ast.Assign) and len(n.targets) == 1
                                   and isinstance(n.targets[0], ast.Name) and ast.unparse(n.value).endswith("._known")}

        def is_table(e: ast.AST) -> bool:
            return ast.unparse(e) in tables or ast.unparse(e).endswith("._known")
        for n in ast.walk(new.node):
            if isinstance(n, ast.Dict):
                # {**known, key: self}: a rebuilt table
                for k, v in zip(n.keys, n.values):
                    if k is not None and any(kk is None and is_table(vv) for kk, vv in zip(n.keys, n.values)):
                        key_exprs.append(k)
            if isinstance(n, ast.Subscript) and is_table(n.value):
                key_exprs.append(n.slice)
            elif isinstance(n, ast.Compare) and len(n.ops) == 1 and isinstance(n.ops[0], (ast.In, ast.NotIn)) \
                    and is_table(n.comparators[0]):
                key_exprs.append(n.left)
            elif isinstance(n, ast.Call) and isinstance(n.func, ast.Attribute) and n.func.attr in ("setdefault", "get") \
                    and is_table(n.func.value) and n.args:
                key_exprs.append(n.args[0])
        if not key_exprs:
            raise AnalysisError(f"{cls}.__new__: no use of cls._known found (anchor moved)")
        local = {n.targets[0].id: n.value for n in ast.walk(new.node) if isinstance(n, ast.Assign) and len(n.targets) == 1
                 and isinstance(n.targets[0], ast.Name)}
        def key_deps(e: ast.AST, depth: int = 0) -> Set[str]:
            """Constructor parameters the key expression depends on: locals and same-class helper calls followed."""
            if isinstance(e, ast.Name):
                if e.id in local and depth < 5:
                    return key_deps(local[e.id], depth + 1)
                return set() if e.id in ("cls", "self") else {e.id}
            if isinstance(e, ast.Call) and isinstance(e.func, ast.Attribute) and isinstance(e.func.value, ast.Name) \
                    and e.func.value.id in ("cls", "self", cls) and depth < 5:
                hq = prog.method(cls, e.func.attr)
                if hq and hq[0] in prog.functions:
                    h = prog.functions[hq[0]]
                    hp = [p_ for p_ in h.params() if p_ not in ("cls", "self")]
                    hlocal = {n.targets[0].id: n.value for n in ast.walk(h.node) if isinstance(n, ast.Assign) and len(n.targets) == 1
                              and isinstance(n.targets[0], ast.Name)}
                    used: Set[str] = set()
                    for r in ast.walk(h.node):
                        if isinstance(r, ast.Return) and r.value is not None:
                            d = names_in(r.value)
                            for _ in range(4):
                                for v in list(d):
                                    if v in hlocal:
                                        d = (d - {v}) | names_in(hlocal[v])
                            used |= d
                    out: Set[str] = set()
                    for i, a in enumerate(e.args):
                        if i < len(hp) and hp[i] in used:
                            out |= key_deps(a, depth + 1)
                    for kw in e.keywords:
                        if kw.arg in used:
                            out |= key_deps(kw.value, depth + 1)
                    return out
            out2: Set[str] = set()
            for ch in ast.iter_child_nodes(e):
                if isinstance(ch, (ast.expr_context, ast.operator, ast.cmpop, ast.unaryop, ast.boolop)):
                    continue
                out2 |= key_deps(ch, depth)
            return out2
        for ke in key_exprs:
            deps = key_deps(ke)
            rep.check("R02.1", f"{cls}.__new__:key", deps == want,
                      f"intern key of {cls} is built from {sorted(deps)}, expected exactly {sorted(want)}", new.where(ke))
    # Prefix identity canonicalisation precedes the key
    pn = prog.func("Prefix.__new__")
    first_if = next((s for s in pn.node.body if isinstance(s, ast.If)), None)
    # `if a: if b: return X` (no else on either) is `if a and b: return X` (refAQ22)
    if first_if is not None and not first_if.orelse and len(first_if.body) == 1 and isinstance(first_if.body[0], ast.If) and not first_if.body[0].orelse:
        inner_ = first_if.body[0]
        first_if = ast.If(test=ast.BoolOp(op=ast.And(), values=[first_if.test, inner_.test]), body=inner_.body, orelse=[])
    txt = ast.unparse(first_if.test).replace(" ", "") if first_if is not None else ""
    # the test may sit in a one-expression predicate of the class: `cls._is_identity(base, exponent)`
    t_ = first_if.test if first_if is not None else None
    if isinstance(t_, ast.Call) and isinstance(t_.func, ast.Attribute) and isinstance(t_.func.value, ast.Name) and t_.func.value.id in ("cls", "Prefix") \
            and f"Prefix.{t_.func.attr}" in prog.functions and not t_.keywords:
        h_ = prog.functions[f"Prefix.{t_.func.attr}"]
        hb_ = [x for x in h_.node.body if not (isinstance(x, ast.Expr) and isinstance(x.value, ast.Constant))]  # type: ignore[attr-defined]
        hp_ = h_.params() if h_.is_static else h_.params()[1:]
        if len(hb_) == 1 and isinstance(hb_[0], ast.Return) and hb_[0].value is not None and len(hp_) == len(t_.args) \
                and all(isinstance(a, ast.Name) for a in t_.args):
            import copy as _cp
            ren_ = {p_: a.id for p_, a in zip(hp_, t_.args)}  # type: ignore[union-attr]
            e_ = _cp.deepcopy(hb_[0].value)
            for x in ast.walk(e_):
                if isinstance(x, ast.Name) and x.id in ren_:
                    x.id = ren_[x.id]
            txt = ast.unparse(e_).replace(" ", "")
    ok = ("exponent==0" in txt and first_if is not None and isinstance(first_if.body[-1], ast.Return)
          and ast.unparse(first_if.body[-1].value or ast.Constant(None)) == "IdentityPrefix")
    rep.check("R02.1", "Prefix.__new__:identity", ok,
              "Prefix(b, 0) for b != 0 is not canonicalised to IdentityPrefix before interning: x * x**-1 would "
              "not be the identity object", pn.where())


def intern_protocol(rep: Report, prog: Program) -> None:
    for cls in INTERNED:
        fi = prog.func(f"{cls}.__new__")
        cfg = CFG(fi.node)
        dom = cfg.dominators()
        from ..effects import is_table as _is_table, table_aliases
        al = table_aliases(fi.node)
        by_name_al = table_aliases(fi.node, "_by_name")
        stores = [n for n in cfg.stmt_nodes() if isinstance(n.ast, ast.Assign)
                  and any(isinstance(t, ast.Subscript) and _is_table(t.value, al) for t in n.ast.targets)]
        for n in cfg.stmt_nodes():
            if not isinstance(n.ast, ast.Return):
                continue
            v = n.ast.value
            txt = ast.unparse(v) if v is not None else "None"
            ok = False
            why = ""
            if txt == "IdentityPrefix" or (isinstance(v, ast.Subscript) and (_is_table(v.value, al) or _is_table(v.value, by_name_al, "_by_name"))):
                ok = True
            elif isinstance(v, ast.Call) and isinstance(v.func, ast.Attribute) and v.func.attr == "setdefault" \
                    and _is_table(v.func.value, al) and len(v.args) == 2:
                ok = True   # stores the fresh object under its key unless one is there, and returns whichever is interned
            elif isinstance(v, ast.Name):
                # fresh object: a store cls._known[...] = <name> must dominate the return
                for s in stores:
                    if isinstance(s.ast, ast.Assign) and isinstance(s.ast.value, ast.Name) and s.ast.value.id == v.id \
                            and s.nid in dom.get(n.nid, set()):
                        ok = True
                why = "the fresh object is returned without being stored in the intern table on that path"
            else:
                why = "returns something that is neither the interned object nor a canonical singleton"
            rep.check("R02.2", f"{cls}.__new__:return {txt}", ok, f"{cls}.__new__ {why}", fi.where(n.ast))


def no_bypass(rep: Report, prog: Program) -> None:
    for cls in INTERNED:
        ci = prog.cls(cls)
        rep.check("R02.6", f"{cls}.__getnewargs_ex__", "__getnewargs_ex__" in ci.methods,
                  f"{cls} defines no __getnewargs_ex__: copy and pickle would bypass the interning constructor",
                  f"{ci.path}:{ci.node.lineno}")
    for q, fi in prog.functions.items():
        if fi.module in ("hypothesis", "pytest"):
            continue
        for n in ast.walk(fi.node):
            if isinstance(n, ast.Call) and isinstance(n.func, ast.Attribute) and n.func.attr == "__new__":
                tgt = ast.unparse(n.func.value)
                inside_own = fi.cls in INTERNED and fi.name == "__new__"
                if tgt.startswith("super()") and inside_own:
                    rep.ok("R02.6", f"{q}:super().__new__")
                    continue
                arg0 = ast.unparse(n.args[0]) if n.args else ""
                if tgt.startswith("super()") and fi.cls not in INTERNED:
                    continue
                if arg0 in INTERNED or (tgt in INTERNED) or (tgt == "object" and arg0 in INTERNED + ("cls",) and fi.cls in INTERNED and not inside_own) \
                        or (tgt.startswith("super()") and fi.cls in INTERNED and not inside_own):
                    rep.fail("R02.6", f"{q}:{ast.unparse(n.func)}",
                             f"{q} allocates an interned class with {ast.unparse(n)} outside its __new__: the object "
                             "escapes the intern table", fi.where(n))


def renormalisation(rep: Report, prog: Program, resolver: Resolver, tier: str) -> None:
    """R02.4 + R02.7 on the factor argument of every derived constructor site."""
    from .c01 import unit_ctor_sites
    done: Set[str] = set()
    for fi, cs in unit_ctor_sites(prog, resolver):
        if fi.module != "" or fi.qual in done:
            continue
        done.add(fi.qual)
        for args in default_arg_sets(prog, resolver, fi.qual, "unit"):
            try:
                run = run_function(prog, resolver, fi.qual, ("dimension", "prefix", "unit"), args,
                                   inline_depth=3 if tier == "thorough" else 2)
            except Unsupported as e:
                raise AnalysisError(f"{fi.qual}: {e}")
            for ev in run.events:
                if ev.kind != "ctor" or ev.data.get("cls") != "Unit" or ev.data.get("func") != fi.qual:
                    continue
                f = ev.data["f"]
                if isinstance(f, DictV):
                    f = f.g
                if not isinstance(f, GroupV):
                    continue
                key = f"{fi.qual}@{ast.unparse(ev.node)[:50]}"
                if "empty" in f.flags and not f.mono:
                    continue
                fl = f.flags
                normal = ({"no_one", "no_zero", "fallback"} <= fl) or ("simplified" in fl and not ({"pos", "neg"} & fl)) \
                    or (bool({"pos", "neg"} & fl) and bool({"fallback", "nonempty"} & fl)) or ("one" in fl and not f.mono) \
                    or ({"no_one", "no_zero", "nonempty"} <= fl)
                rep.check("R02.4", key, normal,
                          "the factor mapping passed to Unit(...) is neither the result of _simplify (zero and One "
                          f"entries removed, One fallback), an operand's own factors, nor a sign-subset with the One "
                          f"fallback (flags {sorted(fl)}): equal units would intern under different keys",
                          fi.where(ev.node))
                rep.check("R02.7", key, not ({"selfkey", "rekeyed"} & fl),
                          "factor keys are not the operands' base units (an operand is used as its own key or keys "
                          "are rewritten): the normal form is no longer unique", fi.where(ev.node))
    # _simplify itself: every return is the filtered map (no One, no zero exponents) with the
    # {One: 1} fallback for the empty case
    from ..absint import G
    simp = prog.func("Unit._simplify")
    try:
        r = run_function(prog, resolver, "Unit._simplify", ("dimension", "prefix", "unit"),
                         {simp.params()[0]: __import__("sa.absint", fromlist=["OpaqueV"]).OpaqueV("cls"),
                          simp.params()[1]: GroupV("F", G("F", "x").mono, set(), True)})
    except Unsupported as e:
        raise AnalysisError(f"Unit._simplify: {e}")
    rets = [o for o in r.outcomes if o.kind == "return"]
    if not rets:
        raise AnalysisError("Unit._simplify: no return analysed")
    for o in rets:
        v = o.value
        if isinstance(v, DictV):
            v = v.g
        fl = v.flags if isinstance(v, GroupV) else set()
        ok = isinstance(v, GroupV) and (({"no_one", "no_zero"} <= fl and bool({"fallback", "nonempty"} & fl)) or ("one" in fl and not v.mono))
        arm = "&".join(("" if t else "not ") + c for c, t in o.path) or "-"
        rep.check("R02.4", f"Unit._simplify|{arm}", ok,
                  f"Unit._simplify returns a mapping with properties {sorted(fl)}: it must drop One, drop zero exponents and fall back "
                  "to {One: 1} when nothing is left", simp.where(o.node))


def stable_hash(rep: Report, prog: Program, resolver: Resolver, rid: str) -> None:
    """Interned objects are used as dict keys and set members everywhere (intern tables, lru_cache keys,
    ROOT_POWER_DIMENSIONS, factor maps).  If a class defines __hash__/__eq__ over a field that some
    function assigns after construction (Dimension.define extends every `exponents`), members stored
    before the assignment sit under a stale hash and membership silently turns False."""
    for cls in ("Dimension", "Prefix", "Unit", "Logarithm", "LogarithmicUnit"):
        ci = prog.cls(cls)
        hashed: Set[str] = set()
        for d in ("__hash__", "__eq__"):
            if d in ci.methods:
                fn = prog.functions[ci.methods[d]]
                me = fn.params()[0]
                hashed |= {a.attr for a in ast.walk(fn.node) if isinstance(a, ast.Attribute) and isinstance(a.value, ast.Name) and a.value.id == me}
        if not hashed and not any(d in ci.methods for d in ("__hash__", "__eq__")):
            rep.ok(rid, f"{cls}:identity-hash", note="no __hash__/__eq__ override: identity semantics")
            continue
        # an override must be exactly the structural key (anything coarser identifies different interned objects wherever
        # they are used as dict keys - a Prefix is part of every Unit key)
        KEY = {"Dimension": {"exponents"}, "Prefix": {"base", "exponent"}, "Unit": {"prefix", "factors"},
               "Logarithm": {"base", "prefix"}, "LogarithmicUnit": {"logarithm", "reference"}}[cls]
        calls = sorted({x.func.attr for d in ("__hash__", "__eq__") if d in ci.methods for x in ast.walk(prog.functions[ci.methods[d]].node)
                        if isinstance(x, ast.Call) and isinstance(x.func, ast.Attribute) and isinstance(x.func.value, ast.Name)
                        and x.func.value.id in (prog.functions[ci.methods[d]].params()[0], prog.functions[ci.methods[d]].params()[-1])})
        if "__eq__" in ci.methods and any(isinstance(x, ast.Call) and isinstance(x.func, ast.Name) and x.func.id == "hash"
                                          for x in ast.walk(prog.functions[ci.methods["__eq__"]].node)):
            rep.fail(rid, f"{cls}:equality-by-hash", f"{cls}.__eq__ compares hashes: hash values collide (hash(-1) == hash(-2) in CPython, 64-bit folding), so two "
                     f"different interned {cls} objects compare equal and every table keyed by them returns the other one's entry",
                     prog.functions[ci.methods["__eq__"]].where())
            continue
        if calls or hashed - KEY - {"__class__"}:
            rep.fail(rid, f"{cls}:coarse-equality", f"{cls} overrides __eq__/__hash__ through {calls or sorted(hashed - KEY)} instead of its interning key "
                     f"{sorted(KEY)}: different interned {cls} objects can compare equal (floats underflow, round, tie), and every table keyed by them - "
                     "Unit._known holds the prefix object in its key - then returns the wrong one", f"{ci.path}:{ci.node.lineno}")
            continue
        mutated: Dict[str, str] = {}
        for q, fi in prog.functions.items():
            if fi.module in ("hypothesis", "pytest") or (fi.cls == cls and fi.name in ("__init__", "__new__", "__setstate__")):
                continue
            for st in ast.walk(fi.node):
                tg = st.targets if isinstance(st, ast.Assign) else ([st.target] if isinstance(st, (ast.AugAssign, ast.AnnAssign)) else [])
                for t in tg:
                    for x in (t.elts if isinstance(t, (ast.Tuple, ast.List)) else [t]):
                        if isinstance(x, ast.Attribute) and x.attr in hashed:
                            alts = resolver.expr_alts(fi, x.value)
                            if any(k == "inst" and full.split(".")[-1] == cls for k, full in alts):
                                mutated.setdefault(x.attr, f"{q}: {ast.unparse(st)[:50]}")
        rep.check(rid, f"{cls}:hash-over-{'+'.join(sorted(hashed))}", not mutated,
                  f"{cls} defines __hash__/__eq__ over {sorted(mutated)} but {list(mutated.values())[0] if mutated else ''} assigns it after construction: "
                  f"every {cls} already stored in a set or dict (ROOT_POWER_DIMENSIONS, intern tables, memo keys) is then filed under a stale hash",
                  f"{ci.path}:{ci.node.lineno}")


def rekeying(rep: Report, prog: Program) -> None:
    """R02.9: when Dimension.define appends a fundamental dimension, *every* interned
    dimension must get the longer exponent vector and its new key - otherwise dimensions
    interned earlier keep short keys and equal expressions intern twice."""
    fi = prog.func("Dimension.define")
    hosts = [fi.node]
    # the loop may sit in a method of Dimension that define calls as a statement of its own on its way out
    for st in fi.node.body:
        c = st.value if isinstance(st, ast.Expr) else None
        if isinstance(c, ast.Call) and isinstance(c.func, ast.Attribute) and isinstance(c.func.value, ast.Name) \
                and c.func.value.id in ("cls", "Dimension") and f"Dimension.{c.func.attr}" in prog.functions:
            hosts.append(prog.functions[f"Dimension.{c.func.attr}"].node)
    loops = [n for h in hosts for n in ast.walk(h) if isinstance(n, ast.For)
             and any(isinstance(x, (ast.Delete, ast.Assign, ast.AugAssign)) and "_known" in ast.unparse(x) for x in ast.walk(n))]
    if not loops:
        rep.fail("R02.9", "Dimension.define:rekey", "Dimension.define no longer re-keys the interned dimensions when the exponent "
                 "vector grows", fi.where())
        return
    for lp in loops:
        it = ast.unparse(lp.iter).replace(" ", "")
        over_all = "_known" in it
        body = ast.unparse(lp)
        grows = "exponents" in body and ("+=(0,)" in body.replace(" ", "") or "+(0,)" in body.replace(" ", ""))
        reinserts = any(isinstance(x, ast.Assign) and any(isinstance(t, ast.Subscript) and ast.unparse(t.value).endswith("._known") for t in x.targets)
                        for x in ast.walk(lp))
        rep.check("R02.9", "Dimension.define:rekey", over_all and grows and reinserts,
                  f"the re-keying loop ranges over `{ast.unparse(lp.iter)}`" + ("" if over_all else ", not over every interned dimension")
                  + ("" if grows else "; it does not extend the exponent vectors") + ("" if reinserts else "; it does not re-insert under the new key")
                  + ": dimensions interned before a later Dimension.define keep stale keys and equal expressions intern twice",
                  fi.where(lp))


_BINARY = ("add", "sub", "mul", "truediv", "floordiv", "mod", "pow", "matmul")


def operator_protocol(rep: Report, prog: Program, rid: str) -> None:
    """R02.12: `a * b` asks a.__mul__(b) first and, if that *returns NotImplemented*, b.__rmul__(a).  The algebra is spread over
    such pairs (Prefix.__rmul__ answers `unit * prefix`, Quantity.__rmul__ answers `unit * quantity`, Logarithm.__rmul__ ...),
    so an operator that rejects an operand it does not know by raising TypeError itself cuts the other operand off: the
    product exists in one order and raises in the other - no commutativity, no neutral element on that side."""
    core = [ci for ci in prog.classes.values() if ci.module == ""]
    reflected: Dict[str, List[str]] = {}
    for ci in core:
        for op in _BINARY:
            if f"__r{op}__" in ci.methods or f"__r{op}__" in ci.aliases:
                reflected.setdefault(op, []).append(ci.name)
    n = 0
    for ci in sorted(core, key=lambda c: c.name):
        for op in _BINARY:
            q = ci.methods.get(f"__{op}__")
            if q is None:
                continue
            others = [c for c in reflected.get(op, []) if c != ci.name]
            if not others:
                continue
            fi = prog.func(q)
            raises = [r for r in Resolver._own_nodes(fi.node) if isinstance(r, ast.Raise) and r.exc is not None
                      and ast.unparse(r.exc.func if isinstance(r.exc, ast.Call) else r.exc).split(".")[-1] in ("TypeError", "NotImplementedError")]
            n += 1
            rep.check(rid, f"{q}", not raises,
                      f"{q} raises {ast.unparse(raises[0].exc)[:50] if raises else ''} for an operand it does not handle instead of returning NotImplemented: "
                      f"the reflected operator of the right operand ({', '.join(c + '.__r' + op + '__' for c in others[:4])}) never gets its turn, so the "
                      "operation works in one order of the operands and raises in the other", fi.where(raises[0]) if raises else fi.where())
    if n == 0:
        raise AnalysisError("no binary operator with a reflected counterpart found in the core module (R02.12 anchor moved)")


def key_is_stored(rep: Report, prog: Program, rid: str) -> None:
    """R02.13: an interned object is found again under the key computed from the arguments of the next call, and code that
    walks the table (`Dimension.define` re-keys `_known` by `previous.exponents`) trusts that an object sits under the value of
    its own key attribute.  So what `__new__` interns under and what `__init__` stores in that attribute must be the same
    function of the arguments: a normalisation applied on one side only (padding, rounding, folding) splits them."""
    import copy
    from ..effects import table_aliases

    def resolved(fi: Any, e: ast.AST) -> ast.AST:
        local: Dict[str, List[ast.AST]] = {}
        for st in ast.walk(fi.node):
            if isinstance(st, ast.Assign) and len(st.targets) == 1 and isinstance(st.targets[0], ast.Name):
                local.setdefault(st.targets[0].id, []).append(st.value)
        ci = prog.cls(fi.cls)

        class D(ast.NodeTransformer):
            def visit_Name(self, n: ast.Name) -> ast.AST:
                if isinstance(n.ctx, ast.Load) and len(local.get(n.id, [])) == 1 and n.id not in fi.params():
                    return self.visit(copy.deepcopy(local[n.id][0]))
                return n

            def visit_Call(self, n: ast.Call) -> ast.AST:
                self.generic_visit(n)
                # cls._key(a, b): a one-expression helper of the class that only regroups its arguments
                if isinstance(n.func, ast.Attribute) and isinstance(n.func.value, ast.Name) and n.func.value.id in ("cls", "self", fi.cls) \
                        and n.func.attr in ci.methods and not n.keywords:
                    h = prog.functions[ci.methods[n.func.attr]]
                    body = [st for st in h.node.body if not (isinstance(st, ast.Expr) and isinstance(st.value, ast.Constant))]  # type: ignore[attr-defined]
                    hp = [p_ for p_ in h.params() if p_ not in ("cls", "self")]
                    if len(body) == 1 and isinstance(body[0], ast.Return) and body[0].value is not None and len(hp) == len(n.args):
                        m = dict(zip(hp, n.args))

                        class S(ast.NodeTransformer):
                            def visit_Name(self, x: ast.Name) -> ast.AST:
                                return copy.deepcopy(m[x.id]) if x.id in m and isinstance(x.ctx, ast.Load) else x
                        return S().visit(copy.deepcopy(body[0].value))
                return n
        return D().visit(copy.deepcopy(e))
    for cls, attrs in (("Dimension", ["exponents"]), ("Prefix", ["base", "exponent"])):
        new, init = prog.func(f"{cls}.__new__"), prog.func(f"{cls}.__init__")
        tables = {"_known"} | table_aliases(new.node, "_known")
        keyexpr = None
        for n in ast.walk(new.node):
            # <table>.setdefault(key, self) / <table>[key] = self, through `known = cls._known` too
            if isinstance(n, ast.Call) and isinstance(n.func, ast.Attribute) and n.func.attr == "setdefault" and n.args \
                    and ast.unparse(n.func.value).split(".")[-1] in tables:
                keyexpr = n.args[0]
            if isinstance(n, ast.Subscript) and isinstance(n.ctx, ast.Store) and ast.unparse(n.value).split(".")[-1] in tables:
                keyexpr = n.slice
        stored: List[ast.AST] = []
        for a in attrs:
            vals: List[ast.AST] = []
            for st in ast.walk(init.node):
                if not isinstance(st, (ast.Assign, ast.AnnAssign)) or getattr(st, "value", None) is None:
                    continue
                for t in (st.targets if isinstance(st, ast.Assign) else [st.target]):
                    pairs = list(zip(t.elts, st.value.elts)) if isinstance(t, (ast.Tuple, ast.List)) and isinstance(st.value, (ast.Tuple, ast.List)) \
                        and len(t.elts) == len(st.value.elts) else [(t, st.value)]
                    for tt, vv in pairs:
                        if isinstance(tt, ast.Attribute) and isinstance(tt.value, ast.Name) and tt.value.id == "self" and tt.attr == a:
                            vals.append(vv)
            if len(vals) != 1:
                stored = []
                break
            stored.append(resolved(init, vals[0]))
        if keyexpr is None or not stored:
            # not a shape this rule reads: no verdict from it (the other key rules R02.1 / R02.2 still decide the constructor)
            rep.defer(AnalysisError(f"{cls}: cannot pair the key __new__ interns under with what __init__ stores in {attrs}"))
            rep.rules[rid].floor = 0
            continue
        k = resolved(new, keyexpr)
        ktxt = ast.unparse(k).replace(" ", "")
        want = ast.unparse(stored[0]).replace(" ", "") if len(stored) == 1 else "(" + ",".join(ast.unparse(x).replace(" ", "") for x in stored) + ")"
        calls = any(isinstance(x, ast.Call) for x in ast.walk(k)) or any(isinstance(x, ast.Call) for e in stored for x in ast.walk(e))
        names_k = [x.id for x in ast.walk(k) if isinstance(x, ast.Name)]
        names_s = [x.id for e in stored for x in ast.walk(e) if isinstance(x, ast.Name)]
        ok = ktxt == want or (not calls and names_k == names_s)
        rep.check(rid, f"{cls}:key-vs-attribute", ok,
                  f"{cls}.__new__ interns under `{ktxt}` while {cls}.__init__ stores `{want}` in {', '.join('self.' + a for a in attrs)}: the object does not sit "
                  "under the value of its own key attribute, so table walks that re-key by it (Dimension.define) raise KeyError or lose entries, and an "
                  "equal construction misses it", new.where(keyexpr))


def key_reads_stable_fields(rep: Report, prog: Program, resolver: Resolver, rid: str) -> None:
    """R02.14: an intern key is looked up for as long as the process lives, so nothing it is built from may change later.
    Dimension.define re-assigns `exponents` of every interned dimension (and re-keys Dimension._known, R02.9); naming methods
    assign `name` / `symbol`.  A key of *another* table that embeds such a field (`dimension.exponents` inside Unit's key) is
    stale after the next re-assignment: equal constructions miss and intern twins."""
    core = ("Dimension", "Prefix", "Unit")
    mutated: Dict[str, str] = {}
    for q, fi in prog.functions.items():
        if fi.module in ("hypothesis", "pytest"):
            continue
        for st in ast.walk(fi.node):
            tg = st.targets if isinstance(st, ast.Assign) else ([st.target] if isinstance(st, (ast.AugAssign, ast.AnnAssign)) else [])
            for t in tg:
                for x in (t.elts if isinstance(t, (ast.Tuple, ast.List)) else [t]):
                    if not isinstance(x, ast.Attribute):
                        continue
                    owners = {full.split(".")[-1] for k, full in resolver.expr_alts(fi, x.value) if k == "inst"}
                    owners &= set(core)
                    if not owners:
                        continue
                    ctor = fi.cls in owners and fi.name in ("__init__", "__new__", "__setstate__") and isinstance(x.value, ast.Name) \
                        and x.value.id == (fi.params()[0] if fi.params() else "self")
                    if not ctor:
                        mutated.setdefault(x.attr, f"{q}: `{ast.unparse(st)[:50]}`")
    for cls in core:
        new = prog.func(f"{cls}.__new__")
        hosts = [new]
        for c in ast.walk(new.node):
            if isinstance(c, ast.Call) and isinstance(c.func, ast.Attribute) and isinstance(c.func.value, ast.Name) and c.func.value.id in ("cls", cls) \
                    and f"{cls}.{c.func.attr}" in prog.functions and prog.functions[f"{cls}.{c.func.attr}"] not in hosts:
                hosts.append(prog.functions[f"{cls}.{c.func.attr}"])
        bad = [(h, x) for h in hosts for x in ast.walk(h.node) if isinstance(x, ast.Attribute) and isinstance(x.ctx, ast.Load) and x.attr in mutated
               and not x.attr.startswith("_") and any(k == "inst" and full.split(".")[-1] in core for k, full in resolver.expr_alts(h, x.value))]
        rep.check(rid, f"{cls}.__new__:key-fields", not bad,
                  (f"{bad[0][0].qual} reads `{ast.unparse(bad[0][1])}` while interning a {cls}, but {mutated[bad[0][1].attr]} re-assigns that field on interned objects: "
                   f"keys stored in {cls}._known before go stale and equal constructions intern twins") if bad else "", bad[0][0].where(bad[0][1]) if bad else new.where())
    rep.analysed["fields_reassigned_after_construction"] = sorted(mutated)


def run(rep: Report) -> None:
    prog = Program()
    resolver = Resolver(prog)
    rep.rule("R02.14", "no intern key is built from a field that something re-assigns on interned objects (Dimension.exponents, names, symbols)", floor=3)
    key_reads_stable_fields(rep, prog, resolver, "R02.14")
    rep.rule("R02.13", "Dimension and Prefix are interned under exactly the value __init__ stores in their key attributes (no one-sided normalisation)", floor=2)
    key_is_stored(rep, prog, "R02.13")
    rep.rule("R02.12", "operator protocol: a binary operator of the algebra classes rejects an unknown operand by returning NotImplemented, never by "
             "raising TypeError itself (another class of the package defines the reflected operator)", floor=8)
    operator_protocol(rep, prog, "R02.12")
    rep.rule("R02.11", "interned classes hash by identity, or over fields nothing assigns after construction", floor=5)
    rep.rule("R02.10", "no memoised operator distinguishes (or is keyed by) numeric types the cache key conflates: x ** 3 must not depend on an "
             "earlier x ** 3.0", floor=1)
    rep.rule("R02.9", "Dimension.define re-keys every interned dimension when the exponent vector grows", floor=1)
    rep.rule("R02.1", "intern keys are canonical: Unit key order-normalised and built from prefix+factors; Dimension "
             "key = exponents; Prefix key = (base, exponent) after identity canonicalisation", floor=5)
    rep.rule("R02.2", "intern protocol: every return of the three __new__ is the interned object, a canonical "
             "singleton, or the fresh object stored under its key on that path", floor=6)
    rep.rule("R02.3", "Unit operators compute the componentwise group operation (prefix, factors, dimension)", floor=6)
    rep.rule("R02.4", "every derived construction passes renormalised factors (_simplify / untouched operand factors "
             "/ sign-subset with One fallback)", floor=6)
    rep.rule("R02.5", "Dimension operators are the elementwise + - * // on exponent vectors", floor=6)
    rep.rule("R02.6", "no allocation of Dimension/Prefix/Unit outside their own __new__; each defines __getnewargs_ex__", floor=6)
    rep.rule("R02.7", "factor keys stay base units (operands contribute through .factors)", floor=6)
    rep.rule("R02.8", "Prefix operators: log-value of the result = sum/difference/multiple of the operands' "
             "log-values in every arm (same base, identity, cross-base change of base)", floor=10)
    key_canonicity(rep, prog)
    rekeying(rep, prog)
    stable_hash(rep, prog, resolver, "R02.11")
    from ..quantity_rules import check_numeric_memo
    check_numeric_memo(rep, prog, resolver, "R02.10")
    intern_protocol(rep, prog)
    check_group_ops(rep, "R02.5", prog, resolver, DIM_OPS, "unit", ())
    check_group_ops(rep, "R02.3", prog, resolver, UNIT_OPS, "unit", ("dimension", "prefix", "unit"))
    renormalisation(rep, prog, resolver, rep.tier)
    no_bypass(rep, prog)
    check_prefix_ops(rep, "R02.8", prog, resolver)
    rep.not_decided.append("the 1e-9 bound for mixed-base prefixes (floating point): only the algebraic identity of the change of base is decided")
    rep.not_decided.append("exactness tests applied to float exponents (e.g. ((Kibi*Kilo)**2).root(2) raises)")
    rep.trust("mypy 2.3.1 expression types; E4 idiom recognisers (sa/absint.py)")
    rep.assume("dict/tuple/sorted/id behave as in CPython; id() gives a total order on live objects")
