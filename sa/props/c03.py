"""C03 - quantity operations obey dimensional analysis; incommensurables are rejected."""
from __future__ import annotations

from ..calls import Resolver
from ..core import Report
from ..model import Program
from ..quantity_rules import (check_decimal_helpers, check_gates, check_mixed_arithmetic, check_numeric_memo, check_extra_operators, check_float_only_calls, check_number_hooks, check_swallowed_conversion_errors, check_operators, check_quantity_ctor, check_unit_with_quantity)

TITLE = "Quantity operations obey dimensional analysis; incommensurables are rejected"


def run(rep: Report) -> None:
    prog = Program()
    resolver = Resolver(prog)
    rep.rule("R03.1", "physical value of every Quantity operator's result = the operation applied to the operands' "
             "physical values (dimension follows: dim is a homomorphic image of the factor component, C01)", floor=14)
    rep.rule("R03.1d", "dimension component of the result = product / quotient / power / root of the operand dimensions", floor=14)
    rep.rule("R03.2", "Decimal helpers: the guard tests both operands, both branches apply the operator the name denotes, "
             "the Decimal branch converts both operands; no raw Decimal-vs-float arithmetic outside them", floor=6)
    rep.rule("R03.6", "no memoised function is keyed by numbers of several types (Decimal-ness of a result must not depend on call history)", floor=5)
    rep.rule("R03.7", "Quantity.__init__ stores the magnitude and unit it is given (a unit text read as a quantity must fold its scale into the stored magnitude)", floor=2)
    rep.rule("R03.3", "dimension gates dominate: convert raises ConversionNotFound before anything else; __eq__/__lt__ "
             "return NotImplemented before any magnitude comparison or conversion; Measurement.__eq__ returns False", floor=5)
    rep.rule("R03.4", "every return of a Quantity operator is a Quantity or NotImplemented, never a number", floor=14)
    rep.rule("R03.5", "addition and subtraction return the left operand's unit and convert the right operand itself first", floor=6)
    rep.rule("R03.8", "every further arithmetic hook of Quantity follows its family: an alias only for the reflected form of a "
             "commutative operator; additive hooks (%, in-place +/-) gate the right operand itself and keep the left dimension; "
             "quotient / product hooks carry the quotient / product dimension", floor=1)
    n = check_operators(rep, prog, resolver, "R03.1", "R03.4", "R03.5", rid_dim="R03.1d")
    check_extra_operators(rep, prog, resolver, "R03.8")
    rep.rule("R03.12", "no Quantity method hands its magnitude to a float-only library function (math.*) without a Decimal branch")
    if check_float_only_calls(rep, prog, "R03.12") == 0:
        rep.ok("R03.12", "Quantity", note="no math.* call on a magnitude")
    rep.rule("R03.11", "no handler for ValueError / Exception around a conversion ends in a value (ConversionNotFound is a ValueError)")
    if check_swallowed_conversion_errors(rep, prog, resolver, "R03.11") == 0:
        rep.ok("R03.11", "package", note="no broad handler around a conversion")
    rep.rule("R03.10", "a hook that turns a quantity into a bare number (__float__, __int__, __index__, __complex__) refuses every quantity that still has a dimension")
    if check_number_hooks(rep, prog, "R03.10") == 0:
        rep.ok("R03.10", "Quantity / Level / Measurement", note="no numeric conversion hook is defined")
    rep.rule("R03.9", "a Unit operator that itself accepts a Quantity or a number returns the quantity dimensional analysis asks for")
    n9 = check_unit_with_quantity(rep, prog, resolver, "R03.9")
    if n9 == 0:
        rep.ok("R03.9", "Unit operators", note="none accepts a Quantity or a number itself (left to Quantity's reflected operators, R03.1)")
    check_decimal_helpers(rep, prog, "R03.2")
    check_mixed_arithmetic(rep, prog, resolver, "R03.2")
    check_gates(rep, prog, "R03.3")
    check_numeric_memo(rep, prog, resolver, "R03.6")
    check_quantity_ctor(rep, prog, "R03.7")
    rep.analysed["operator_returns"] = n
    rep.assume("q.in_unit(U) returns a quantity of unit U with unchanged physical value (C04 axiom)")
    rep.assume("Unit operators are the group operations (C02), a unit's dimension is the image of its factors (C01)")
    rep.not_decided += ["complex results of even roots of negative magnitudes", "float overflow / Decimal context traps"]
    rep.trust("mypy 2.3.1 expression types; E4 normal forms (sa/poly.py)")
