"""C08 - conversion results depend only on declared equivalences, not on query history."""
from __future__ import annotations

import ast
from typing import Dict, List, Optional, Set, Tuple

from ..calls import Reach, Resolver
from ..cfg import CFG
from ..core import AnalysisError, Report
from ..effects import Write, location_of, module_mutable_globals, reads_in, writes_in
from ..model import FuncInfo, Program

TITLE = "Conversion results depend only on declared equivalences, not on query history"
SKIP = {"hypothesis", "pytest"}
NAMING = {"_by_name", "_by_symbol"}
EXEMPT_KINDS = {"_known": "intern table: append-only and idempotent - a later insert never changes the object returned for an existing key",
                "_base": "set of base units: bookkeeping only", "_fundamental": "list of fundamental dimensions: definition-time only"}


def memo_functions(prog: Program) -> List[str]:
    return sorted(q for q, fi in prog.functions.items() if prog.is_memoised(fi) and fi.module not in SKIP)


def transitive(prog: Program, resolver: Resolver, root: str) -> Reach:
    return Reach(resolver, [root], prune=True)


def invalidations(prog: Program, resolver: Resolver, qual: str, _depth: int = 0) -> List[Tuple[str, ast.AST]]:
    """memo functions whose cache_clear() is called in `qual` -> (memo qual, node)"""
    out = []
    for cs in resolver.callsites(qual):
        if cs.external == "cache_clear:None":
            # `for memo in (_plan_conversion, _find_path): memo.cache_clear()` - a loop over a literal, non-empty
            # tuple of memo functions clears each of them (the For header stands for the clears)
            out.extend(_loop_clears(prog, qual, cs.node))
        elif cs.external and cs.external.startswith("cache_clear:"):
            out.append((cs.external.split(":", 1)[1], cs.node))
        elif _depth < 2:
            # a helper that clears the caches counts at the call site of the helper - for the caches it clears on
            # every path to its normal exit (a clear the helper can skip is no invalidation the caller can rely on)
            for t in cs.targets:
                inner = invalidations(prog, resolver, t, _depth + 1)
                if not inner:
                    continue
                cfg = CFG(prog.functions[t].node)
                for mm in sorted({mm for mm, _ in inner}):
                    nodes = {cfg.node_of(n) for m2, n in inner if m2 == mm}
                    nodes.discard(None)
                    if nodes and cfg.exit_return not in cfg.reachable(cfg.entry, avoid=nodes):  # type: ignore[arg-type]
                        out.append((mm, cs.node))
    return out


def _loop_clears(prog: Program, qual: str, call: ast.AST) -> List[Tuple[str, ast.AST]]:
    f = getattr(call, "func", None)
    if not (isinstance(f, ast.Attribute) and isinstance(f.value, ast.Name)):
        return []
    fi = prog.functions[qual]
    mi = prog.modules[fi.module]
    stmt = getattr(call, "_parent", None)
    loop = getattr(stmt, "_parent", None)
    if not (isinstance(stmt, ast.Expr) and isinstance(loop, ast.For) and stmt in loop.body and not loop.orelse):
        return []
    if not (isinstance(loop.target, ast.Name) and loop.target.id == f.value.id):
        return []
    if not (isinstance(loop.iter, (ast.Tuple, ast.List)) and loop.iter.elts):
        return []
    # nothing in the body before the clear may leave the iteration
    for earlier in loop.body[: loop.body.index(stmt)]:
        if any(isinstance(x, (ast.Break, ast.Continue, ast.Return, ast.Raise)) for x in ast.walk(earlier)):
            return []
    if any(isinstance(x, ast.Break) or isinstance(x, ast.Return) for s_ in loop.body for x in ast.walk(s_)):
        return []
    out: List[Tuple[str, ast.AST]] = []
    for e in loop.iter.elts:
        inner = None
        if isinstance(e, ast.Name):
            inner = prog.resolve_name(mi, e.id)
        elif isinstance(e, ast.Attribute):
            inner = prog.resolve_attr_chain(mi, e)
        if inner is None:
            return []
        out.append((inner, loop))
    return out


# ----------------------------------------------------------------- alias taint
def taint_analysis(prog: Program, resolver: Resolver, memos: List[str]) -> List[Tuple[str, ast.AST, str]]:
    """In-place mutation of objects that are (part of) a memoised function's result.
    Levels: 'A' the object is cached/shared; 'E' a fresh container whose elements are."""
    funcs = [q for q, fi in prog.functions.items()]   # the shipped test helpers (measured.pytest, measured.hypothesis) are package code like any other
    level: Dict[Tuple[str, str], str] = {}       # (func, var) -> 'A' | 'E'
    ret: Dict[str, str] = {m: "A" for m in memos}
    findings: List[Tuple[str, ast.AST, str]] = []

    def join(a: Optional[str], b: Optional[str]) -> Optional[str]:
        if a == "A" or b == "A":
            return "A"
        return a or b

    def expr_level(f: str, e: ast.AST) -> Optional[str]:
        if isinstance(e, ast.Name):
            return level.get((f, e.id))
        if isinstance(e, ast.Call):
            for cs in resolver.callsites(f):
                if cs.node is e:
                    lv = None
                    for t in cs.targets:
                        lv = join(lv, ret.get(t))
                    if lv:
                        return lv
            if isinstance(e.func, ast.Name) and e.func.id in ("list", "tuple", "sorted", "reversed", "dict", "set") and e.args:
                inner = expr_level(f, e.args[0])
                return "E" if inner else None
            return None
        if isinstance(e, (ast.List, ast.Tuple, ast.Set)):
            return "E" if any(expr_level(f, x) for x in e.elts) else None
        if isinstance(e, ast.BinOp) and isinstance(e.op, ast.Add):
            return "E" if (expr_level(f, e.left) or expr_level(f, e.right)) else None
        if isinstance(e, ast.Subscript):
            return "A" if expr_level(f, e.value) else None
        if isinstance(e, (ast.ListComp, ast.GeneratorExp)):
            return "E" if any(expr_level(f, g.iter) for g in e.generators) else None
        if isinstance(e, ast.IfExp):
            return join(expr_level(f, e.body), expr_level(f, e.orelse))
        if isinstance(e, ast.Starred):
            return expr_level(f, e.value)
        return None

    def bind(f: str, target: ast.AST, lv: Optional[str]) -> bool:
        ch = False
        if lv is None:
            return False
        if isinstance(target, ast.Name):
            cur = level.get((f, target.id))
            new = join(cur, lv)
            if new != cur:
                level[(f, target.id)] = new  # type: ignore[assignment]
                ch = True
        elif isinstance(target, (ast.Tuple, ast.List)):
            for x in target.elts:
                ch = bind(f, x.value if isinstance(x, ast.Starred) else x, "A" if lv else None) or ch
        return ch

    changed = True
    rounds = 0
    while changed and rounds < 30:
        rounds += 1
        changed = False
        for f in funcs:
            fi = prog.functions[f]
            for n in Resolver._own_nodes(fi.node):
                if isinstance(n, ast.Assign):
                    lv = expr_level(f, n.value)
                    for t in n.targets:
                        changed = bind(f, t, lv) or changed
                elif isinstance(n, ast.AnnAssign) and n.value is not None:
                    changed = bind(f, n.target, expr_level(f, n.value)) or changed
                elif isinstance(n, (ast.For, ast.comprehension)):
                    lv = expr_level(f, n.iter)
                    changed = bind(f, n.target, "A" if lv else None) or changed
                elif isinstance(n, ast.Return) and n.value is not None:
                    lv = expr_level(f, n.value)
                    if lv and join(ret.get(f), lv) != ret.get(f):
                        ret[f] = join(ret.get(f), lv)  # type: ignore[assignment]
                        changed = True
                elif isinstance(n, ast.Call) and isinstance(n.func, ast.Attribute) and n.func.attr in ("append", "extend", "insert", "add") \
                        and isinstance(n.func.value, ast.Name) and n.args:
                    # a fresh container that receives cached elements holds them ('E')
                    if any(expr_level(f, a) for a in n.args) and level.get((f, n.func.value.id)) is None:
                        level[(f, n.func.value.id)] = "E"
                        changed = True
            # arguments -> parameters
            for cs in resolver.callsites(f):
                if not cs.targets:
                    continue
                for t in cs.targets:
                    callee = prog.functions[t]
                    if callee.module in SKIP:
                        continue
                    params = callee.params()
                    off = 1 if cs.bound else 0
                    for i, a in enumerate(cs.args):
                        if isinstance(a, ast.Starred) or off + i >= len(params):
                            continue
                        lv = expr_level(f, a)
                        if lv and join(level.get((t, params[off + i])), lv) != level.get((t, params[off + i])):
                            level[(t, params[off + i])] = join(level.get((t, params[off + i])), lv)  # type: ignore[assignment]
                            changed = True
                    for k, a in cs.kwargs.items():
                        lv = expr_level(f, a)
                        if lv and k in params and join(level.get((t, k)), lv) != level.get((t, k)):
                            level[(t, k)] = join(level.get((t, k)), lv)  # type: ignore[assignment]
                            changed = True
    # sinks
    muts = {"append", "extend", "insert", "pop", "remove", "clear", "sort", "reverse", "update", "setdefault", "add", "discard", "popitem"}
    for f in funcs:
        fi = prog.functions[f]
        for n in Resolver._own_nodes(fi.node):
            tgt = None
            how = ""
            if isinstance(n, (ast.Assign, ast.AugAssign)):
                for t in (n.targets if isinstance(n, ast.Assign) else [n.target]):
                    if isinstance(t, ast.Subscript) and expr_level(f, t.value) == "A":
                        tgt, how = t.value, "item assignment"
                    if isinstance(t, ast.Attribute) and expr_level(f, t.value) == "A":
                        tgt, how = t.value, "attribute assignment"
                    if isinstance(n, ast.AugAssign) and isinstance(t, ast.Name) and level.get((f, t.id)) == "A":
                        tgt, how = t, "in-place augmented assignment"
            elif isinstance(n, ast.Delete):
                for t in n.targets:
                    if isinstance(t, ast.Subscript) and expr_level(f, t.value) == "A":
                        tgt, how = t.value, "item deletion"
            elif isinstance(n, ast.Call) and isinstance(n.func, ast.Attribute) and n.func.attr in muts \
                    and expr_level(f, n.func.value) == "A":
                tgt, how = n.func.value, f".{n.func.attr}()"
            if tgt is not None:
                findings.append((f, n, f"{how} on `{ast.unparse(tgt)}`"))
    return findings


def run(rep: Report) -> None:
    prog = Program()
    resolver = Resolver(prog)
    rep.rule("R08.1", "memo vs mutable state: a memoised function that (transitively) reads a tracked mutable table is "
             "invalidated (cache_clear) by every function that writes that table, after the write", floor=6)
    rep.rule("R08.2", "only equate and translate write the conversion tables", floor=2)
    rep.rule("R08.3", "per-query state: no mutable default arguments and no module-level scratch containers in conversions", floor=2)
    rep.rule("R08.4", "determinism: no iteration over sets of identity-hashed objects and no id()-dependent ordering on the "
             "conversion path (id-sorted intern keys excepted)", floor=1)
    rep.rule("R08.9", "nothing branches on which units have an entry in the defaultdict conversion tables (lookups create entries)", floor=1)
    rep.rule("R08.8", "no function inside a memoised computation turns an environment-dependent exception (RecursionError, MemoryError, a catch-all) into a return value", floor=1)
    rep.rule("R08.7", "no function changes interpreter-global numeric state (decimal context)", floor=1)
    rep.rule("R05.7", "Quantity.in_unit is conversions.convert(self, unit), unchanged, on every path (shared with C05): nothing is set up or torn down around a query", floor=1)
    rep.rule("R08.6", "no memoised function is keyed by numbers of several types (the result of a query must not depend on the type "
             "of an earlier query's magnitude)", floor=5)
    rep.rule("R08.5", "objects that are (part of) a memoised result are never mutated in place", floor=1)
    memos = memo_functions(prog)
    # tracked locations: module-level mutable containers of conversions
    tracked = {f"conversions.{n}" for n in module_mutable_globals(prog, "conversions")}
    if not {"conversions._ratios", "conversions._offsets"} <= tracked:
        raise AnalysisError(f"the conversion tables are no longer module-level containers of conversions.py (found {sorted(tracked)})")
    # writers
    writers: Dict[str, List[Write]] = {}
    all_writers: Dict[str, List[Write]] = {}
    for q, fi in prog.functions.items():
        if fi.module in SKIP:
            continue
        for w in writes_in(prog, resolver, q):
            if w.location in tracked:
                writers.setdefault(q, []).append(w)
            if w.location in tracked or w.location.split(".")[-1] in NAMING:
                all_writers.setdefault(q, []).append(w)
    # R08.2
    allowed = {"conversions.equate", "conversions.translate"}
    for q, ws in sorted(writers.items()):
        fi = prog.functions[q]
        rep.check("R08.2", q, q in allowed, f"{q} writes {sorted({w.location for w in ws})}: only equate/translate may change "
                  "the declared equivalences (a conversion query must not)", fi.where(ws[0].node))
    if not allowed <= set(writers):
        raise AnalysisError("equate/translate no longer write the conversion tables (anchor moved)")
    # R08.1
    for m in memos:
        fi = prog.functions[m]
        rch = transitive(prog, resolver, m)
        read_locs: Set[str] = set()
        exempt: Set[str] = set()
        for f in rch.reached:
            if prog.functions[f].module in SKIP:
                continue
            for loc, node in reads_in(prog, resolver, f):
                if not rch.feasible_node(f, node):
                    continue
                if loc in tracked or loc.split(".")[-1] in NAMING:
                    read_locs.add(loc)
                elif loc.split(".")[-1] in EXEMPT_KINDS:
                    exempt.add(loc.split(".")[-1])
        if not read_locs:
            rep.ok("R08.1", m, note={"reads_tracked": [], "exempt_reads": sorted(exempt)})
            continue
        bad = []
        for w, ws in all_writers.items():
            ws = [x for x in ws if x.location in read_locs]
            if not ws:
                continue
            inv = [n for mm, n in invalidations(prog, resolver, w) if mm == m]
            wfi = prog.functions[w]
            cfg = CFG(wfi.node)
            ok = False
            if inv:
                # every write is followed (on every path to a normal exit) by an invalidation:
                # sufficient here: an invalidation post-dominates... approximated by: an invalidation is
                # reachable after each write and no return lies between
                ok = True
                for x in ws:
                    wn = cfg.node_of(x.node)
                    if wn is None:
                        ok = False
                        continue
                    after = cfg.reachable_after(wn)
                    invn = {cfg.node_of(n) for n in inv}
                    if not (invn & after):
                        ok = False
                    # a path from the write to the return exit avoiding every invalidation?
                    avoid = {i for i in invn if i is not None}
                    if cfg.exit_return in cfg.reachable(wn, avoid=avoid):
                        ok = False
            if not ok:
                bad.append(w)
        rep.check("R08.1", m, not bad,
                  f"{m} is memoised over {sorted(read_locs)} but {bad} write(s) them without clearing its cache afterwards: a "
                  "conversion that failed (or succeeded) before a declaration keeps its cached outcome", fi.where(),
                  note={"reads_tracked": sorted(read_locs)})
    # R08.8: what a memo stores must be a function of its arguments and the tables.  An exception leaves nothing in the
    # cache; a value returned from a handler is stored.  A handler for an exception that depends on the caller's
    # environment (stack depth, memory, signals) - or a catch-all - therefore freezes one caller's bad luck for everyone
    ENV_EXC = {"RecursionError", "RuntimeError", "MemoryError", "KeyboardInterrupt", "SystemExit", "OSError", "TimeoutError",
               "Exception", "BaseException"}
    n8 = 0
    for m in memos:
        rch = transitive(prog, resolver, m)
        for f in sorted(rch.reached):
            ffi = prog.functions[f]
            if ffi.module in SKIP:
                continue
            for t in Resolver._own_nodes(ffi.node):
                if not isinstance(t, ast.Try) or not rch.feasible_node(f, t):
                    continue
                for h in t.handlers:
                    names = ["<bare>"] if h.type is None else [ast.unparse(x).split(".")[-1] for x in (h.type.elts if isinstance(h.type, ast.Tuple) else [h.type])]
                    hit = [x for x in names if x in ENV_EXC or x == "<bare>"]
                    reraises = any(isinstance(x, ast.Raise) for st in h.body for x in ast.walk(st))
                    if hit and not reraises:
                        n8 += 1
                        rep.fail("R08.8", f"{m}<-{f}:except {hit[0]}", f"{f} (inside the memoised {m}) turns {hit[0]} into an ordinary result: lru_cache stores it, "
                                 "so one query that ran out of stack (or memory, or was interrupted) decides the outcome of every later identical "
                                 "query until the next declaration", ffi.where(h))
    if n8 == 0:
        rep.ok("R08.8", "memoised functions", note=f"{len(memos)} memos, no environment-dependent exception is turned into a value")
    # R08.9: the tables are defaultdicts, and the query path reads them by subscript (`_ratios[start].items()`): every unit a
    # query merely *asks about* gets an (empty) entry.  Which keys the tables have is therefore query history, not declared
    # equivalences - nothing may branch on it (`x in _ratios`, `len(_ratios)`, iteration over the top-level keys)
    cmod = prog.module("conversions")
    ddicts = {n for n in ("_ratios", "_offsets") if any(isinstance(v := getattr(st, "value", None), ast.Call) and ast.unparse(v.func).split(".")[-1] == "defaultdict"
                                                         for st in cmod.globals_assigned.get(n, []))}
    n9 = 0
    for q9, f9 in sorted(prog.functions.items()):
        if f9.module in SKIP:
            continue
        for x in ast.walk(f9.node):
            hit9 = None
            if isinstance(x, ast.Compare) and any(isinstance(o, (ast.In, ast.NotIn)) for o in x.ops):
                for o, cmp_ in zip(x.ops, x.comparators):
                    if isinstance(o, (ast.In, ast.NotIn)) and ast.unparse(cmp_).split(".")[-1] in ddicts:
                        hit9 = x
            if isinstance(x, ast.Call) and isinstance(x.func, ast.Name) and x.func.id in ("len", "list", "sorted", "set", "iter") and x.args \
                    and ast.unparse(x.args[0]).split(".")[-1] in ddicts:
                hit9 = x
            if isinstance(x, (ast.For, ast.comprehension)) and ast.unparse(x.iter).split(".")[-1] in ddicts:
                hit9 = x.iter
            if hit9 is not None and ddicts:
                n9 += 1
                rep.fail("R08.9", f"{q9}:{ast.unparse(hit9)[:40]}", f"{q9} looks at which units have an entry in a conversion table (`{ast.unparse(hit9)[:50]}`): the tables "
                         "are defaultdicts that grow an empty entry for every unit a query asks about, so this test answers differently after an unrelated "
                         "failed query", f9.where(hit9))
    if n9 == 0:
        rep.ok("R08.9", "package", note=f"defaultdict tables {sorted(ddicts)}: nothing tests their top-level keys")
    # R08.3
    conv = prog.module("conversions")
    for q, fi in prog.functions.items():
        if fi.module in SKIP:
            continue
        a = fi.node.args  # type: ignore[attr-defined]
        pos = a.posonlyargs + a.args
        pairs = list(zip(pos[len(pos) - len(a.defaults):], a.defaults)) + [(x, d) for x, d in zip(a.kwonlyargs, a.kw_defaults) if d is not None]
        for x, d in pairs:
            mutable = isinstance(d, (ast.List, ast.Dict, ast.Set)) or (isinstance(d, ast.Call) and ast.unparse(d.func) in ("set", "list", "dict", "defaultdict"))
            if fi.module != "conversions":
                # elsewhere in the package (the CLI's table walk, ...) a mutable default is shared state only if the body writes it
                if not mutable:
                    continue
                written = any((isinstance(n, ast.Call) and isinstance(n.func, ast.Attribute) and isinstance(n.func.value, ast.Name) and n.func.value.id == x.arg
                               and n.func.attr in ("add", "append", "extend", "update", "setdefault", "insert", "pop", "remove", "discard", "clear"))
                              or (isinstance(n, ast.Subscript) and isinstance(n.ctx, (ast.Store, ast.Del)) and isinstance(n.value, ast.Name) and n.value.id == x.arg)
                              or (isinstance(n, ast.AugAssign) and isinstance(n.target, ast.Name) and n.target.id == x.arg)
                              for n in ast.walk(fi.node))
                if not written:
                    continue
            rep.check("R08.3", f"{q}:default {x.arg}={ast.unparse(d)[:30]}", not mutable,
                      f"{q} has the mutable default argument `{x.arg}={ast.unparse(d)}`" + (" and writes it" if fi.module != "conversions" else "") +
                      ": one object shared by every call, so what a query (a listing of equivalents) returns depends on the queries made before it",
                      fi.where(d))
    scratch = sorted(tracked - {"conversions._ratios", "conversions._offsets"})
    rep.check("R08.3", "conversions:module-containers", not scratch,
              f"module-level mutable containers besides the two tables: {scratch} - results may depend on earlier queries",
              conv.path)
    # any other module-level mutable container written from the conversion path
    entries = ["conversions.convert", "Quantity.in_unit", "Quantity.__add__", "Quantity.__sub__", "Quantity.__eq__", "Quantity.__lt__"]
    reach = Reach(resolver, entries)
    for f in sorted(reach.reached):
        for w in writes_in(prog, resolver, f):
            if not reach.feasible_node(f, w.node):
                continue
            kind = w.location.split(".")[-1]
            if w.location in tracked or kind in EXEMPT_KINDS or kind in NAMING or w.location.startswith("attr:"):
                if w.location in tracked:
                    rep.fail("R08.2", f"{f}:query-writes", f"{f} (on the query path) writes {w.location}", prog.functions[f].where(w.node))
                continue
            rep.fail("R08.3", f"{f}:{w.location}", f"{f} on the conversion path mutates shared state {w.location} ({w.how})",
                     prog.functions[f].where(w.node))
    # R08.4
    n4 = 0
    for f in sorted(reach.reached):
        fi = prog.functions[f]
        for n in Resolver._own_nodes(fi.node):
            it = None
            if isinstance(n, (ast.For, ast.comprehension)):
                it = n.iter
            if it is not None:
                alts = resolver.expr_alts(fi, it)
                if any(k == "inst" and full in ("builtins.set", "builtins.frozenset") for k, full in alts):
                    n4 += 1
                    rep.fail("R08.4", f"{f}:for {ast.unparse(it)[:30]}", f"{f} iterates over a set ({ast.unparse(it)[:40]}): order "
                             "depends on object addresses, so the chosen path may differ between processes", fi.where(n))
            if isinstance(n, ast.Call) and isinstance(n.func, ast.Name) and n.func.id == "id" and f != "Unit._build_key" \
                    and not f.startswith("Unit._build_key.<locals>."):   # the sort key of the intern key, as a lambda or a local def (refAQ24)
                n4 += 1
                rep.fail("R08.4", f"{f}:id()", f"{f} uses id(): address-dependent behaviour on the conversion path", fi.where(n))
    if n4 == 0:
        rep.ok("R08.4", "conversion-path", note=f"{len(reach.reached)} functions, no set iteration / id()")
    from ..quantity_rules import check_numeric_memo
    check_numeric_memo(rep, prog, resolver, "R08.6")
    # R08.7: interpreter-global numeric state
    n7 = 0
    for q7, f7 in sorted(prog.functions.items()):
        if f7.module in ("hypothesis", "pytest"):
            continue
        for st in ast.walk(f7.node):
            tg = st.targets if isinstance(st, ast.Assign) else ([st.target] if isinstance(st, (ast.AugAssign, ast.AnnAssign)) else [])
            hit = None
            for t in tg:
                if isinstance(t, ast.Attribute) and any(isinstance(x, ast.Call) and ast.unparse(x.func).split(".")[-1] == "getcontext" for x in ast.walk(t.value)):
                    hit = st
            if isinstance(st, ast.Call) and ast.unparse(st.func).split(".")[-1] in ("setcontext", "setswitchinterval", "setrecursionlimit", "seed"):
                hit = st
            if hit is not None:
                n7 += 1
                rep.fail("R08.7", f"{q7}:{ast.unparse(hit)[:40]}", f"`{ast.unparse(hit)[:60]}` in {q7} changes interpreter-global numeric state (the thread's decimal context): "
                         "unless it is restored on every exit - including the ConversionNotFound that == and < swallow - later conversions compute with "
                         "another precision, i.e. results depend on earlier queries", f7.where(hit))
    if n7 == 0:
        rep.ok("R08.7", "package", note="no function assigns into decimal.getcontext() or calls setcontext")
    from .c05 import check_in_unit
    check_in_unit(rep, prog, "R05.7")
    # R08.5
    t = taint_analysis(prog, resolver, memos)
    for f, node, how in t:
        fi = prog.functions[f]
        rep.fail("R08.5", f"{f}:{ast.unparse(node)[:50]}", f"{f}: {how} mutates an object that is (part of) a memoised result; "
                 "later queries see the changed value", fi.where(node))
    if not t:
        rep.ok("R08.5", "package", note=f"{len(memos)} memoised functions, no in-place mutation of their results")
    rep.analysed.update({"memoised_functions": memos, "tracked_tables": sorted(tracked), "writers": sorted(writers),
                         "exempt_kinds": EXEMPT_KINDS})
    rep.not_decided.append("that a fresh process given the same declarations computes the same floating-point result (C04/C05)")
    rep.trust("mypy 2.3.1 expression types for call resolution; functools.lru_cache semantics")
