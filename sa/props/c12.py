"""C12 - comparisons are coherent: symmetric ==, physical total order, hash agrees."""
from __future__ import annotations

import ast
import itertools
from typing import Any, Callable, Dict, List, Optional, Set, Tuple

from ..absint import AV, BoolV, LevelV, MeasV, NotImpl, QuantV, Unsupported
from ..algebra import describe
from ..calls import Resolver
from ..core import AnalysisError, Report
from ..e4util import logunit_atom, meas_atom, quant_atom, run_function
from ..model import Program
from ..absint import NumV
from ..poly import Rat
from ..quantity_rules import LAYERS, check_comparisons

TITLE = "Comparisons are coherent: symmetric ==, physical total order, hash agrees"
OPS = {"__lt__": ast.Lt, "__le__": ast.LtE, "__gt__": ast.Gt, "__ge__": ast.GtE, "__eq__": ast.Eq}


# ------------------------------------------------------------------ E7
def interval_predicate(fn: ast.AST, methods: Optional[Dict[str, ast.AST]] = None) -> Tuple[Callable[[Dict[str, int]], bool], List[str], str]:
    """Extract the boolean function of the four interval bounds that Measurement.__eq__
    returns on its main path.  Bounds are locals assigned `<x>.measurand -/+ <x>.uncertainty`."""
    params = [a.arg for a in fn.args.args]  # type: ignore[attr-defined]
    me, other = params[0], params[1]
    bounds: Dict[str, str] = {}
    defs: Dict[str, ast.AST] = {}

    def bound_of(v: ast.AST, depth: int = 0) -> Optional[str]:
        """`<x>.measurand -/+ <x>.uncertainty`, directly or through a method that returns it."""
        if isinstance(v, ast.BinOp) and isinstance(v.op, (ast.Add, ast.Sub)) \
                and isinstance(v.left, ast.Attribute) and v.left.attr == "measurand" \
                and isinstance(v.right, ast.Attribute) and v.right.attr == "uncertainty" \
                and ast.unparse(v.left.value) == ast.unparse(v.right.value):
            return f"{ast.unparse(v.left.value)}.{'upper' if isinstance(v.op, ast.Add) else 'lower'}"
        if isinstance(v, ast.Call) and isinstance(v.func, ast.Attribute) and not v.args and not v.keywords and depth < 2 and methods:
            m = methods.get(v.func.attr)
            if m is not None:
                rets = [r for r in ast.walk(m) if isinstance(r, ast.Return) and r.value is not None]
                if len(rets) == 1:
                    inner = bound_of(rets[0].value, depth + 1)
                    if inner is not None and m.args.args and inner.split(".")[0] == m.args.args[0].arg:
                        return f"{ast.unparse(v.func.value)}.{inner.split('.')[1]}"
        return None
    for st in ast.walk(fn):
        if isinstance(st, ast.Assign) and len(st.targets) == 1 and isinstance(st.targets[0], ast.Name):
            name = st.targets[0].id
            b = bound_of(st.value)
            if b is not None and b.split(".")[0] in (me, other):
                who = "self" if b.split(".")[0] == me else "other"
                bounds[name] = f"{who}.{b.split('.')[1]}"
            else:
                defs[name] = st.value
    if len(set(bounds.values())) < 4:
        raise AnalysisError(f"Measurement.__eq__: expected the four bounds measurand -/+ uncertainty of both operands, found {sorted(bounds.values())}")
    rets = [r for r in ast.walk(fn) if isinstance(r, ast.Return) and r.value is not None
            and not (isinstance(r.value, ast.Constant)) and ast.unparse(r.value) != "NotImplemented"]
    if len(rets) != 1:
        raise AnalysisError(f"Measurement.__eq__: expected one non-constant return, found {len(rets)}")
    expr = rets[0].value

    def ev(e: ast.AST, env: Dict[str, int]) -> Any:
        if isinstance(e, ast.Name):
            if e.id in bounds:
                return env[bounds[e.id]]
            if e.id in defs:
                return ev(defs[e.id], env)
            raise AnalysisError(f"Measurement.__eq__: `{e.id}` is not an interval bound or a local predicate")
        if isinstance(e, ast.BoolOp):
            vals = [ev(v, env) for v in e.values]
            return all(vals) if isinstance(e.op, ast.And) else any(vals)
        if isinstance(e, ast.UnaryOp) and isinstance(e.op, ast.Not):
            return not ev(e.operand, env)
        if isinstance(e, ast.Compare):
            vals = [ev(e.left, env)] + [ev(c, env) for c in e.comparators]
            ok = True
            for op, a, b in zip(e.ops, vals, vals[1:]):
                r = {ast.Lt: a < b, ast.LtE: a <= b, ast.Gt: a > b, ast.GtE: a >= b, ast.Eq: a == b, ast.NotEq: a != b}.get(type(op))
                if r is None:
                    raise AnalysisError(f"Measurement.__eq__: operator {type(op).__name__} in the overlap predicate")
                ok = ok and r
            return ok
        if isinstance(e, ast.Constant) and isinstance(e.value, bool):
            return e.value
        raise AnalysisError(f"Measurement.__eq__: unsupported expression {ast.unparse(e)[:40]} in the overlap predicate")
    return (lambda env: bool(ev(expr, env))), sorted(set(bounds.values())), ast.unparse(expr)


def weak_orders(atoms: List[str]) -> List[Dict[str, int]]:
    seen = set()
    out = []
    n = len(atoms)
    for ranks in itertools.product(range(n), repeat=n):
        # canonical: ranks used form 0..k
        used = sorted(set(ranks))
        canon = tuple(used.index(r) for r in ranks)
        if canon in seen:
            continue
        seen.add(canon)
        out.append(dict(zip(atoms, canon)))
    return out


# ------------------------------------------------------------- dispatch matrix
def normal_value(run, x: AV) -> Optional[str]:
    from ..specs import level_quantify
    if isinstance(x, QuantV):
        return repr(x.value())
    if isinstance(x, LevelV):
        q = level_quantify(run.interp, None, [x], {})  # type: ignore[arg-type]
        return repr(q.value()) if isinstance(q, QuantV) else None
    if isinstance(x, MeasV):
        return "M[" + repr(x.measurand.value()) + "]"
    return None


def decide(prog: Program, resolver: Resolver, cls: str, me: AV, other: AV) -> Tuple[str, Tuple[str, ...]]:
    """What <cls>.__eq__(me, other) does: ('NotImplemented'|'False'|'QEQ'|'OVERLAP'|'Q~M', normalised operands)."""
    qual = f"{cls}.__eq__"
    ps = prog.func(qual).params()
    try:
        run = run_function(prog, resolver, qual, LAYERS, {ps[0]: me, ps[1]: other}, inline_depth=2)
    except Unsupported as e:
        raise AnalysisError(f"{qual}: {e}")
    rets = [o for o in run.outcomes if o.kind == "return"]
    if rets and all(isinstance(o.value, NotImpl) for o in rets):
        return "NotImplemented", ()
    cmps = [e for e in run.events if e.kind == "cmp"]
    if cls == "Quantity":
        a, b = normal_value(run, me), normal_value(run, other)
        return "QEQ", tuple(sorted([a or "?", b or "?"]))
    if cls == "Level":
        for e in cmps:
            l, r = e.data["left"], e.data["right"]
            if isinstance(l, QuantV) and isinstance(r, QuantV):
                return "QEQ", tuple(sorted([repr(l.value()), repr(r.value())]))
            if isinstance(l, (QuantV, MeasV)) and isinstance(r, (QuantV, MeasV)):
                return "Q~M", tuple(sorted([normal_value(run, l) or "?", normal_value(run, r) or "?"]))
        raise AnalysisError(f"{qual}: no comparison of quantities found on the {type(other).__name__} arm")
    if cls == "Measurement":
        ctor = [e for e in run.events if e.kind == "ctor" and e.data.get("cls") == "Measurement" and e.data.get("func") == qual]
        o = other
        if ctor and isinstance(ctor[-1].data.get("q"), QuantV):
            o = MeasV(ctor[-1].data["q"], ctor[-1].data["q"])
        if not isinstance(o, MeasV):
            return "False", ()
        return "OVERLAP", tuple(sorted([normal_value(run, me) or "?", normal_value(run, o) or "?"]))
    raise AnalysisError(f"no model for {qual}")


def python_eq(prog: Program, resolver: Resolver, x_cls: str, x: AV, y_cls: str, y: AV) -> Tuple[str, Tuple[str, ...], str]:
    k, ops = decide(prog, resolver, x_cls, x, y)
    via = f"{x_cls}.__eq__"
    if k == "NotImplemented":
        k, ops = decide(prog, resolver, y_cls, y, x)
        via = f"{y_cls}.__eq__ (reflected)"
        if k == "NotImplemented":
            k, ops = "identity", ()
    return k, ops, via


FAMILY = ("Quantity", "Level", "Measurement")


def _ancestors(prog: Program, name: str, seen: Optional[Set[str]] = None) -> Set[str]:
    seen = seen if seen is not None else set()
    ci = prog.classes.get(name)
    if ci is None:
        return seen
    for b in ci.bases:
        b = b.split(".")[-1].split("[")[0]
        if b not in seen:
            seen.add(b)
            _ancestors(prog, b, seen)
    return seen


def override_discipline(rep: Report, prog: Program) -> None:
    """R12.7: the symmetry arguments R12.1/R12.2 are about Quantity, Level and Measurement.  A
    subclass that overrides a comparison re-opens them: when its other operand may be of its own
    kind, whatever it does to `other` before delegating it must do to `self` as well, otherwise
    a == b and b == a (both dispatched to the override) compare different things."""
    subs = 0
    for cname, ci in sorted(prog.classes.items()):
        anc = _ancestors(prog, cname)
        fam = [f for f in FAMILY if f in anc]
        if cname in FAMILY or not fam:
            continue
        for d in list(OPS) + ["__ne__"]:
            if d not in ci.methods:
                continue
            subs += 1
            fi = prog.functions[ci.methods[d]]
            params = fi.params()
            me, other = params[0], params[1]
            own_kinds = {cname} | anc

            def derived(root: str) -> Set[str]:
                names = {root}
                changed = True
                while changed:
                    changed = False
                    for st in ast.walk(fi.node):
                        if isinstance(st, ast.Assign) and len(st.targets) == 1 and isinstance(st.targets[0], ast.Name):
                            used = {x.id for x in ast.walk(st.value) if isinstance(x, ast.Name)}
                            if used & names and st.targets[0].id not in names and not (used & {me, other} - names):
                                names.add(st.targets[0].id)
                                changed = True
                return names
            mine, theirs = derived(me), derived(other)
            # projections of `other` in arms where it may be of the receiver's own kind
            problems = []
            for st in ast.walk(fi.node):
                if not (isinstance(st, ast.If) and isinstance(st.test, ast.Call) and ast.unparse(st.test.func) == "isinstance" and len(st.test.args) == 2):
                    continue
                if ast.unparse(st.test.args[0]) not in theirs:
                    continue
                kinds = {ast.unparse(k).split(".")[-1] for k in (st.test.args[1].elts if isinstance(st.test.args[1], ast.Tuple) else [st.test.args[1]])}
                if not (kinds & own_kinds):
                    continue
                for b in st.body:
                    for x in ast.walk(b):
                        if isinstance(x, ast.Assign) and len(x.targets) == 1 and isinstance(x.targets[0], ast.Name) and x.targets[0].id in theirs:
                            proj = sorted({a.attr for a in ast.walk(x.value) if isinstance(a, ast.Attribute) and isinstance(a.value, ast.Name) and a.value.id in theirs})
                            self_attrs = {a.attr for a in ast.walk(fi.node) if isinstance(a, ast.Attribute) and isinstance(a.value, ast.Name) and a.value.id in mine}
                            missing = [a for a in proj if a not in self_attrs]
                            if missing:
                                problems.append((x, missing))
            rep.check("R12.7", f"{cname}.{d}", not problems,
                      f"{cname}.{d} overrides {fam[0]}.{d} and, for an operand that may itself be a {cname}, replaces it by "
                      f"`{ast.unparse(problems[0][0].value) if problems else ''}` while the receiver is compared whole: for two "
                      f"{cname} values a == b and b == a are both decided by this method and compare different things",
                      fi.where(problems[0][0] if problems else None))
    if subs == 0:
        rep.ok("R12.7", "family", note="no subclass of Quantity, Level or Measurement overrides a comparison")


def run(rep: Report) -> None:
    prog = Program()
    resolver = Resolver(prog)
    rep.rule("R12.7", "a subclass overriding a comparison treats both operands alike when the other may be of its own kind", floor=1)
    rep.rule("R12.1", "the overlap predicate of Measurement.__eq__, as a function of the four interval bounds, is invariant "
             "under swapping the operands on every weak ordering with lower <= upper (exhaustive)", floor=20)
    rep.rule("R12.2", "dispatch matrix: for each ordered pair over {Quantity, Level, Measurement}, a == b and b == a reduce "
             "(through isinstance arms and Python's reflected fallback on NotImplemented) to the same comparison of the same "
             "normalised operands", floor=9)
    rep.rule("R12.3", "hash respects equality: __hash__ does not hash a raw field that __eq__ normalises before comparing", floor=1)
    rep.rule("R12.4", "Quantity is totally ordered by __eq__ and __lt__ (functools.total_ordering or four explicit methods); both "
             "return NotImplemented on the dimension gate and on ConversionNotFound", floor=4)
    rep.rule("R12.6", "every ordering method compares with the operator it denotes (no < inside __ge__)", floor=5)
    rep.rule("R06.2", "== and < compare the operands' physical values in one unit (shared with C06)", floor=4)

    # R12.1
    meq = prog.func("Measurement.__eq__")
    mcls = prog.cls("Measurement")
    pred, atoms, text = interval_predicate(meq.node, {n: prog.functions[q].node for n, q in mcls.methods.items()})
    orders = [o for o in weak_orders(atoms) if o["self.lower"] <= o["self.upper"] and o["other.lower"] <= o["other.upper"]]
    bad = []
    for o in orders:
        sw = {"self.lower": o["other.lower"], "self.upper": o["other.upper"], "other.lower": o["self.lower"], "other.upper": o["self.upper"]}
        if pred(o) != pred(sw):
            bad.append(o)
        # the predicate must also be *overlap*: true iff the closed intervals intersect
    for i, o in enumerate(orders):
        key = "order:" + ",".join(f"{k.split('.')[0][0]}{k.split('.')[1][0]}={v}" for k, v in sorted(o.items()))
        sw = {"self.lower": o["other.lower"], "self.upper": o["other.upper"], "other.lower": o["self.lower"], "other.upper": o["self.upper"]}
        rep.check("R12.1", key, pred(o) == pred(sw),
                  f"`{text}` gives {pred(o)} for bounds {o} but {pred(sw)} with the operands swapped: x == y and y == x disagree "
                  "(containment seen from one side only)", meq.where())
    rep.analysed["overlap_predicate"] = text
    rep.analysed["weak_orders"] = len(orders)

    # R12.2
    lu = logunit_atom()
    samples = {
        "Quantity": lambda tag: quant_atom(tag),
        "Level": lambda tag: LevelV(NumV(Rat.atom(f"L:{tag}")), lu),
        "Measurement": lambda tag: meas_atom(tag),
    }
    classes = ["Quantity", "Level", "Measurement"]
    for x in classes:
        for y in classes:
            a, b = samples[x]("a"), samples[y]("b")
            k1, o1, v1 = python_eq(prog, resolver, x, a, y, b)
            k2, o2, v2 = python_eq(prog, resolver, y, b, x, a)
            rep.check("R12.2", f"{x}=={y}", (k1, o1) == (k2, o2),
                      f"a == b is decided by {v1} as {k1}{list(o1)} but b == a by {v2} as {k2}{list(o2)}: the two directions apply "
                      "different rules to the same operands", prog.func(f"{x}.__eq__").where(),
                      note={"forward": v1, "backward": v2, "kind": k1})

    # R12.3
    qh = prog.func("Quantity.__hash__")
    qe = prog.func("Quantity.__eq__")
    hashed = sorted({n.attr for n in ast.walk(qh.node) if isinstance(n, ast.Attribute) and isinstance(n.value, ast.Name) and n.value.id == "self"})
    raw_compared = sorted({n.attr for n in ast.walk(qe.node) if isinstance(n, ast.Attribute) and isinstance(n.value, ast.Name) and n.value.id == "self"
                           and isinstance(getattr(n, "_parent", None), ast.Compare)})
    normalisers = sorted({n.func.attr for n in ast.walk(qe.node) if isinstance(n, ast.Call) and isinstance(n.func, ast.Attribute)
                          and n.func.attr in ("unprefixed", "in_unit", "quantify")})
    hash_norm = sorted({n.func.attr for n in ast.walk(qh.node) if isinstance(n, ast.Call) and isinstance(n.func, ast.Attribute)
                        and n.func.attr in ("unprefixed", "in_unit", "quantify")})
    contradiction = bool(normalisers) and "magnitude" in hashed and "magnitude" not in raw_compared and not hash_norm
    rep.check("R12.3", "Quantity.__hash__", not contradiction,
              f"__eq__ normalises its operands ({', '.join(normalisers)}) before comparing magnitudes, but __hash__ hashes the raw "
              f"fields {hashed}: 1 * (Kilo * Meter) == 1000 * Meter yet their hashes differ", qh.where())

    # R12.4
    qc = prog.cls("Quantity")
    explicit = all(d in qc.methods for d in ("__lt__", "__le__", "__gt__", "__ge__"))
    rep.check("R12.4", "Quantity:ordering", ("total_ordering" in qc.decorators and "__lt__" in qc.methods and "__eq__" in qc.methods) or explicit,
              "Quantity defines neither functools.total_ordering over __eq__/__lt__ nor all four ordering methods", f"{qc.path}:{qc.node.lineno}")
    for d in ("__eq__", "__lt__"):
        fi = prog.func(f"Quantity.{d}")
        # shared with C03 R03.3: the gate may be inline or in a helper whose None result becomes NotImplemented
        from ..core import Report as _R
        probe = _R("C12", rep.tier)
        probe.rule("g", "gate")
        from ..quantity_rules import check_gates
        check_gates(probe, prog, "g")
        bad_gate = [f_ for f_ in probe.findings if f_.construct == f"Quantity.{d}:gate"]
        rep.check("R12.4", f"Quantity.{d}:gate", not bad_gate, f"Quantity.{d} does not return NotImplemented for different dimensions before "
                  "comparing (== must be False and ordering a TypeError, decided by Python from NotImplemented)", fi.where())
        hs = [h for h in ast.walk(fi.node) if isinstance(h, ast.ExceptHandler)]
        ok2 = bool(hs) and all(h.body and isinstance(h.body[-1], ast.Return) and ast.unparse(h.body[-1].value or ast.Constant(0)) == "NotImplemented" for h in hs)
        rep.check("R12.4", f"Quantity.{d}:unconvertible", ok2, f"Quantity.{d} does not return NotImplemented when no conversion exists", fi.where())

    # R12.6 operator consistency
    for cls in ("Quantity", "Measurement"):
        ci = prog.cls(cls)
        for d, op in OPS.items():
            if d == "__eq__" or d not in ci.methods:
                continue
            fi = prog.functions[ci.methods[d]]
            cmps = [n for n in ast.walk(fi.node) if isinstance(n, ast.Compare)
                    and any(isinstance(o, (ast.Lt, ast.LtE, ast.Gt, ast.GtE)) for o in n.ops)]
            if not cmps:
                raise AnalysisError(f"{cls}.{d}: no ordering comparison found")
            wrong = [n for n in cmps if any(isinstance(o, (ast.Lt, ast.LtE, ast.Gt, ast.GtE)) and not isinstance(o, op) for o in n.ops)]
            rep.check("R12.6", f"{cls}.{d}", not wrong,
                      f"{cls}.{d} contains `{ast.unparse(wrong[0]) if wrong else ''}`: an ordering method must compare with its own "
                      "operator on every path (a converted branch with another operator contradicts the same-unit branch)",
                      fi.where(wrong[0] if wrong else None))
    override_discipline(rep, prog)
    check_comparisons(rep, prog, resolver, "R06.2")
    rep.assume("Quantity equality/ordering compare physical values (R06.2); Python's reflected-operand protocol for NotImplemented")
    rep.not_decided += ["trichotomy and sorted() on physical values numerically (floating-point ties)",
                        "transitivity of the interval-overlap equality (it is not transitive by design)"]
    rep.trust("mypy 2.3.1 expression types; E4 interpreter for the dispatch arms")
