"""C12 - comparisons are coherent: symmetric ==, physical total order, hash agrees."""
from __future__ import annotations

import ast
import itertools
from typing import Any, Callable, Dict, List, Optional, Set, Tuple

from ..absint import AV, BoolV, LevelV, MeasV, NotImpl, QuantV, Unsupported
from ..algebra import describe
from ..calls import Resolver
from ..core import AnalysisError, Report
from ..e4util import logunit_atom, meas_atom, quant_atom, run_function
from ..model import Program
from ..absint import NumV
from ..poly import Rat
from ..quantity_rules import LAYERS, check_comparisons

TITLE = "Comparisons are coherent: symmetric ==, physical total order, hash agrees"
OPS = {"__lt__": ast.Lt, "__le__": ast.LtE, "__gt__": ast.Gt, "__ge__": ast.GtE, "__eq__": ast.Eq}


# ------------------------------------------------------------------ E7
class _Ret(Exception):
    def __init__(self, value: Any) -> None:
        self.value = value


def interval_predicate(fn: ast.AST, methods: Optional[Dict[str, ast.AST]] = None) -> Tuple[Callable[[Dict[str, int]], bool], List[str], str]:
    """The boolean function of the four interval bounds that Measurement.__eq__ returns when both
    operands are measurements of one dimension.  Obtained by a small partial evaluation of the
    method's AST over the domain {operand, operand.field, bound, tuple, predicate}: helper methods of
    the class are inlined (the coercion helper returns its Measurement argument unchanged, bound
    helpers return `measurand -/+ uncertainty`), guards that reject other kinds of operands are
    not taken."""
    methods = methods or {}
    params = [a.arg for a in fn.args.args]  # type: ignore[attr-defined]
    me, other = params[0], params[1]
    used: Set[str] = set()

    def ev(e: ast.AST, env: Dict[str, Any], depth: int) -> Any:
        if isinstance(e, ast.Name):
            return env.get(e.id, ("unknown", e.id))
        if isinstance(e, ast.Constant):
            return ("const", e.value)
        if isinstance(e, ast.Attribute):
            b = ev(e.value, env, depth)
            if isinstance(b, tuple) and b and b[0] == "meas" and e.attr in ("measurand", "uncertainty"):
                return ("field", b[1], e.attr)
            return ("unknown", ast.unparse(e))
        if isinstance(e, ast.BinOp) and isinstance(e.op, (ast.Add, ast.Sub)):
            l, r = ev(e.left, env, depth), ev(e.right, env, depth)
            if l[0] == "field" and r[0] == "field" and l[1] == r[1] and l[2] == "measurand" and r[2] == "uncertainty":
                b = f"{l[1]}.{'upper' if isinstance(e.op, ast.Add) else 'lower'}"
                used.add(b)
                return ("bound", b)
            return ("unknown", ast.unparse(e))
        if isinstance(e, ast.Tuple):
            return ("tuple", [ev(x, env, depth) for x in e.elts])
        if isinstance(e, ast.Compare):
            vals = [ev(e.left, env, depth)] + [ev(c, env, depth) for c in e.comparators]
            if len(e.ops) == 1 and isinstance(e.ops[0], (ast.Is, ast.IsNot)) and vals[1] == ("const", None):
                if vals[0][0] == "meas":
                    return ("const", isinstance(e.ops[0], ast.IsNot))
                return ("unknown", ast.unparse(e))
            if all(v[0] == "bound" for v in vals):
                return ("cmp", [type(o) for o in e.ops], [v[1] for v in vals])
            return ("unknown", ast.unparse(e))
        if isinstance(e, ast.BoolOp):
            vs = [ev(v, env, depth) for v in e.values]
            is_and = isinstance(e.op, ast.And)
            # short-circuit on decided operands first: `isinstance(..) and <anything>`
            for v in vs:
                if v[0] == "const" and bool(v[1]) != is_and:
                    return ("const", not is_and)
                if v[0] != "const":
                    break
            vs = [v for v in vs if v[0] != "const"]
            if not vs:
                return ("const", is_and)
            if any(v[0] == "unknown" for v in vs):
                return ("unknown", ast.unparse(e))
            return vs[0] if len(vs) == 1 else ("and" if is_and else "or", vs)
        if isinstance(e, ast.UnaryOp) and isinstance(e.op, ast.Not):
            v = ev(e.operand, env, depth)
            if v[0] == "const":
                return ("const", not v[1])
            return ("unknown", ast.unparse(e)) if v[0] == "unknown" else ("not", v)
        if isinstance(e, ast.Call):
            f = e.func
            if isinstance(f, ast.Name) and f.id == "isinstance" and len(e.args) == 2:
                v = ev(e.args[0], env, depth)
                kinds = {ast.unparse(k).split(".")[-1] for k in (e.args[1].elts if isinstance(e.args[1], ast.Tuple) else [e.args[1]])}
                if v[0] == "meas":
                    return ("const", "Measurement" in kinds)
                return ("unknown", ast.unparse(e))
            if isinstance(f, ast.Name) and "<fn>" + f.id in methods and depth < 3:
                m = methods["<fn>" + f.id]
                margs = [a.arg for a in m.args.args]  # type: ignore[attr-defined]
                actual = [ev(a, env, depth) for a in e.args]
                if len(actual) == len(margs):
                    inner = dict(zip(margs, actual))
                    try:
                        run_block(m.body, inner, depth + 1)  # type: ignore[attr-defined]
                    except _Ret as r:
                        return r.value
                return ("unknown", ast.unparse(e))
            if isinstance(f, ast.Attribute) and f.attr in methods and depth < 3:
                recv = ev(f.value, env, depth)
                m = methods[f.attr]
                margs = [a.arg for a in m.args.args]  # type: ignore[attr-defined]
                static = any(ast.unparse(d) == "staticmethod" for d in getattr(m, "decorator_list", []))
                actual = [ev(a, env, depth) for a in e.args]
                if not static:
                    actual = [recv] + actual
                if len(actual) <= len(margs):
                    inner = dict(zip(margs, actual))
                    try:
                        run_block(m.body, inner, depth + 1)  # type: ignore[attr-defined]
                    except _Ret as r:
                        return r.value
                return ("unknown", ast.unparse(e))
            return ("unknown", ast.unparse(e))
        return ("unknown", ast.unparse(e))

    def assign(t: ast.AST, v: Any, env: Dict[str, Any]) -> None:
        if isinstance(t, ast.Name):
            env[t.id] = v
        elif isinstance(t, (ast.Tuple, ast.List)) and isinstance(v, tuple) and v[0] == "tuple" and len(v[1]) == len(t.elts):
            for a, b in zip(t.elts, v[1]):
                assign(a, b, env)

    def run_block(body: List[ast.stmt], env: Dict[str, Any], depth: int) -> None:
        for st in body:
            if isinstance(st, ast.Assign):
                v = ev(st.value, env, depth)
                for t in st.targets:
                    assign(t, v, env)
            elif isinstance(st, ast.AnnAssign) and st.value is not None:
                assign(st.target, ev(st.value, env, depth), env)
            elif isinstance(st, ast.Return):
                raise _Ret(ev(st.value, env, depth) if st.value is not None else ("const", None))
            elif isinstance(st, ast.If):
                t = ev(st.test, env, depth)
                if t[0] == "const":
                    run_block(st.body if t[1] else st.orelse, env, depth)
                elif t[0] == "unknown":
                    # a guard about something else (dimension, kind of operand): not taken when it only rejects
                    if st.body and isinstance(st.body[-1], (ast.Return, ast.Raise)) and not st.orelse:
                        continue
                    run_block(st.body, env, depth)
                else:
                    raise AnalysisError(f"Measurement.__eq__: branch on the interval bounds (`{ast.unparse(st.test)[:40]}`) is outside the extractor")
            elif isinstance(st, ast.Try):
                run_block(st.body, env, depth)
            elif isinstance(st, (ast.Expr, ast.Pass)):
                continue
            else:
                raise AnalysisError(f"Measurement.__eq__: statement `{ast.unparse(st)[:40]}` is outside the extractor")

    env0: Dict[str, Any] = {me: ("meas", "self"), other: ("meas", "other")}
    try:
        run_block(fn.body, env0, 0)  # type: ignore[attr-defined]
        raise AnalysisError("Measurement.__eq__: no return reached for two measurements")
    except _Ret as r:
        result = r.value
    if result[0] in ("unknown", "const", "meas", "field", "bound", "tuple"):
        raise AnalysisError(f"Measurement.__eq__: for two measurements it returns `{result[1] if len(result) > 1 else result}`, not a predicate "
                            "over the interval bounds measurand -/+ uncertainty")
    if len(used) < 4:
        raise AnalysisError(f"Measurement.__eq__: expected the four bounds measurand -/+ uncertainty of both operands, found {sorted(used)}")

    def holds(p: Any, o: Dict[str, int]) -> bool:
        if p[0] == "const":
            return bool(p[1])
        if p[0] == "not":
            return not holds(p[1], o)
        if p[0] == "and":
            return all(holds(x, o) for x in p[1])
        if p[0] == "or":
            return any(holds(x, o) for x in p[1])
        if p[0] == "cmp":
            vals = [o[b] for b in p[2]]
            okc = True
            for op, a, b in zip(p[1], vals, vals[1:]):
                r_ = {ast.Lt: a < b, ast.LtE: a <= b, ast.Gt: a > b, ast.GtE: a >= b, ast.Eq: a == b, ast.NotEq: a != b}.get(op)
                if r_ is None:
                    raise AnalysisError(f"Measurement.__eq__: operator {op.__name__} in the overlap predicate")
                okc = okc and r_
            return okc
        raise AnalysisError(f"Measurement.__eq__: unsupported predicate node {p[0]}")

    def text(p: Any) -> str:
        if p[0] == "const":
            return str(p[1])
        if p[0] == "not":
            return f"not ({text(p[1])})"
        if p[0] in ("and", "or"):
            return f" {p[0]} ".join(text(x) for x in p[1])
        sym = {ast.Lt: "<", ast.LtE: "<=", ast.Gt: ">", ast.GtE: ">=", ast.Eq: "==", ast.NotEq: "!="}
        out = p[2][0]
        for op, b in zip(p[1], p[2][1:]):
            out += f" {sym.get(op, '?')} {b}"
        return out
    return (lambda o: holds(result, o)), sorted(used), text(result)


def weak_orders(atoms: List[str]) -> List[Dict[str, int]]:
    seen = set()
    out = []
    n = len(atoms)
    for ranks in itertools.product(range(n), repeat=n):
        # canonical: ranks used form 0..k
        used = sorted(set(ranks))
        canon = tuple(used.index(r) for r in ranks)
        if canon in seen:
            continue
        seen.add(canon)
        out.append(dict(zip(atoms, canon)))
    return out


# ------------------------------------------------------------- dispatch matrix
def normal_value(run, x: AV) -> Optional[str]:
    from ..specs import level_quantify
    if isinstance(x, QuantV):
        return repr(x.value())
    if isinstance(x, LevelV):
        q = level_quantify(run.interp, None, [x], {})  # type: ignore[arg-type]
        return repr(q.value()) if isinstance(q, QuantV) else None
    if isinstance(x, MeasV):
        return "M[" + repr(x.measurand.value()) + "]"
    return None


def decide(prog: Program, resolver: Resolver, cls: str, me: AV, other: AV) -> Tuple[str, Tuple[str, ...]]:
    """What <cls>.__eq__(me, other) does: ('NotImplemented'|'False'|'QEQ'|'OVERLAP'|'Q~M', normalised operands)."""
    qual = f"{cls}.__eq__"
    ps = prog.func(qual).params()
    try:
        run = run_function(prog, resolver, qual, LAYERS, {ps[0]: me, ps[1]: other}, inline_depth=2)
    except Unsupported as e:
        raise AnalysisError(f"{qual}: {e}")
    rets = [o for o in run.outcomes if o.kind == "return"]
    if rets and all(isinstance(o.value, NotImpl) for o in rets):
        return "NotImplemented", ()
    cmps = [e for e in run.events if e.kind == "cmp"]
    if cls == "Quantity":
        a, b = normal_value(run, me), normal_value(run, other)
        return "QEQ", tuple(sorted([a or "?", b or "?"]))
    if cls == "Level":
        for e in cmps:
            l, r = e.data["left"], e.data["right"]
            if isinstance(l, QuantV) and isinstance(r, QuantV):
                return "QEQ", tuple(sorted([repr(l.value()), repr(r.value())]))
            if isinstance(l, (QuantV, MeasV)) and isinstance(r, (QuantV, MeasV)):
                return "Q~M", tuple(sorted([normal_value(run, l) or "?", normal_value(run, r) or "?"]))
        raise AnalysisError(f"{qual}: no comparison of quantities found on the {type(other).__name__} arm")
    if cls == "Measurement":
        ctor = [e for e in run.events if e.kind == "ctor" and e.data.get("cls") == "Measurement" and e.data.get("func") == qual]
        o = other
        if ctor and isinstance(ctor[-1].data.get("q"), QuantV):
            o = MeasV(ctor[-1].data["q"], ctor[-1].data["q"])
        if not isinstance(o, MeasV):
            return "False", ()
        return "OVERLAP", tuple(sorted([normal_value(run, me) or "?", normal_value(run, o) or "?"]))
    raise AnalysisError(f"no model for {qual}")


def python_eq(prog: Program, resolver: Resolver, x_cls: str, x: AV, y_cls: str, y: AV) -> Tuple[str, Tuple[str, ...], str]:
    k, ops = decide(prog, resolver, x_cls, x, y)
    via = f"{x_cls}.__eq__"
    if k == "NotImplemented":
        k, ops = decide(prog, resolver, y_cls, y, x)
        via = f"{y_cls}.__eq__ (reflected)"
        if k == "NotImplemented":
            k, ops = "identity", ()
    return k, ops, via


FAMILY = ("Quantity", "Level", "Measurement")


def _ancestors(prog: Program, name: str, seen: Optional[Set[str]] = None) -> Set[str]:
    seen = seen if seen is not None else set()
    ci = prog.classes.get(name)
    if ci is None:
        return seen
    for b in ci.bases:
        b = b.split(".")[-1].split("[")[0]
        if b not in seen:
            seen.add(b)
            _ancestors(prog, b, seen)
    return seen


def uncertainty_conversions(rep: Report, prog: Program) -> None:
    """R12.8: an uncertainty is a half-width, a *difference* of two points on the scale.  Converting it with
    in_unit treats it as a point: on scales with a zero-point offset (degC, degF) the offset is added to
    it, and since a comparison converts the right operand into the left one's unit, x == y and y == x
    then test different intervals.  Bounds measurand -/+ uncertainty are points and may be converted."""
    n = 0
    for q, fi in sorted(prog.functions.items()):
        if fi.module != "" or not (fi.cls == "Measurement" or fi.name == "approximately"):
            continue
        defs = {x.targets[0].id: x.value for x in ast.walk(fi.node) if isinstance(x, ast.Assign) and len(x.targets) == 1 and isinstance(x.targets[0], ast.Name)}

        def is_uncertainty(e: ast.AST, depth: int = 0) -> bool:
            if isinstance(e, ast.Attribute) and e.attr == "uncertainty":
                return True
            if isinstance(e, ast.Name) and e.id in defs and depth < 3:
                return is_uncertainty(defs[e.id], depth + 1)
            return False
        for c in ast.walk(fi.node):
            if isinstance(c, ast.Call) and isinstance(c.func, ast.Attribute) and c.func.attr == "in_unit":
                n += 1
                rep.check("R12.8", f"{q}:{ast.unparse(c)[:50]}", not is_uncertainty(c.func.value),
                          f"`{ast.unparse(c)[:60]}` converts an uncertainty (a half-width) as if it were a point on the scale: across scales "
                          "with a zero-point offset the offset is added to it, so (20+-0.5 degC) == (293.15+-0.5 K) and the reverse disagree",
                          fi.where(c))
    if n == 0:
        rep.ok("R12.8", "Measurement", note="no in_unit call in Measurement (conversion happens inside Quantity arithmetic on the bounds)")


def override_discipline(rep: Report, prog: Program) -> None:
    """R12.7: the symmetry arguments R12.1/R12.2 are about Quantity, Level and Measurement.  A
    subclass that overrides a comparison re-opens them: when its other operand may be of its own
    kind, whatever it does to `other` before delegating it must do to `self` as well, otherwise
    a == b and b == a (both dispatched to the override) compare different things."""
    subs = 0
    for cname, ci in sorted(prog.classes.items()):
        anc = _ancestors(prog, cname)
        fam = [f for f in FAMILY if f in anc]
        if cname in FAMILY or not fam:
            continue
        for d in list(OPS) + ["__ne__"]:
            if d not in ci.methods:
                continue
            subs += 1
            fi = prog.functions[ci.methods[d]]
            params = fi.params()
            me, other = params[0], params[1]
            own_kinds = {cname} | anc

            def derived(root: str) -> Set[str]:
                names = {root}
                changed = True
                while changed:
                    changed = False
                    for st in ast.walk(fi.node):
                        if isinstance(st, ast.Assign) and len(st.targets) == 1 and isinstance(st.targets[0], ast.Name):
                            used = {x.id for x in ast.walk(st.value) if isinstance(x, ast.Name)}
                            if used & names and st.targets[0].id not in names and not (used & {me, other} - names):
                                names.add(st.targets[0].id)
                                changed = True
                return names
            mine, theirs = derived(me), derived(other)
            # projections of `other` in arms where it may be of the receiver's own kind
            problems = []
            for st in ast.walk(fi.node):
                if not (isinstance(st, ast.If) and isinstance(st.test, ast.Call) and ast.unparse(st.test.func) == "isinstance" and len(st.test.args) == 2):
                    continue
                if ast.unparse(st.test.args[0]) not in theirs:
                    continue
                kinds = {ast.unparse(k).split(".")[-1] for k in (st.test.args[1].elts if isinstance(st.test.args[1], ast.Tuple) else [st.test.args[1]])}
                if not (kinds & own_kinds):
                    continue
                for b in st.body:
                    for x in ast.walk(b):
                        if isinstance(x, ast.Assign) and len(x.targets) == 1 and isinstance(x.targets[0], ast.Name) and x.targets[0].id in theirs:
                            proj = sorted({a.attr for a in ast.walk(x.value) if isinstance(a, ast.Attribute) and isinstance(a.value, ast.Name) and a.value.id in theirs})
                            self_attrs = {a.attr for a in ast.walk(fi.node) if isinstance(a, ast.Attribute) and isinstance(a.value, ast.Name) and a.value.id in mine}
                            missing = [a for a in proj if a not in self_attrs]
                            if missing:
                                problems.append((x, missing))
            rep.check("R12.7", f"{cname}.{d}", not problems,
                      f"{cname}.{d} overrides {fam[0]}.{d} and, for an operand that may itself be a {cname}, replaces it by "
                      f"`{ast.unparse(problems[0][0].value) if problems else ''}` while the receiver is compared whole: for two "
                      f"{cname} values a == b and b == a are both decided by this method and compare different things",
                      fi.where(problems[0][0] if problems else None))
    if subs == 0:
        rep.ok("R12.7", "family", note="no subclass of Quantity, Level or Measurement overrides a comparison")


def run(rep: Report) -> None:
    prog = Program()
    resolver = Resolver(prog)
    rep.rule("R12.8", "an uncertainty (half-width) is never converted with in_unit as if it were a point on the scale", floor=1)
    rep.rule("R12.7", "a subclass overriding a comparison treats both operands alike when the other may be of its own kind", floor=1)
    rep.rule("R12.1", "the overlap predicate of Measurement.__eq__, as a function of the four interval bounds, is invariant "
             "under swapping the operands on every weak ordering with lower <= upper (exhaustive)", floor=20)
    rep.rule("R12.2", "dispatch matrix: for each ordered pair over {Quantity, Level, Measurement}, a == b and b == a reduce "
             "(through isinstance arms and Python's reflected fallback on NotImplemented) to the same comparison of the same "
             "normalised operands", floor=9)
    rep.rule("R12.3", "hash respects equality: __hash__ does not hash a raw field that __eq__ normalises before comparing (Quantity; Level and Measurement stay unhashable)", floor=3)
    rep.rule("R12.4", "Quantity is totally ordered by __eq__ and __lt__ (functools.total_ordering or four explicit methods); both "
             "return NotImplemented on the dimension gate and on ConversionNotFound", floor=4)
    rep.rule("R12.6", "every ordering method compares with the operator it denotes (no < inside __ge__)", floor=5)
    rep.rule("R06.2", "== and < compare the operands' physical values in one unit (shared with C06)", floor=4)

    # R12.8 (runs first: it names the construct that also defeats the extractor below)
    uncertainty_conversions(rep, prog)
    # R12.1
    meq = prog.func("Measurement.__eq__")
    mcls = prog.cls("Measurement")
    deferred: Optional[AnalysisError] = None
    try:
        helpers_ = {n: prog.functions[q].node for n, q in mcls.methods.items()}
        # module-level helpers of the core module (`_comparand_as_measurement(other)`) are inlined the same way, called by name
        helpers_.update({"<fn>" + n: prog.functions[q].node for n, q in prog.modules[""].functions.items() if q in prog.functions})
        pred, atoms, text = interval_predicate(meq.node, helpers_)
    except AnalysisError as e:
        # the predicate is not in a form the order-domain evaluation can read: the other rules still run, and the
        # run ends as an analysis error only if none of them reports a violation
        deferred = e
        rep.defer(e)
        pred, atoms, text = (lambda o: True), ["self.lower", "self.upper", "other.lower", "other.upper"], f"<not extracted: {e}>"
        rep.rules["R12.1"].floor = 0
    orders = [o for o in weak_orders(atoms) if o["self.lower"] <= o["self.upper"] and o["other.lower"] <= o["other.upper"]]
    bad = []
    for o in orders:
        sw = {"self.lower": o["other.lower"], "self.upper": o["other.upper"], "other.lower": o["self.lower"], "other.upper": o["self.upper"]}
        if pred(o) != pred(sw):
            bad.append(o)
        # the predicate must also be *overlap*: true iff the closed intervals intersect
    for i, o in enumerate(orders):
        key = "order:" + ",".join(f"{k.split('.')[0][0]}{k.split('.')[1][0]}={v}" for k, v in sorted(o.items()))
        sw = {"self.lower": o["other.lower"], "self.upper": o["other.upper"], "other.lower": o["self.lower"], "other.upper": o["self.upper"]}
        rep.check("R12.1", key, pred(o) == pred(sw),
                  f"`{text}` gives {pred(o)} for bounds {o} but {pred(sw)} with the operands swapped: x == y and y == x disagree "
                  "(containment seen from one side only)", meq.where())
    rep.analysed["overlap_predicate"] = text
    rep.analysed["weak_orders"] = len(orders)

    # R12.2
    lu = logunit_atom()
    samples = {
        "Quantity": lambda tag: quant_atom(tag),
        "Level": lambda tag: LevelV(NumV(Rat.atom(f"L:{tag}")), lu),
        "Measurement": lambda tag: meas_atom(tag),
    }
    classes = ["Quantity", "Level", "Measurement"]
    for x in classes:
        for y in classes:
            a, b = samples[x]("a"), samples[y]("b")
            k1, o1, v1 = python_eq(prog, resolver, x, a, y, b)
            k2, o2, v2 = python_eq(prog, resolver, y, b, x, a)
            rep.check("R12.2", f"{x}=={y}", (k1, o1) == (k2, o2),
                      f"a == b is decided by {v1} as {k1}{list(o1)} but b == a by {v2} as {k2}{list(o2)}: the two directions apply "
                      "different rules to the same operands", prog.func(f"{x}.__eq__").where(),
                      note={"forward": v1, "backward": v2, "kind": k1})

    # R12.3
    qh = prog.func("Quantity.__hash__")
    qe = prog.func("Quantity.__eq__")
    hashed = sorted({n.attr for n in ast.walk(qh.node) if isinstance(n, ast.Attribute) and isinstance(n.value, ast.Name) and n.value.id == "self"})
    raw_compared = sorted({n.attr for n in ast.walk(qe.node) if isinstance(n, ast.Attribute) and isinstance(n.value, ast.Name) and n.value.id == "self"
                           and isinstance(getattr(n, "_parent", None), ast.Compare)})
    normalisers = sorted({n.func.attr for n in ast.walk(qe.node) if isinstance(n, ast.Call) and isinstance(n.func, ast.Attribute)
                          and n.func.attr in ("unprefixed", "in_unit", "quantify")})
    hash_norm = sorted({n.func.attr for n in ast.walk(qh.node) if isinstance(n, ast.Call) and isinstance(n.func, ast.Attribute)
                        and n.func.attr in ("unprefixed", "in_unit", "quantify")})
    contradiction = bool(normalisers) and "magnitude" in hashed and "magnitude" not in raw_compared and not hash_norm
    rep.check("R12.3", "Quantity.__hash__", not contradiction,
              f"__eq__ normalises its operands ({', '.join(normalisers)}) before comparing magnitudes, but __hash__ hashes the raw "
              f"fields {hashed}: 1 * (Kilo * Meter) == 1000 * Meter yet their hashes differ", qh.where())

    # ... and the other two kinds of value that compare equal to quantities: a Level equals the quantity it denotes and an equal
    # level of another logarithmic unit, a Measurement equals whatever its interval overlaps.  Today both are unhashable
    # (defining __eq__ switches the inherited __hash__ off); a __hash__ over their raw fields breaks the contract at once
    for cname in ("Level", "Measurement"):
        cc = prog.cls(cname)
        hq = cc.methods.get("__hash__")
        if hq is None and "__hash__" not in cc.aliases:
            rep.ok("R12.3", f"{cname}.__hash__", note="unhashable: defines __eq__ and no __hash__")
            continue
        hfi = prog.functions.get(hq) if hq else None
        h_norm = hfi is not None and any(isinstance(n, ast.Call) and isinstance(n.func, ast.Attribute) and n.func.attr in ("quantify", "unprefixed", "in_unit")
                                         for n in ast.walk(hfi.node))
        h_fields = sorted({n.attr for n in ast.walk(hfi.node) if isinstance(n, ast.Attribute) and isinstance(n.value, ast.Name) and n.value.id == "self"}) if hfi else []
        rep.check("R12.3", f"{cname}.__hash__", h_norm and "magnitude" not in h_fields and "uncertainty" not in h_fields,
                  f"{cname}.__eq__ equates a {cname} with values of another representation (the quantity it denotes, a level of another unit, an overlapping "
                  f"interval), but {cname}.__hash__ hashes its own raw fields {h_fields}: 100 W == 20 dBW yet their hashes differ, a set keeps both",
                  hfi.where() if hfi else f"{cc.path}:{cc.node.lineno}")

    # R12.4
    qc = prog.cls("Quantity")
    explicit = all(d in qc.methods for d in ("__lt__", "__le__", "__gt__", "__ge__"))
    rep.check("R12.4", "Quantity:ordering", ("total_ordering" in qc.decorators and "__lt__" in qc.methods and "__eq__" in qc.methods) or explicit,
              "Quantity defines neither functools.total_ordering over __eq__/__lt__ nor all four ordering methods", f"{qc.path}:{qc.node.lineno}")
    # with total_ordering the other four comparisons are *derived* from __eq__ and __lt__ (a > b is `not a < b and a != b`):
    # an explicit __ne__/__gt__/__le__/__ge__ next to them replaces a derived one by something R12.6/R06.2 have not looked at
    if "total_ordering" in qc.decorators:
        extra_cmp = [d for d in ("__ne__", "__gt__", "__le__", "__ge__") if d in qc.methods or d in qc.aliases]
        rep.check("R12.4", "Quantity:derived-comparisons", not extra_cmp,
                  f"Quantity is @total_ordering and also defines {extra_cmp}: the hand-written method takes the place of the one derived from __eq__/__lt__ "
                  "(and `>` is derived through `!=`), so <, >, == and != no longer come from one comparison - trichotomy and mirror symmetry are no longer "
                  "consequences of R06.2", f"{qc.path}:{qc.node.lineno}")
    for d in ("__eq__", "__lt__"):
        fi = prog.func(f"Quantity.{d}")
        # shared with C03 R03.3: the gate may be inline or in a helper whose None result becomes NotImplemented
        from ..core import Report as _R
        probe = _R("C12", rep.tier)
        probe.rule("g", "gate")
        from ..quantity_rules import check_gates
        check_gates(probe, prog, "g")
        bad_gate = [f_ for f_ in probe.findings if f_.construct == f"Quantity.{d}:gate"]
        rep.check("R12.4", f"Quantity.{d}:gate", not bad_gate, f"Quantity.{d} does not return NotImplemented for different dimensions before "
                  "comparing (== must be False and ordering a TypeError, decided by Python from NotImplemented)", fi.where())
        hs = [h for h in ast.walk(fi.node) if isinstance(h, ast.ExceptHandler)]
        from ..effects import handler_yields
        ok2 = bool(hs) and all(handler_yields(fi.node, h) for h in hs)
        rep.check("R12.4", f"Quantity.{d}:unconvertible", ok2, f"Quantity.{d} does not return NotImplemented when no conversion exists", fi.where())

    # R12.6 operator consistency
    for cls in ("Quantity", "Measurement"):
        ci = prog.cls(cls)
        for d, op in OPS.items():
            if d == "__eq__" or d not in ci.methods:
                continue
            fi = prog.functions[ci.methods[d]]
            cmps = [n for n in ast.walk(fi.node) if isinstance(n, ast.Compare)
                    and any(isinstance(o, (ast.Lt, ast.LtE, ast.Gt, ast.GtE)) for o in n.ops)]
            if not cmps:
                rep.defer(AnalysisError(f"{cls}.{d}: no ordering comparison found"))
                continue
            wrong = [n for n in cmps if any(isinstance(o, (ast.Lt, ast.LtE, ast.Gt, ast.GtE)) and not isinstance(o, op) for o in n.ops)]
            rep.check("R12.6", f"{cls}.{d}", not wrong,
                      f"{cls}.{d} contains `{ast.unparse(wrong[0]) if wrong else ''}`: an ordering method must compare with its own "
                      "operator on every path (a converted branch with another operator contradicts the same-unit branch)",
                      fi.where(wrong[0] if wrong else None))
    override_discipline(rep, prog)
    from .c06 import immutability
    rep.rule("R06.6", "value objects carry no state assigned outside their constructors (no cached hash: equal quantities hash equal in every process) - shared with C06", floor=10)
    immutability(rep, prog, resolver)
    from .c05 import check_factor_sign
    rep.rule("R05.11", "the conversion behind a mixed-unit comparison applies each factor with the sign of the dimension _splat files it under (shared "
             "with C05): an inverted ratio makes the order of two quantities depend on the units they are written in", floor=6)
    check_factor_sign(rep, prog)
    check_comparisons(rep, prog, resolver, "R06.2")
    rep.assume("Quantity equality/ordering compare physical values (R06.2); Python's reflected-operand protocol for NotImplemented")
    rep.not_decided += ["trichotomy and sorted() on physical values numerically (floating-point ties)",
                        "transitivity of the interval-overlap equality (it is not transitive by design)"]
    rep.trust("mypy 2.3.1 expression types; E4 interpreter for the dispatch arms")
