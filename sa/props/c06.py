"""C06 - arithmetic and comparison do not depend on the units operands are written in.

Proved relative to C04 (the in_unit axiom): if every operator's result has the physical
value of the operation applied to the operands' physical values, replacing an operand
by an equal one in other units cannot change the result's physical value.
"""
from __future__ import annotations

import ast

from ..calls import Resolver
from ..core import Report
from ..model import Program
from ..quantity_rules import check_comparisons, check_operators
from .c11 import prefix_arithmetic_layering, value_preservation

TITLE = "Arithmetic and comparison do not depend on the units operands are written in"


def run(rep: Report) -> None:
    prog = Program()
    resolver = Resolver(prog)
    rep.rule("R06.1", "+ and -: physical value of the result is val(self) +/- val(other); the right operand itself is "
             "converted into the left unit before magnitudes meet", floor=6)
    rep.rule("R06.1v", "+ and -: value identity", floor=2)
    rep.rule("R06.2", "== and <: both operands are normalised; magnitudes are compared only in one unit and each is the "
             "operand's own physical value", floor=4)
    rep.rule("R11.3", "quantify / unprefixed / number*prefix preserve the physical value (identity prefix on the result)", floor=3)
    rep.rule("R11.2", "Prefix.quantify is base ** exponent", floor=1)
    rep.rule("R06.4", "* / ** and unary operators: physical value of the result = operation on physical values", floor=10)
    rep.rule("R11.7", "prefix factors are computed only inside class Prefix (no arithmetic on .base/.exponent elsewhere)")
    check_operators(rep, prog, resolver, "R06.1v", None, "R06.1", only=["add", "sub"])
    check_operators(rep, prog, resolver, "R06.4", None, None, only=["mul", "div", "rdiv", "pow", "root", "neg", "pos", "abs"])
    check_comparisons(rep, prog, resolver, "R06.2")
    value_preservation(rep, prog, resolver)
    prefix_arithmetic_layering(rep, prog, resolver)
    rep.assume("q.in_unit(U) returns a quantity of unit U with unchanged physical value (C04 axiom)")
    rep.not_decided += ["rounding ties", "correctness of the conversion itself (C04)"]
    rep.trust("mypy 2.3.1 expression types; E4 normal forms (sa/poly.py)")
