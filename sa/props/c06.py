"""C06 - arithmetic and comparison do not depend on the units operands are written in.

Proved relative to C04 (the in_unit axiom): if every operator's result has the physical
value of the operation applied to the operands' physical values, replacing an operand
by an equal one in other units cannot change the result's physical value.
"""
from __future__ import annotations

import ast

from ..calls import Resolver
from ..core import Report
from ..model import Program
from ..quantity_rules import check_comparisons, check_operators
from .c11 import prefix_arithmetic_layering, value_preservation

TITLE = "Arithmetic and comparison do not depend on the units operands are written in"


# the fields that carry the value of each value class, and the only methods that may assign them
VALUE_FIELDS = {
    "Quantity": ("magnitude", "unit"),
    "Level": ("magnitude", "unit"),
    "Measurement": ("measurand", "uncertainty"),
    "Unit": ("prefix", "factors", "dimension"),
    "Prefix": ("base", "exponent"),
    "Logarithm": ("base", "prefix"),
    "LogarithmicUnit": ("logarithm", "reference"),
}
CONSTRUCTORS = ("__init__", "__new__", "__setstate__", "__post_init__")


def immutability(rep: Report, prog: Program, resolver: Resolver) -> None:
    """R06.6: quantities, units and prefixes are shared (interned units, memoised Unit.quantify, module
    constants), so the value of an expression is a function of its operands only if nothing assigns a
    value field of an existing object."""
    from ..core import AnalysisError
    seen = 0
    for q, fi in prog.functions.items():
        if fi.module in ("hypothesis", "pytest"):
            continue
        for st in ast.walk(fi.node):
            tgts = st.targets if isinstance(st, ast.Assign) else ([st.target] if isinstance(st, (ast.AugAssign, ast.AnnAssign)) else [])
            if isinstance(st, ast.Delete):
                tgts = st.targets
            flat = []
            for t in tgts:
                flat += list(t.elts) if isinstance(t, (ast.Tuple, ast.List)) else [t]
            for t in flat:
                if not isinstance(t, ast.Attribute):
                    continue
                for kind, full in resolver.expr_alts(fi, t.value):
                    cname = full.split(".")[-1]
                    if kind != "inst" or t.attr not in VALUE_FIELDS.get(cname, ()):
                        continue
                    seen += 1
                    ok = fi.cls == cname and fi.name in CONSTRUCTORS and isinstance(t.value, ast.Name) and t.value.id == fi.params()[0]
                    rep.check("R06.6", f"{q}:{ast.unparse(t)}", ok,
                              f"`{ast.unparse(st)[:70]}` in {q} assigns the value field {cname}.{t.attr} of an existing object: {cname} "
                              "instances are shared (interned, memoised, module constants), so later arithmetic and comparisons on the "
                              "same operands change their result", fi.where(st))
    # the pure value classes keep no other state either: a cached hash or a memo slot is derived state that is pickled,
    # copied and compared along with the value, and goes stale or process-specific (hash of a unit is its address)
    for q, fi in prog.functions.items():
        if fi.cls not in ("Quantity", "Level", "Measurement") or fi.module != "" or fi.name in CONSTRUCTORS:
            continue
        me = fi.params()[0] if fi.params() else None
        for st in ast.walk(fi.node):
            tgts = st.targets if isinstance(st, ast.Assign) else ([st.target] if isinstance(st, (ast.AugAssign, ast.AnnAssign)) else [])
            for t in tgts:
                for x in (t.elts if isinstance(t, (ast.Tuple, ast.List)) else [t]):
                    if isinstance(x, ast.Attribute) and isinstance(x.value, ast.Name) and x.value.id == me and not fi.is_static and not fi.is_classmethod:
                        seen += 1
                        rep.fail("R06.6", f"{q}:{ast.unparse(x)}", f"`{ast.unparse(st)[:60]}` stores derived state on a {fi.cls} outside its constructor: it travels with "
                                 "pickle/copy and is compared by nobody - a cached hash is the hash of the unit's address in the process that computed it",
                                 fi.where(st))
    if seen < 10:
        raise AnalysisError(f"only {seen} value-field assignments found (the constructors alone have more): R06.6 anchors moved")


def run(rep: Report) -> None:
    prog = Program()
    resolver = Resolver(prog)
    rep.rule("R06.6", "value fields of Quantity/Level/Measurement/Unit/Prefix/Logarithm(icUnit) are assigned only by their own constructors", floor=10)
    rep.rule("R06.1", "+ and -: physical value of the result is val(self) +/- val(other); the right operand itself is "
             "converted into the left unit before magnitudes meet", floor=6)
    rep.rule("R06.1v", "+ and -: value identity", floor=2)
    rep.rule("R06.2", "== and <: both operands are normalised; magnitudes are compared only in one unit and each is the "
             "operand's own physical value", floor=4)
    rep.rule("R11.3", "quantify / unprefixed / number*prefix preserve the physical value (identity prefix on the result)", floor=3)
    rep.rule("R11.2", "Prefix.quantify is base ** exponent", floor=1)
    rep.rule("R06.4", "* / ** and unary operators: physical value of the result = operation on physical values", floor=10)
    rep.rule("R11.7", "prefix factors are computed only inside class Prefix (no arithmetic on .base/.exponent elsewhere)")
    check_operators(rep, prog, resolver, "R06.1v", None, "R06.1", only=["add", "sub"])
    check_operators(rep, prog, resolver, "R06.4", None, None, only=["mul", "div", "rdiv", "pow", "root", "neg", "pos", "abs"])
    check_comparisons(rep, prog, resolver, "R06.2")
    immutability(rep, prog, resolver)
    from .c05 import check_equate
    rep.rule("R05.1", "the conversion tables are keyed by unprefixed units and store mutually inverse, correctly oriented ratios (shared with C05)", floor=6)
    check_equate(rep, prog, resolver)
    from .c05 import check_match_direction
    rep.rule("R05.9", "planner steps obtained with the sides exchanged are turned round before use (shared with C05; the rest of the planner is C04's)", floor=2)
    check_match_direction(rep, prog)
    from .c05 import check_inline_paths
    rep.rule("R05.10", "plan steps keep their own ratio, exponent and order when paths are inlined (shared with C05): a ratio moved "
             "across a hop with an offset makes a + b depend on the prefix the operands are written with", floor=4)
    check_inline_paths(rep, prog)
    from .c05 import check_factor_sign
    rep.rule("R05.11", "factors are applied with the sign of the dimension _splat files them under (shared with C05): an inverted ratio for dimensionless "
             "factors makes 1 deg/s and its value in rad/s compare differently", floor=6)
    check_factor_sign(rep, prog)
    value_preservation(rep, prog, resolver)
    prefix_arithmetic_layering(rep, prog, resolver)
    rep.assume("q.in_unit(U) returns a quantity of unit U with unchanged physical value (C04 axiom)")
    rep.not_decided += ["rounding ties", "correctness of the conversion itself (C04)"]
    rep.trust("mypy 2.3.1 expression types; E4 normal forms (sa/poly.py)")
