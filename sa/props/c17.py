"""C17 - parsing is total: any text yields a Unit/Quantity or ParseError/KeyError."""
from __future__ import annotations

import ast
from typing import Dict, List, Optional, Set, Tuple

from ..calls import Reach, Resolver
from ..core import AnalysisError, Report, rel
from ..effects import MUTATORS, NAMING_ATTRS, ExcFlow, ExcHierarchy, exc_name, handlers_around, raise_sites, writes_in
from ..grammar import extract_shipped, normalise
from ..model import Program

TITLE = "Parsing is total: any text yields a Unit/Quantity or ParseError/KeyError"
TRANSFORMER = "parsing.QuantityTransformer"
ZONE_FUNCS = {"formatting.from_superscript", "Unit.resolve_symbol", "Prefix.resolve_symbol", "Unit.parse", "Quantity.parse"}


# library calls that are partial on text: callee -> (exception, number of positional arguments for which it raises)
PARTIAL_CALLS = {
    "unicodedata.name": ("ValueError", 1), "unicodedata.numeric": ("ValueError", 1), "unicodedata.digit": ("ValueError", 1),
    "unicodedata.decimal": ("ValueError", 1), "chr": ("ValueError", 1), "next": ("StopIteration", 1),
    "Decimal": ("InvalidOperation", 1), "decimal.Decimal": ("InvalidOperation", 1), "Fraction": ("ValueError", 1),
    "fractions.Fraction": ("ValueError", 1), "bytes.fromhex": ("ValueError", 1), "operator.index": ("TypeError", 1),
    "math.log": ("ValueError", None), "math.log10": ("ValueError", None), "math.sqrt": ("ValueError", None),
}
PARTIAL_METHODS = {"index": ("ValueError", None), "encode": ("UnicodeEncodeError", None), "decode": ("UnicodeDecodeError", None),
                   "remove": ("ValueError", 1)}


def in_zone(prog: Program, f: str) -> bool:
    return prog.functions[f].module == "parsing" or f in ZONE_FUNCS


def lark_error_classes() -> Dict[str, Optional[str]]:
    """Exception classes of the embedded Lark runtime: name -> first base (from _parser.py's AST)."""
    sh = extract_shipped()
    out: Dict[str, Optional[str]] = {}
    for n in sh.tree.body:
        if isinstance(n, ast.ClassDef) and n.bases:
            b = ast.unparse(n.bases[0]).split(".")[-1]
            out[n.name] = b
    return out


def run(rep: Report) -> None:
    prog = Program()
    resolver = Resolver(prog)
    rep.rule("R17.1", "every rule name / alias of the shipped grammar tables has a QuantityTransformer attribute (otherwise "
             "parse() returns a Tree)", floor=8)
    rep.rule("R17.2", "exception closure: what may escape the transformer callbacks through raise/assert is within KeyError and "
             "subclasses of LarkError (armed in the parser zone); int() of an unbounded digit token must be converted to ParseError", floor=6)
    rep.rule("R17.9", "an exponent read from the text is an int of unbounded size: wherever it (or a multiple of it) meets a float in "
             "arithmetic on the parse path, the OverflowError of int*float must be converted to ParseError before it leaves parse()", floor=1)
    rep.rule("R17.2i", "inventory: builtin raises in algebra code reachable from the callbacks", armed=False)
    rep.rule("R17.3", "no path from the parse entry points writes a name or symbol registry (or renames an existing object)", floor=1)
    rep.rule("R17.7", "the callbacks of the shared, module-level transformer keep no state on it (parsing the same text twice gives the same result, "
             "whatever was parsed - or rejected - in between)", floor=6)
    rep.rule("R17.8", "nothing on the parse path issues a warning (a warning escapes as an exception of its category wherever warnings are escalated)", floor=1)
    rep.rule("R17.6", "a magnitude callback that is a bare builtin is fed by Lark's standard number terminal (the set of texts the builtin accepts)", floor=2)
    rep.rule("R17.4", "the magnitude callbacks produce the builtin int / float of the token text", floor=2)
    rep.rule("R17.5", "determinism: no memoised function on the parse path is keyed by a number (5 == 5.0 share a cache slot) or "
             "reads the name/symbol registries", floor=1)

    ci = prog.cls(TRANSFORMER)
    attrs = set(ci.methods) | set(ci.aliases)
    tables = normalise(*(lambda s: (s.data, s.memo))(extract_shipped()))
    needed: Dict[str, str] = {}
    for r in tables.rules:
        origin, alias = r[0], r[2]
        if origin.startswith("_"):
            continue
        needed[alias or origin] = origin
    for name, origin in sorted(needed.items()):
        rep.check("R17.1", f"callback:{name}", name in attrs, f"grammar rule `{origin}`{' (alias ' + name + ')' if name != origin else ''} "
                  "has no QuantityTransformer attribute: parse() would hand back a Tree instead of a Unit/Quantity", f"{ci.path}:{ci.node.lineno}")

    # entry points: the callbacks
    entries: List[str] = []
    for name in sorted(needed):
        for q in prog.method(TRANSFORMER, name):
            if q in prog.functions and q not in entries:
                entries.append(q)
    for q in ("Unit.parse", "Quantity.parse"):
        entries.append(prog.func(q).qual)
    entry_values = {}
    for e in entries:
        fi = prog.functions[e]
        if fi.cls == "QuantityTransformer":
            a = fi.node.args  # type: ignore[attr-defined]
            for x in a.args[1:]:
                if x.annotation is not None and ast.unparse(x.annotation) in ("str",):
                    entry_values[(e, x.arg)] = {("inst", "builtins.str")}
    reach = Reach(resolver, entries, entry_values=entry_values)
    rep.analysed["reachable_functions"] = len(reach.reached)
    rep.analysed["entries"] = entries

    # R17.2
    lark = lark_error_classes()
    hier = ExcHierarchy(prog, extra=lark)
    if not hier.is_sub("UnexpectedInput", "LarkError") or not hier.is_sub("VisitError", "LarkError"):
        raise AnalysisError("the embedded Lark runtime's exception hierarchy is not rooted at LarkError as expected")
    parse_error = prog.module("parsing").globals_assigned.get("ParseError")
    pe_ok = bool(parse_error) and ast.unparse(parse_error[0].value).endswith("LarkError")  # type: ignore[union-attr]
    rep.check("R17.2", "ParseError", pe_ok, "parsing.ParseError is no longer the base class of all Lark errors", prog.module("parsing").path)
    for cname, base in sorted(lark.items()):
        if cname.endswith("Error") or cname.startswith("Unexpected") or cname in ("ParseError", "LexError", "GrammarError", "ConfigurationError"):
            rep.check("R17.2", f"lark:{cname}", hier.is_sub(cname, "LarkError") or cname in ("LarkError",) or not hier.is_sub(cname, "Exception") and base not in hier.parent,
                      f"Lark exception class {cname} does not derive from LarkError: it would escape as something else than ParseError",
                      "src/measured/_parser.py")
    flow = ExcFlow(prog, resolver, reach, hier)
    builtin_names = set(hier.parent) - {c.name for c in prog.classes.values()} - set(lark)

    def allowed(x: str) -> bool:
        return hier.is_sub(x, "KeyError") or hier.is_sub(x, "LarkError") or x == "ParseError"
    for e in entries:
        esc = flow.escapes[e]
        bad = {}
        for x, rs in esc.items():
            if allowed(x):
                continue
            if rs.kind == "assert" and _assert_infeasible(prog, resolver, rs):
                continue
            bad[x] = rs      # algebra code included: escapes holds feasible raise sites only (context-pruned)
        for x, rs in sorted(bad.items()):
            fi = prog.functions[rs.func]
            rep.fail("R17.2", f"{e}<-{rs.func}:{x}", f"{x} from {rs.func} can escape {e}: parsing may fail with something other than "
                     f"ParseError/KeyError ({' -> '.join(reach.path_to(rs.func)[-4:])})", fi.where(rs.node))
        if not bad:
            rep.ok("R17.2", e, note=sorted(esc))
    for f in sorted(reach.reached):
        for rs in raise_sites(prog, f):
            if rs.kind == "raise" and rs.exc in builtin_names and not in_zone(prog, f) and not allowed(rs.exc):
                rep.inventory("R17.2i", {"function": f, "raises": rs.exc, "feasible_here": reach.feasible_node(f, rs.node)})
    # int() of an unbounded token
    n_int = 0
    for f in sorted(reach.reached):
        fi = prog.functions[f]
        if not in_zone(prog, f):
            continue
        for n in Resolver._own_nodes(fi.node):
            if isinstance(n, ast.Call) and isinstance(n.func, ast.Name) and n.func.id == "int" and len(n.args) == 1:
                alts = resolver.expr_alts(fi, n.args[0])
                if not any(k == "inst" and full == "builtins.str" for k, full in alts) and alts:
                    continue
                n_int += 1
                ok, why = _value_error_converted(prog, resolver, reach, f, n, allowed, set())
                rep.check("R17.2", f"{f}:int({ast.unparse(n.args[0])[:30]})", ok,
                          f"`{ast.unparse(n)}` converts a digit token of unbounded length: beyond the interpreter's int-string limit "
                          f"(4300 digits) it raises ValueError, which escapes parse() ({why}) - catch it and raise ParseError", fi.where(n))
    # other library calls that are partial on text, anywhere in the parser zone
    for f in sorted(reach.reached):
        fi = prog.functions[f]
        if not in_zone(prog, f):
            continue
        mi = prog.modules[fi.module]
        for n in Resolver._own_nodes(fi.node):
            if not isinstance(n, ast.Call):
                continue
            callee = ast.unparse(n.func)
            if isinstance(n.func, ast.Name) and n.func.id in mi.imports:
                m_, a_ = mi.imports[n.func.id]
                callee = f"{m_}.{a_}" if a_ else m_
            spec = PARTIAL_CALLS.get(callee)
            if spec is None and isinstance(n.func, ast.Attribute) and n.func.attr in PARTIAL_METHODS:
                alts = resolver.expr_alts(fi, n.func.value)
                if any(k == "inst" and full in ("builtins.str", "builtins.bytes", "builtins.list", "builtins.tuple") for k, full in alts):
                    spec = PARTIAL_METHODS[n.func.attr]
            if spec is None or (spec[1] is not None and len(n.args) + len(n.keywords) != spec[1]):
                continue
            if allowed(spec[0]):
                continue
            ok, why = _value_error_converted(prog, resolver, reach, f, n, allowed, set(), spec[0])
            rep.check("R17.2", f"{f}:{callee}(..)", ok,
                      f"`{ast.unparse(n)[:60]}` is partial: for some characters/text it raises {spec[0]}, which escapes parse() ({why}); "
                      "only ParseError and KeyError may", fi.where(n))
    # bare `int` used as a callback
    for name in ("int", "float"):
        rhs = ci.aliases.get(name)
        if rhs is None and name in ci.methods:
            continue
        if isinstance(rhs, ast.Call) and rhs.args and isinstance(rhs.args[0], ast.Name) and rhs.args[0].id == name == "int":
            n_int += 1
            rep.fail("R17.2", f"{TRANSFORMER}.int:int(token)", "the magnitude callback is the bare builtin int over SIGNED_INT (unbounded "
                     "digits): Quantity.parse('1' * 5000 + ' m') raises ValueError instead of ParseError",
                     f"{ci.path}:{getattr(ci.class_attrs.get(name), 'lineno', ci.node.lineno)}")
    rep.analysed["int_sites"] = n_int
    # R17.6: an unguarded builtin callback is total only on the standard number terminals
    from ..grammar import build_from_text
    ref = normalise(*build_from_text("start: SIGNED_INT SIGNED_FLOAT\n%import common.SIGNED_INT\n%import common.SIGNED_FLOAT\n", ["start"]))
    for r in tables.rules:
        alias = r[2]
        if alias not in ("int", "float"):
            continue
        terms = [x[0] for x in r[1] if x[1] == "Terminal"]
        rhs = ci.aliases.get(alias)
        bare = isinstance(rhs, ast.Call) and rhs.args and isinstance(rhs.args[0], ast.Name) and rhs.args[0].id == alias
        for t in terms:
            mine = tables.terminals.get(t)
            std = ref.terminals.get("SIGNED_FLOAT" if alias == "float" else "SIGNED_INT")
            same = mine is not None and std is not None and mine[:3] == std[:3]
            if bare:
                rep.check("R17.6", f"callback:{alias}<-{t}", same,
                          f"QuantityTransformer.{alias} is the bare builtin {alias}() and the terminal {t} feeding it is not Lark's common."
                          f"{'SIGNED_FLOAT' if alias == 'float' else 'SIGNED_INT'} (pattern {mine[1][:60] if mine else None!r}): the lexer accepts "
                          f"texts {alias}() rejects, and its ValueError escapes parse()", f"{ci.path}:{ci.node.lineno}")
            else:
                rep.ok("R17.6", f"callback:{alias}<-{t}", note="callback is a function of the package (its conversions are decided by R17.2)" if not same else "standard terminal")

    # R17.3
    n3 = 0
    for f in sorted(reach.reached):
        fi = prog.functions[f]
        for w in writes_in(prog, resolver, f):
            if not reach.feasible_node(f, w.node):
                continue
            kind = w.location.split(".")[-1]
            if kind in NAMING_ATTRS and kind not in ("_base", "_fundamental") or (w.location.startswith("attr:") and fi.name != "__init__"):
                if w.location.startswith("attr:") and _anonymous_init_store(prog, reach, f, w.node):
                    continue
                n3 += 1
                rep.fail("R17.3", f"{f}:{w.location}", f"{f} (reachable from parsing: {' -> '.join(reach.path_to(f)[-4:])}) writes "
                         f"{w.location}: a parse - even a rejected one - changes the registered names/symbols", fi.where(w.node))
    # an import executed on the parse path runs a whole module of declarations
    for f in sorted(reach.reached):
        fi = prog.functions[f]
        for node in Resolver._own_nodes(fi.node):
            mods: List[str] = []
            if isinstance(node, ast.Import):
                mods = [a.name for a in node.names]
            elif isinstance(node, ast.ImportFrom):
                mods = [("." * node.level) + (node.module or "") + "." + a.name for a in node.names] if not node.module or node.level else [node.module]
                if node.level and node.module is None:
                    mods = [a.name for a in node.names]
                elif node.level:
                    mods = [node.module or ""]
            elif isinstance(node, ast.Call) and ast.unparse(node.func) in ("importlib.import_module", "import_module", "__import__") and node.args \
                    and isinstance(node.args[0], ast.Constant):
                mods = [str(node.args[0].value)]
            elif isinstance(node, ast.Call) and ast.unparse(node.func) in ("importlib.import_module", "import_module", "__import__") and node.args:
                # the module is looked up in a table (`cls._declared_in[symbol]`): every value of that table may be imported
                a0 = node.args[0]
                tab = a0.value if isinstance(a0, ast.Subscript) else (a0.func.value if isinstance(a0, ast.Call) and isinstance(a0.func, ast.Attribute)
                                                                        and a0.func.attr == "get" else None)
                tname = tab.attr if isinstance(tab, ast.Attribute) else (tab.id if isinstance(tab, ast.Name) else None)
                lit = None
                for owner in ([prog.classes[fi.cls].node] if fi.cls and fi.cls in prog.classes else []) + [prog.modules[fi.module].tree]:
                    for st in owner.body:
                        tg = st.targets[0] if isinstance(st, ast.Assign) and len(st.targets) == 1 else (st.target if isinstance(st, ast.AnnAssign) else None)
                        if isinstance(tg, ast.Name) and tg.id == tname and isinstance(getattr(st, "value", None), ast.Dict):
                            lit = st.value
                    if lit is not None:
                        break
                if lit is None or not all(isinstance(v, ast.Constant) and isinstance(v.value, str) for v in lit.values):
                    rep.defer(AnalysisError(f"{f}: `{ast.unparse(node)[:60]}` imports a module chosen at run time on the parse path; the candidates cannot be read"))
                else:
                    mods = sorted({v.value for v in lit.values})  # type: ignore[union-attr]
            for m in mods:
                short = m.replace("measured.", "").lstrip(".")
                if short in prog.modules and short not in ("", "_parser", "parsing", "formatting", "compat", "conversions") and not short.startswith("_"):
                    n3 += 1
                    rep.fail("R17.3", f"{f}:import {short}", f"{f} imports measured.{short} while parsing: the first input that reaches it (e.g. a rejected "
                             "symbol) registers every unit that module declares - a rejected parse changes the registries, and exact symbols it adds "
                             "shadow prefix splits (hh: hecto-hour before, hand after)", fi.where(node))
    if n3 == 0:
        rep.ok("R17.3", "parse-path", note=f"{len(reach.reached)} functions, no naming write on a feasible arm")
    for bad in ("Unit.alias:named", "Unit.define", "Unit.derive", "Dimension.define", "Dimension.derive"):
        q = bad.split(":")[0]
        if q in reach.reached and q != "Unit.alias":
            rep.fail("R17.3", f"{q}:reachable", f"{q} is reachable from the parse entry points", prog.functions[q].where())

    # R17.8: a warning is an exception as soon as the embedding program escalates warnings (python -W error,
    # pytest's filterwarnings = error): issued on the parse path it escapes parse() as its category
    n8 = 0
    for f in sorted(reach.reached):
        fi8 = prog.functions[f]
        mi8 = prog.modules[fi8.module]
        for node in Resolver._own_nodes(fi8.node):
            if not isinstance(node, ast.Call):
                continue
            fn_txt = ast.unparse(node.func)
            is_warn = fn_txt in ("warnings.warn", "warnings.warn_explicit") or \
                (isinstance(node.func, ast.Name) and mi8.imports.get(node.func.id, ("", None))[0].endswith("warnings") and node.func.id.startswith("warn"))
            if not is_warn or not reach.feasible_node(f, node):
                continue
            cat = ast.unparse(node.args[1]) if len(node.args) > 1 else next((ast.unparse(k.value) for k in node.keywords if k.arg == "category"), "UserWarning")
            n8 += 1
            rep.fail("R17.8", f"{f}:warn {cat}", f"{f} (reachable from parsing: {' -> '.join(reach.path_to(f)[-4:])}) issues {cat}: when warnings are "
                     f"escalated to errors (-W error, pytest filterwarnings=error) it leaves Unit.parse / Quantity.parse as {cat}, which is neither "
                     "ParseError nor KeyError", fi8.where(node))
    if n8 == 0:
        rep.ok("R17.8", "parse-path", note=f"{len(reach.reached)} functions, no warnings.warn on a feasible arm")

    # R17.7: the transformer handed to the parser is one module-level object shared by every parse; whatever a callback
    # stores on it survives the parse - also one that is abandoned half-way by an error - and is seen by the next
    pmod = prog.module("parsing")
    shared = [n for st in pmod.tree.body if not isinstance(st, (ast.FunctionDef, ast.ClassDef, ast.AsyncFunctionDef))
              for n in ast.walk(st) if isinstance(n, ast.Call) and ast.unparse(n.func).split(".")[-1] == ci.name]
    n7 = 0
    # ... and so is any other object of a class of measured.parsing that the module creates once (a wrapper around the parser,
    # a memo in front of it): its methods run on every parse
    work7 = [(attr, q) for attr, q in sorted(ci.methods.items()) if shared]
    for oc, oci in sorted(prog.classes.items()):
        if oc == ci.name or getattr(oci, "module", None) != "parsing" and rel(oci.path) != rel(pmod.path):
            continue
        made = [n for st in pmod.tree.body if not isinstance(st, (ast.FunctionDef, ast.ClassDef, ast.AsyncFunctionDef))
                for n in ast.walk(st) if isinstance(n, ast.Call) and ast.unparse(n.func).split(".")[-1] == oci.name]
        if made:
            work7 += sorted(oci.methods.items())
    for attr, q in work7:
        if attr in ("__init__", "__new__"):
            continue
        fi7 = prog.func(q)
        selfname = fi7.params()[0] if fi7.params() else "self"

        def on_self(e: ast.AST) -> bool:
            while isinstance(e, ast.Subscript):
                e = e.value
            return isinstance(e, ast.Attribute) and isinstance(e.value, ast.Name) and e.value.id == selfname
        hits: List[ast.AST] = []
        for n in Resolver._own_nodes(fi7.node):
            if isinstance(n, (ast.Assign, ast.AugAssign, ast.AnnAssign)):
                tg = n.targets if isinstance(n, ast.Assign) else [n.target]
                for t in tg:
                    hits += [n for x in (t.elts if isinstance(t, (ast.Tuple, ast.List)) else [t]) if on_self(x)]
            elif isinstance(n, ast.Delete):
                hits += [n for t in n.targets if on_self(t)]
            elif isinstance(n, ast.Call) and isinstance(n.func, ast.Attribute) and n.func.attr in MUTATORS and on_self(n.func.value):
                hits.append(n)
            elif isinstance(n, ast.Call) and isinstance(n.func, ast.Name) and n.func.id in ("setattr", "delattr") and n.args \
                    and isinstance(n.args[0], ast.Name) and n.args[0].id == selfname:
                hits.append(n)
        n7 += 1
        rep.check("R17.7", f"{q}:stateless", not hits,
                  f"{q} stores on its object ({ast.unparse(hits[0])[:60] if hits else ''}): the transformer - like every object measured.parsing creates at module level - is a single "
                  f"object ({rel(pmod.path)}:{shared[0].lineno if shared else 0}), so the state outlives the parse - a rejected text leaves it "
                  "behind and the next, unrelated parse gives a different result for the same text", fi7.where(hits[0]) if hits else fi7.where())
    if not shared:
        rep.ok("R17.7", "transformer:per-parse", note="no module-level transformer instance")

    # R17.4
    for name, typ in (("int", "int"), ("float", "float")):
        ok = False
        why = f"QuantityTransformer.{name} is not defined"
        rhs = ci.aliases.get(name)
        if rhs is not None:
            why = f"QuantityTransformer.{name} = {ast.unparse(rhs)}"
            if isinstance(rhs, ast.Call) and len(rhs.args) == 1:
                a0 = rhs.args[0]
                mi = prog.module("parsing")
                if isinstance(a0, ast.Name) and a0.id == typ and a0.id not in mi.functions and a0.id not in mi.imports and a0.id not in mi.globals_assigned:
                    ok = True
                elif isinstance(a0, ast.Name):
                    q = prog.resolve_name(mi, a0.id)
                    if q in prog.functions:
                        r = prog.functions[q].node.returns  # type: ignore[attr-defined]
                        ok = r is not None and ast.unparse(r) == typ
        elif name in ci.methods:
            mfi = prog.functions[ci.methods[name]]
            r = mfi.node.returns  # type: ignore[attr-defined]
            ok = r is not None and ast.unparse(r) == typ
            why = f"method returning {ast.unparse(r) if r is not None else None}"
            if not ok:
                rets = [x for x in ast.walk(mfi.node) if isinstance(x, ast.Return) and x.value is not None]
                mi = prog.module("parsing")

                def yields(v: ast.AST) -> bool:
                    if isinstance(v, ast.Call) and isinstance(v.func, ast.Name):
                        if v.func.id == typ and v.func.id not in mi.functions:
                            return True
                        q2 = prog.resolve_name(mi, v.func.id)
                        if q2 in prog.functions:
                            rr = prog.functions[q2].node.returns  # type: ignore[attr-defined]
                            return rr is not None and ast.unparse(rr) == typ
                    return False
                ok = bool(rets) and all(yields(x.value) for x in rets) and len(mfi.params()) == 2
                why = f"method returning {[ast.unparse(x.value) for x in rets]}"
        rep.check("R17.4", f"magnitude:{name}", ok, f"{why}: the accepted magnitude must be the builtin {typ} of the text", f"{ci.path}:{ci.node.lineno}")
    q = prog.method(TRANSFORMER, "quantity")
    if q:
        fi = prog.functions[q[0]]
        rets = [n for n in ast.walk(fi.node) if isinstance(n, ast.Return) and n.value is not None]
        ps = fi.params()
        ldefs = {n.targets[0].id: n.value for n in ast.walk(fi.node) if isinstance(n, ast.Assign) and len(n.targets) == 1 and isinstance(n.targets[0], ast.Name)}

        def through(v: ast.AST) -> ast.AST:
            return ldefs[v.id] if isinstance(v, ast.Name) and v.id in ldefs else v
        ok = all(isinstance(through(r.value), ast.Call) and ast.unparse(through(r.value).func) == "Quantity" and through(r.value).args  # type: ignore[attr-defined]
                 and ast.unparse(through(r.value).args[0]) == ps[1] for r in rets) and bool(rets) and ps[1] not in ldefs  # type: ignore[attr-defined]
        rep.check("R17.4", "quantity:passes-magnitude", ok, "the quantity callback does not pass the parsed magnitude through unchanged", fi.where())

    # R17.5
    n5 = 0
    for f in sorted(reach.reached):
        fi = prog.functions[f]
        if not prog.is_memoised(fi):
            continue
        typed = any("typed=True" in d.replace(" ", "") for d in fi.decorators)
        numeric = []
        mi2 = prog.modules[fi.module]
        anns = {a.arg: a.annotation for a in fi.node.args.args + fi.node.args.kwonlyargs}  # type: ignore[attr-defined]
        for p in fi.params():
            vals = set(reach.values.get((f, p), set()))
            if f in entries and anns.get(p) is not None:
                vals |= set(resolver.ann_alts(mi2, anns[p]))
            nums = {full for k, full in vals if k == "inst" and full in ("builtins.int", "builtins.float", "decimal.Decimal")}
            if len(nums) >= 2:      # one numeric type alone cannot conflate 5 and 5.0
                numeric.append(p)
        if numeric and not typed:
            n5 += 1
            rep.fail("R17.5", f"{f}:numeric-key", f"{f} is memoised without typed=True and is called with numbers for {numeric}: "
                     "5 and 5.0 share one cache slot, so the magnitude type depends on parse history", fi.where())
    # a memoised function on the parse path must not read the name/symbol registries
    from .c08 import NAMING
    from ..effects import reads_in
    for f in sorted(reach.reached):
        fi = prog.functions[f]
        if not prog.is_memoised(fi):
            continue
        sub = Reach(resolver, [f])
        regs = set()
        for g in sub.reached:
            for loc, node in reads_in(prog, resolver, g):
                if loc.split(".")[-1] in NAMING and sub.feasible_node(g, node):
                    regs.add(loc)
        if regs:
            n5 += 1
            rep.fail("R17.5", f"{f}:registry-memo", f"{f} is memoised but reads {sorted(regs)}: what a text parses to would be frozen "
                     "at its first parse", fi.where())
    if n5 == 0:
        rep.ok("R17.5", "parse-path", note="no memoised callback; memoised helpers are keyed by interned objects only")
    _unbounded_exponent(rep, prog, resolver, reach, ci, allowed)
    rep.trust("the embedded Lark runtime raises only LarkError subclasses for lexing/parsing failures; mypy call resolution")
    rep.not_decided.append("exceptions raised implicitly by the Lark runtime itself (trusted) and by float() (float('1e999') is inf, not an error)")
    rep.assume("dynamically typed arguments conform to declared annotations")


def _value_error_converted(prog: Program, resolver: Resolver, reach: Reach, f: str, node: ast.AST, allowed, seen: Set[str],
                           exc: str = "ValueError") -> Tuple[bool, str]:
    """Is a ValueError raised at `node` in f caught and re-raised as an allowed class, here
    or at every feasible call site of f on the parse path?"""
    fi = prog.functions[f]
    p = node
    while p is not None and p is not fi.node:
        par = getattr(p, "_parent", None)
        if isinstance(par, ast.Try) and any(p is s for s in par.body):
            for h in par.handlers:
                names = [exc_name(x) for x in (h.type.elts if isinstance(h.type, ast.Tuple) else [h.type])] if h.type is not None else ["BaseException"]
                supers = {"ValueError": ("ValueError",), "UnicodeEncodeError": ("UnicodeEncodeError", "UnicodeError", "ValueError"),
                          "UnicodeDecodeError": ("UnicodeDecodeError", "UnicodeError", "ValueError"),
                          "InvalidOperation": ("InvalidOperation", "DecimalException", "ArithmeticError"),
                          "OverflowError": ("OverflowError", "ArithmeticError")}.get(exc, (exc,))
                if any(nm in supers + ("Exception", "BaseException") for nm in names):
                    conv = any(isinstance(s, ast.Raise) and s.exc is not None and allowed(exc_name(s.exc)) for s in ast.walk(h))
                    return (conv, "caught here" if conv else "caught but not re-raised as ParseError/KeyError")
        p = par
    if f in seen:
        return True, "recursive"
    seen = seen | {f}
    callers = [(g, cs) for g in reach.reached for cs in reach.sites.get(g, []) if f in cs.targets]
    if not callers:
        return False, f"not caught in {f}, which is an entry point"
    for g, cs in callers:
        ok, why = _value_error_converted(prog, resolver, reach, g, cs.node, allowed, seen, exc)
        if not ok:
            return False, f"not caught in {f} nor in its caller {g}"
    return True, "caught by every caller"


def _anonymous_init_store(prog: Program, reach: Reach, f: str, node: ast.AST) -> bool:
    """`self.name = name` in a helper that, on the parse path, is only called by its own class's
    __init__ on `self` and only ever receives None there: the anonymous initialisation of a
    fresh object, not a renaming."""
    fi = prog.functions[f]
    tgt = node.targets[0] if isinstance(node, ast.Assign) and len(node.targets) == 1 else None
    val = getattr(node, "value", None)
    if not (isinstance(tgt, ast.Attribute) and isinstance(tgt.value, ast.Name) and fi.params() and tgt.value.id == fi.params()[0]):
        return False
    if isinstance(val, ast.Constant) and val.value is None:
        none_only = True
    elif isinstance(val, ast.Name) and val.id in fi.params():
        vals = reach.values.get((f, val.id))
        none_only = bool(vals) and all(k == "none" for k, _ in vals)
    else:
        none_only = False
    if not none_only:
        return False
    callers = [(g, cs) for g in reach.reached for cs in reach.sites.get(g, []) if f in cs.targets]
    return bool(callers) and all(prog.functions[g].name == "__init__" and prog.functions[g].cls == fi.cls and cs.receiver is not None
                                 and ast.unparse(cs.receiver) == prog.functions[g].params()[0] for g, cs in callers)


def _assert_infeasible(prog: Program, resolver: Resolver, rs) -> bool:
    """assert isinstance(x, T) where mypy already types x as (a subset of) T."""
    n = rs.node
    t = getattr(n, "test", None)
    if isinstance(t, ast.Call) and isinstance(t.func, ast.Name) and t.func.id == "isinstance" and len(t.args) == 2:
        fi = prog.functions[rs.func]
        alts = resolver.expr_alts(fi, t.args[0])
        mi = prog.modules[fi.module]
        want = set()
        ts = t.args[1]
        for e in (ts.elts if isinstance(ts, ast.Tuple) else [ts]):
            for k, full in resolver.ann_alts(mi, e):
                want.add(full)
        got = {full for k, full in alts if k == "inst"}
        if got and got <= want and all(k == "inst" for k, _ in alts):
            return True
    return False


def _unbounded_exponent(rep: Report, prog: Program, resolver: Resolver, reach: Reach, ci, allowed) -> None:
    """R17.9.  Sources: the int-annotated parameters of the transformer's callbacks (the parser hands them the
    exponents the exponent callbacks decoded: ints with as many digits as the text had).  Taint follows
    arguments through the resolved call sites of the parse path (calls, operator dunders); an expression is
    tainted when it is a tainted name or a sum / product / negation of one.  Sink: `a * b`, `a / b`, `a + b`,
    `a - b` or `a ** b` with one operand tainted and the other possibly a float - int-to-float coercion of an
    int beyond 1.8e308 raises OverflowError.  A sink is fine when that exception is caught and re-raised as
    ParseError / KeyError there or in every caller on the parse path."""
    tainted: Dict[str, Set[str]] = {}
    work: List[str] = []
    for mname, q in sorted(ci.methods.items()):
        fi = prog.functions.get(q)
        if fi is None or q not in reach.reached:
            continue
        a = fi.node.args  # type: ignore[attr-defined]
        names = {x.arg for x in a.posonlyargs + a.args + a.kwonlyargs if isinstance(x.annotation, ast.Name) and x.annotation.id == "int"}
        if names:
            tainted[q] = set(names)
            work.append(q)
    n_src = sum(len(v) for v in tainted.values())
    if not n_src:
        rep.ok("R17.9", "sources", note="no callback takes an int decoded from the text")
        return

    def is_t(f: str, e: ast.AST) -> bool:
        t = tainted.get(f, set())
        if isinstance(e, ast.Name):
            return e.id in t
        if isinstance(e, ast.UnaryOp) and isinstance(e.op, (ast.USub, ast.UAdd)):
            return is_t(f, e.operand)
        if isinstance(e, ast.BinOp) and isinstance(e.op, (ast.Mult, ast.Add, ast.Sub)):
            return is_t(f, e.left) or is_t(f, e.right)
        if isinstance(e, ast.Call) and isinstance(e.func, ast.Name) and e.func.id in ("abs", "int") and len(e.args) == 1:
            return is_t(f, e.args[0])
        return False

    def local_fix(f: str) -> None:
        fi = prog.functions[f]
        changed = True
        while changed:
            changed = False
            for n in Resolver._own_nodes(fi.node):
                if isinstance(n, (ast.Assign, ast.AnnAssign)) and getattr(n, "value", None) is not None and is_t(f, n.value):
                    for tg in (n.targets if isinstance(n, ast.Assign) else [n.target]):
                        if isinstance(tg, ast.Name) and tg.id not in tainted[f]:
                            tainted[f].add(tg.id)
                            changed = True

    seen_edges = 0
    while work:
        f = work.pop()
        local_fix(f)
        for cs in reach.sites.get(f, []):
            if cs.kind not in ("call", "binop"):
                continue
            for tq in cs.targets:
                tfi = prog.functions.get(tq)
                if tfi is None:
                    continue
                a = tfi.node.args  # type: ignore[attr-defined]
                pos = [x.arg for x in a.posonlyargs + a.args]
                implicit = 1 if (cs.kind == "binop" or cs.bound or (tfi.cls and not tfi.is_static and tq.rsplit(".", 1)[-1] in ("__init__", "__new__"))) else 0
                new = set()
                for i, arg in enumerate(cs.args):
                    if isinstance(arg, ast.Starred):
                        continue
                    if is_t(f, arg) and i + implicit < len(pos):
                        new.add(pos[i + implicit])
                for k, arg in cs.kwargs.items():
                    if k and is_t(f, arg):
                        new.add(k)
                if new - tainted.get(tq, set()):
                    tainted.setdefault(tq, set()).update(new)
                    seen_edges += 1
                    work.append(tq)
    n_sink = 0
    for f in sorted(tainted):
        fi = prog.functions[f]
        for n in Resolver._own_nodes(fi.node):
            if not (isinstance(n, ast.BinOp) and isinstance(n.op, (ast.Mult, ast.Div, ast.Add, ast.Sub, ast.Pow, ast.FloorDiv, ast.Mod))):
                continue
            for t_side, o_side in ((n.left, n.right), (n.right, n.left)):
                if not is_t(f, t_side) or is_t(f, o_side):
                    continue
                alts = resolver.expr_alts(fi, o_side)
                if not any(k == "inst" and full == "builtins.float" for k, full in alts):
                    continue
                n_sink += 1
                ok, why = _value_error_converted(prog, resolver, reach, f, n, allowed, set(), "OverflowError")
                rep.check("R17.9", f"{f}:{ast.unparse(n)[:40]}", ok,
                          f"`{ast.unparse(n)[:60]}` in {f} multiplies/combines an exponent of unbounded size read from the text "
                          f"({' -> '.join(reach.path_to(f)[-4:])}) with a value that can be a float: beyond 1.8e308 the int-to-float "
                          f"coercion raises OverflowError, which escapes parse() ({why}) - e.g. Unit.parse('kB^' + '9' * 400); only "
                          "ParseError and KeyError may", fi.where(n))
                break
    rep.analysed["unbounded_exponent"] = {"sources": n_src, "functions_reached_by_taint": len(tainted), "float_sinks": n_sink}
    if n_sink == 0:
        rep.ok("R17.9", "parse-path", note=f"{n_src} source parameter(s), {len(tainted)} functions carry the exponent, no arithmetic with a float")
