"""C20 - singletons stay singletons when constructed concurrently."""
from __future__ import annotations

import ast
from typing import Dict, List, Optional, Set, Tuple

from ..calls import Reach, Resolver
from ..cfg import CFG
from ..core import AnalysisError, Report
from ..effects import is_table, table_aliases, writes_in
from ..model import Program

TITLE = "Singletons stay singletons when constructed concurrently"
ARMED = ("Dimension", "Prefix", "Unit")
INVENTORY = ("Logarithm", "LogarithmicUnit")
KEY_ATTRS = {"Dimension": ["exponents"], "Prefix": ["base", "exponent"], "Unit": ["prefix", "factors", "dimension"]}


def module_locks(prog: Program) -> Set[str]:
    mi = prog.module("")
    out = set()
    for name, sts in mi.globals_assigned.items():
        for st in sts:
            v = getattr(st, "value", None)
            if isinstance(v, ast.Call) and ast.unparse(v.func).split(".")[-1] in ("Lock", "RLock"):
                out.add(name)
    return out


def with_lock_of(node: ast.AST, fn: ast.AST, locks: Set[str]) -> Optional[str]:
    p = getattr(node, "_parent", None)
    while p is not None and p is not fn:
        if isinstance(p, ast.With):
            for it in p.items:
                nm = ast.unparse(it.context_expr)
                if nm in locks:
                    return f"{nm}@{p.lineno}"
        p = getattr(p, "_parent", None)
    return None


def analyse_new(prog: Program, cls: str, locks: Set[str]) -> Tuple[bool, str, Dict[str, object]]:
    fi = prog.func(f"{cls}.__new__")
    fn = fi.node
    al = table_aliases(fn)
    tests = [n for n in ast.walk(fn) if isinstance(n, ast.Compare) and len(n.ops) == 1 and isinstance(n.ops[0], (ast.In, ast.NotIn))
             and is_table(n.comparators[0], al)]
    gets = [n for n in ast.walk(fn) if isinstance(n, ast.Call) and isinstance(n.func, ast.Attribute) and n.func.attr == "get"
            and is_table(n.func.value, al)]
    stores = [n for n in ast.walk(fn) if isinstance(n, ast.Assign)
              and any(isinstance(t, ast.Subscript) and is_table(t.value, al) for t in n.targets)]
    rebinds = [n for n in ast.walk(fn) if isinstance(n, (ast.Assign, ast.AugAssign))
               and any(isinstance(t, ast.Attribute) and t.attr == "_known" for t in (n.targets if isinstance(n, ast.Assign) else [n.target]))]
    setdefaults = [n for n in ast.walk(fn) if isinstance(n, ast.Call) and isinstance(n.func, ast.Attribute) and n.func.attr == "setdefault"
                   and is_table(n.func.value, al)]
    facts = {"membership_tests": len(tests) + len(gets), "stores": len(stores), "rebinds": len(rebinds), "setdefaults": len(setdefaults)}
    if rebinds:
        return False, ("the intern table is replaced as a whole (`" + ast.unparse(rebinds[0])[:60] + "`): a read-copy-update without a "
                       "lock loses a concurrent insertion"), facts
    # (b) setdefault whose result is what is returned for the fresh object
    if setdefaults and not stores:
        ok = True
        why = ""
        for sd in setdefaults:
            par = getattr(sd, "_parent", None)
            if isinstance(par, ast.Return):
                continue
            if isinstance(par, ast.Assign) and len(par.targets) == 1 and isinstance(par.targets[0], ast.Name):
                var = par.targets[0].id
                later = [r for r in ast.walk(fn) if isinstance(r, ast.Return) and r.lineno > par.lineno]
                if later and all(isinstance(r.value, ast.Name) and r.value.id == var for r in later):
                    continue
            ok = False
            why = "the result of setdefault() is not what __new__ returns: the loser of a race keeps its own object"
        # the fresh object must not be returned directly on any path
        fresh = {t.id for n in ast.walk(fn) if isinstance(n, ast.Assign) and isinstance(n.value, ast.Call)
                 and ast.unparse(n.value.func).endswith("__new__") for t in n.targets if isinstance(t, ast.Name)}
        for r in ast.walk(fn):
            if isinstance(r, ast.Return) and isinstance(r.value, ast.Name) and r.value.id in fresh:
                assigned_sd = any(isinstance(getattr(sd, "_parent", None), ast.Assign) and getattr(sd, "_parent").targets[0].id == r.value.id  # type: ignore[union-attr]
                                  for sd in setdefaults if isinstance(getattr(sd, "_parent", None), ast.Assign))
                if not assigned_sd:
                    ok = False
                    why = f"the freshly allocated `{r.value.id}` is returned on a path that does not go through setdefault()"
        return ok, why or "insertion is cls._known.setdefault(key, obj) and its result is returned", facts
    if not stores:
        return False, "the constructor tests membership but never inserts: insertion happens elsewhere, far from the test", facts
    # (a) test and insert inside one `with` on the same module-level lock
    wl = [with_lock_of(n, fn, locks) for n in tests + gets + stores]
    if wl and all(w is not None for w in wl) and len(set(wl)) == 1:
        return True, f"membership test and insertion are inside one `with {wl[0]}`", facts
    if setdefaults and stores:
        return False, "a plain store into the intern table remains next to setdefault()", facts
    return False, ("the membership test and the insertion are separate statements with no common lock: two threads can both miss "
                   "and both insert, ending with different objects for one key"), facts


def table_types(rep: Report, prog: Program) -> None:
    """R20.4: `dict.setdefault` is one atomic step only for the builtin dict (a C method under the GIL).
    A WeakValueDictionary, an OrderedDict subclass or any Python-level mapping implements it as a read
    followed by a store - and a weak table also lets the interned object disappear, so that a later
    evaluation makes a new one."""
    for cls in ARMED:
        ci = prog.cls(cls)
        v = ci.class_attrs.get("_known")
        val = getattr(v, "value", v)
        ok = isinstance(val, ast.Dict) and not val.keys or (isinstance(val, ast.Call) and ast.unparse(val.func) == "dict" and not val.args and not val.keywords)
        rep.check("R20.4", f"{cls}._known", bool(ok),
                  f"{cls}._known is initialised as `{ast.unparse(val)[:50] if val is not None else None}`, not a builtin dict: setdefault on it is not a single "
                  "atomic step, so two threads that both miss can each store their own object (and a weak table forgets interned objects)",
                  f"{ci.path}:{getattr(v, 'lineno', ci.node.lineno)}")


def lazy_publication(rep: Report, prog: Program, rid: str, classes: Tuple[str, ...]) -> None:
    """R20.9: units, prefixes, dimensions and logarithmic units are interned - one object, every thread.  A method that fills in
    attributes on first use (`if self._x is None: self._x = ..; self._y = ..`) publishes through its guard attribute: whoever
    finds the guard set skips the block.  The guard therefore has to be the *last* store of the block; set first, a second
    thread reads the other attributes while they still hold their defaults."""
    n = 0
    for q, fi in sorted(prog.functions.items()):
        if fi.cls not in classes or fi.module != "" or fi.name in ("__init__", "__new__", "__setstate__") or fi.is_static or fi.is_classmethod:
            continue
        me = fi.params()[0] if fi.params() else None
        if me is None:
            continue

        def self_attr(e: ast.AST) -> Optional[str]:
            return e.attr if isinstance(e, ast.Attribute) and isinstance(e.value, ast.Name) and e.value.id == me else None
        # a local that only names an attribute of the object (`ln_base = self._ln_base`) stands for it in the guard
        alias: Dict[str, str] = {}
        for st in ast.walk(fi.node):
            if isinstance(st, ast.Assign) and len(st.targets) == 1 and isinstance(st.targets[0], ast.Name) and self_attr(st.value):
                alias[st.targets[0].id] = self_attr(st.value)  # type: ignore[assignment]
        for node in ast.walk(fi.node):
            if not isinstance(node, ast.If):
                continue
            guards = set()
            for x in ast.walk(node.test):
                if isinstance(x, ast.Compare) and len(x.ops) == 1 and isinstance(x.ops[0], (ast.Is, ast.Eq)) and isinstance(x.left, ast.Name) and x.left.id in alias \
                        and isinstance(x.comparators[0], ast.Constant) and x.comparators[0].value is None:
                    guards.add(alias[x.left.id])
                if isinstance(x, ast.Compare) and len(x.ops) == 1 and isinstance(x.ops[0], (ast.Is, ast.Eq)) and self_attr(x.left) \
                        and isinstance(x.comparators[0], ast.Constant) and x.comparators[0].value is None:
                    guards.add(self_attr(x.left))
                if isinstance(x, ast.UnaryOp) and isinstance(x.op, ast.Not):
                    if self_attr(x.operand):
                        guards.add(self_attr(x.operand))
                    if isinstance(x.operand, ast.Call) and ast.unparse(x.operand.func) == "hasattr" and len(x.operand.args) == 2 \
                            and isinstance(x.operand.args[0], ast.Name) and x.operand.args[0].id == me and isinstance(x.operand.args[1], ast.Constant):
                        guards.add(str(x.operand.args[1].value))
            if not guards:
                continue
            stores: List[Tuple[int, str, ast.stmt]] = []
            for i, st in enumerate(node.body):
                for x in ast.walk(st):
                    tg = x.targets if isinstance(x, ast.Assign) else ([x.target] if isinstance(x, (ast.AugAssign, ast.AnnAssign)) else [])
                    for t in tg:
                        for el in (t.elts if isinstance(t, (ast.Tuple, ast.List)) else [t]):
                            a = self_attr(el)
                            if a:
                                stores.append((i, a, st))
            gset = [(i, a, st) for i, a, st in stores if a in guards]
            if not gset:
                continue
            n += 1
            first_guard = min(i for i, _, _ in gset)
            late = [(i, a, st) for i, a, st in stores if a not in guards and i > first_guard]
            rep.check(rid, f"{q}:lazy {','.join(sorted(guards))}", not late,
                      f"{q} fills in {sorted({a for _, a, _ in stores})} on first use and sets the guard `{me}.{gset[0][1]}` before "
                      f"`{ast.unparse(late[0][2])[:60] if late else ''}`: {fi.cls} objects are shared by every thread, and a second caller that finds the guard set "
                      "uses the other attribute while it still holds its default (a decibel level comes out as 2.0 instead of 20)", fi.where(gset[0][2]))
    if n == 0:
        rep.ok(rid, "package", note=f"no lazily initialised attributes on {', '.join(classes)} objects")


def run(rep: Report) -> None:
    prog = Program()
    resolver = Resolver(prog)
    rep.rule("R20.4", "the intern tables are builtin dicts (the only mapping whose setdefault is atomic under the GIL)", floor=3)
    table_types(rep, prog)
    rep.rule("R20.1", "atomic intern: in Dimension/Prefix/Unit.__new__ the membership test and the insertion into _known are one "
             "atomic step (one `with` on a module-level lock, or cls._known.setdefault(key, obj) whose result is returned)", floor=3)
    rep.rule("R20.1i", "inventory: the same rule on Logarithm / LogarithmicUnit (not covered by the property's statement)", armed=False)
    rep.rule("R20.2", "the memoised operator helpers are functools.lru_cache wrappers around functions with no shared effect "
             "other than interning calls", floor=6)
    rep.rule("R20.3", "no other test-then-write on an intern table outside the constructors (Dimension.define's definition-time "
             "resize is listed)", floor=1)
    rep.rule("R20.8", "a lock taken with acquire() is released in a finally on every path", floor=1)
    rep.rule("R20.9", "lazy initialisation on an interned object publishes its guard attribute last", floor=1)
    lazy_publication(rep, prog, "R20.9", ("Dimension", "Prefix", "Unit", "Logarithm", "LogarithmicUnit"))
    rep.rule("R20.7", "no function assigns a class attribute of the core classes at run time (shared state outside the dict tables)", floor=1)
    rep.rule("R20.6", "self._initialized = True comes after the assignments of the key attributes on every path of __init__ (it is what lets other threads skip __init__)", floor=3)
    rep.rule("R20.5", "in the interning classes' __init__ every attribute an intern key is built from is assigned once on each path (no provisional "
             "value on an object other threads can already see)", floor=5)
    locks = module_locks(prog)
    for cls in ARMED:
        ok, why, facts = analyse_new(prog, cls, locks)
        fi = prog.func(f"{cls}.__new__")
        rep.check("R20.1", f"{cls}.__new__", ok, f"{cls}.__new__: {why}", fi.where(), note={"why": why, **facts})
        # the interned result must not depend on anything done after __new__ (registration deferred to __init__)
        init = prog.func(f"{cls}.__init__")
        late = [w for w in writes_in(prog, resolver, init.qual) if w.location.endswith("._known")]
        rep.check("R20.1", f"{cls}.__init__:no-late-registration", not late,
                  f"{cls}.__init__ writes the intern table: registration happens long after the membership test in __new__",
                  init.where(late[0].node if late else None))
    # R20.5: the object is in the intern table - visible to every thread - before __init__ runs, and a thread that gets it
    # with _initialized still False runs __init__ on it again.  Re-running is harmless only while each attribute the intern
    # keys are computed from goes straight to its final value: a provisional value (a default overwritten two lines later)
    # is what another thread reads when it builds the key of a product, and the product is interned under a wrong key.
    for cls in ARMED:
        init = prog.func(f"{cls}.__init__")
        newp = prog.func(f"{cls}.__new__").params()
        keys = [a for a in KEY_ATTRS[cls] if a in newp]
        if not keys:
            raise AnalysisError(f"{cls}.__new__ no longer takes {KEY_ATTRS[cls]} (anchor of R20.5 moved)")
        cfg = CFG(init.node)
        for a in keys:
            sts = []
            for st in ast.walk(init.node):
                tg = st.targets if isinstance(st, ast.Assign) else ([st.target] if isinstance(st, (ast.AnnAssign, ast.AugAssign)) and getattr(st, "value", None) is not None else [])
                tg = [x for t in tg for x in (t.elts if isinstance(t, (ast.Tuple, ast.List)) else [t])]
                if any(isinstance(t, ast.Attribute) and isinstance(t.value, ast.Name) and t.value.id == "self" and t.attr == a for t in tg):
                    sts.append(st)
            again = None
            for x in sts:
                nx = cfg.node_of(x)
                if nx is None:
                    continue
                after = cfg.reachable_after(nx)
                for y in sts:
                    ny = cfg.node_of(y)
                    if y is not x and ny is not None and ny in after:
                        again = (x, y)
            rep.check("R20.5", f"{cls}.__init__:self.{a}", again is None and bool(sts),
                      (f"{cls}.__init__ assigns self.{a} at line {again[0].lineno} and again at line {again[1].lineno}: between the two, every other thread "
                       f"holding this (already interned) object reads the provisional value - and a thread re-running __init__ on an object "
                       "another thread already uses puts it back - so keys built from it intern a second, bogus object") if again else
                      f"{cls}.__init__ never assigns self.{a}", init.where(again[1] if again else None))
    # R20.8: a lock taken with acquire() is given back on every exit: release() in a `finally` (or a `with`).  A definition
    # that is rejected (ValueError) otherwise leaves the lock held, and every other thread that constructs something blocks
    # inside __init__ with its object already interned - it never obtains the singleton
    n8 = 0
    for q, fi8 in sorted(prog.functions.items()):
        if fi8.module in ("hypothesis", "pytest", "_parser"):
            continue
        for c in ast.walk(fi8.node):
            if not (isinstance(c, ast.Call) and isinstance(c.func, ast.Attribute) and c.func.attr == "acquire"):
                continue
            lock = ast.unparse(c.func.value)
            n8 += 1
            safe = False
            host = c
            while host is not None and host is not fi8.node:
                host = getattr(host, "_parent", None)
                if isinstance(host, ast.Try) and any(isinstance(r, ast.Call) and isinstance(r.func, ast.Attribute) and r.func.attr == "release"
                                                      and ast.unparse(r.func.value) == lock for st in host.finalbody for r in ast.walk(st)):
                    safe = True
            if not safe:
                # acquire() just before a try whose finally releases
                for t in ast.walk(fi8.node):
                    if isinstance(t, ast.Try) and t.lineno > c.lineno and any(
                            isinstance(r, ast.Call) and isinstance(r.func, ast.Attribute) and r.func.attr == "release" and ast.unparse(r.func.value) == lock
                            for st in t.finalbody for r in ast.walk(st)):
                        between = [x for x in ast.walk(fi8.node) if isinstance(x, ast.Call) and c.lineno < getattr(x, "lineno", 0) < t.lineno]
                        safe = not between
            rep.check("R20.8", f"{q}:{lock}.acquire()", safe,
                      f"{q} takes `{lock}` with acquire() and releases it outside a `finally`: an exception in between (a rejected definition) leaves the lock "
                      "held for good, and every other thread blocks in the middle of a construction", fi8.where(c))
    if n8 == 0:
        rep.ok("R20.8", "package", note="no explicit acquire(): locks, if any, are used through `with`")
    # R20.7: a class attribute assigned at run time is process-wide state shared by all threads, and two such stores (or a
    # store and the read that goes with it) are never one step: a one-slot memo kept there hands one thread the unit another
    # thread just looked up.  The only shared state the construction and lookup paths may write are the dict tables, through
    # single-step dict operations.
    core_classes = {ci.name for ci in prog.classes.values() if ci.module == ""}
    n7 = 0
    for q, fi7 in sorted(prog.functions.items()):
        if fi7.module in ("hypothesis", "pytest", "_parser"):
            continue
        for st in Resolver._own_nodes(fi7.node):
            tg = st.targets if isinstance(st, ast.Assign) else ([st.target] if isinstance(st, (ast.AugAssign, ast.AnnAssign)) and getattr(st, "value", None) is not None else [])
            for t in [x for t_ in tg for x in (t_.elts if isinstance(t_, (ast.Tuple, ast.List)) else [t_])]:
                if isinstance(t, ast.Attribute) and isinstance(t.value, ast.Name) and (
                        (t.value.id == "cls" and fi7.is_classmethod) or (t.value.id in core_classes and t.value.id not in fi7.params())):
                    n7 += 1
                    rep.fail("R20.7", f"{q}:{ast.unparse(t)}", f"{q} assigns the class attribute `{ast.unparse(t)}` at run time: state shared by every thread, written "
                             "and read in separate steps (a thread can be handed what another thread just stored there)", fi7.where(st))
    if n7 == 0:
        rep.ok("R20.7", "package", note="no function assigns a class attribute of the core classes")
    # R20.6: `_initialized = True` tells every other thread holding the (already interned) object that it may skip __init__ and
    # use it: on every path it must come after the assignments of the attributes the object is used through
    for cls in ARMED:
        init = prog.func(f"{cls}.__init__")
        cfg = CFG(init.node)
        stores: Dict[int, Set[str]] = {}
        for st in ast.walk(init.node):
            tg = st.targets if isinstance(st, ast.Assign) else ([st.target] if isinstance(st, (ast.AnnAssign, ast.AugAssign)) and getattr(st, "value", None) is not None else [])
            tg = [x for t in tg for x in (t.elts if isinstance(t, (ast.Tuple, ast.List)) else [t])]
            names = {t.attr for t in tg if isinstance(t, ast.Attribute) and isinstance(t.value, ast.Name) and t.value.id == "self"}
            nid = cfg.node_of(st)
            if names and nid is not None:
                stores.setdefault(nid, set()).update(names)
        must = cfg.must_before(stores)
        keys = [a for a in KEY_ATTRS[cls] if any(a in v for v in stores.values())]
        flags = [(nid, v) for nid, v in stores.items() if "_initialized" in v]
        if not flags:
            rep.ok("R20.6", f"{cls}.__init__", note="no _initialized flag")
            continue
        for nid, v in flags:
            node = cfg.nodes[nid].ast
            # only a store of True publishes
            val = getattr(node, "value", None)
            if not (isinstance(val, ast.Constant) and val.value is True):
                continue
            have = must.get(nid, set()) | (v - {"_initialized"})
            missing = [a for a in keys if a not in have]
            rep.check("R20.6", f"{cls}.__init__:line {getattr(node, 'lineno', 0)}", not missing,
                      f"{cls}.__init__ sets self._initialized = True before self.{', self.'.join(missing)} is assigned: a second thread that receives the "
                      "interned object in that window skips __init__ and uses an object without those attributes (AttributeError instead of the singleton)",
                      init.where(node))
    for cls in INVENTORY:
        ok, why, facts = analyse_new(prog, cls, locks)
        rep.inventory("R20.1i", {"class": cls, "atomic": ok, "why": why, **facts})
    # R20.2
    for q, fi in sorted(prog.functions.items()):
        if fi.module != "" or not prog.is_memoised(fi):
            continue
        direct = any(d.split("(")[0].split(".")[-1] in ("lru_cache", "cache") for d in fi.decorators)
        ws = [w for w in writes_in(prog, resolver, q)]
        # helpers it calls (context-pruned), apart from the interning constructors themselves
        sub = Reach(resolver, [q])
        for g in sorted(sub.reached):
            gi = prog.functions[g]
            if g == q or gi.name in ("__new__", "__init__") or g == "Prefix._register":
                continue
            ws += [w for w in writes_in(prog, resolver, g) if sub.feasible_node(g, w.node) and not w.location.startswith("attr:")]
        rep.check("R20.2", q, direct and not ws,
                  f"{q}: " + ("memoised through a custom wrapper (thread coherence unknown)" if not direct else
                              f"writes shared state {sorted({w.location for w in ws})} inside a memoised function"), fi.where())
    # R20.3
    n3 = 0
    # functions that only Dimension.define calls (its own helpers) run at definition time as well
    callers: Dict[str, Set[str]] = {}
    for q0 in prog.functions:
        for cs in resolver.callsites(q0):
            for t in cs.targets:
                callers.setdefault(t, set()).add(q0)
    definition_time = {"Dimension.define"}
    grew = True
    while grew:
        grew = False
        for t, cs_ in callers.items():
            if t not in definition_time and cs_ and cs_ <= definition_time and prog.functions[t].cls == "Dimension" \
                    and prog.functions[t].name.startswith("_") and not prog.functions[t].name.startswith("__"):
                definition_time.add(t)
                grew = True
    for q, fi in prog.functions.items():
        if fi.name == "__new__":
            continue       # the shipped test helpers (measured.pytest, measured.hypothesis) are package code like any other
        ws = [w for w in writes_in(prog, resolver, q) if w.location.endswith("._known")]
        if not ws:
            continue
        n3 += 1
        if q in definition_time:
            rep.ok("R20.3", q, note="definition-time resize of every key (listed, not armed: happens while fundamental dimensions are declared)")
        else:
            rep.fail("R20.3", q, f"{q} writes an intern table outside the interning constructors ({ws[0].how})", fi.where(ws[0].node))
    if n3 == 0:
        raise AnalysisError("Dimension.define no longer resizes the intern table (R20.3 anchor moved)")
    rep.analysed.update({"module_locks": sorted(locks), "constructors": list(ARMED) + list(INVENTORY)})
    rep.assume("dict.setdefault on keys with C-level hash/eq (tuples of ints / identity-hashed objects) is one atomic step under "
               "CPython's GIL; functools.lru_cache is thread-coherent")
    rep.not_decided.append("visibility of a partially initialised object between __new__ and the end of __init__ (not part of the property)")
    rep.trust("CPython GIL semantics at bytecode granularity")
