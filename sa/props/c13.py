"""C13 - str() output parses back to the same unit/quantity; spellings are equivalent."""
from __future__ import annotations

import ast
import re
from fractions import Fraction
from typing import Dict, List, Optional, Set, Tuple

from ..calls import Reach, Resolver
from ..core import AnalysisError, Report, rel
from ..decl import Evaluator, Pfx, UnitV
from ..effects import reads_in
from ..grammar import Driver, Tables, build_reference, extract_shipped, normalise
from ..model import Program
from ..num import Num
from ..strlang import Lang, StrAbs, instantiate, shape
from .c09 import evaluate

TITLE = "str() output parses back to the same unit/quantity; spellings are equivalent"


def symbol_regex(t: Tables) -> "re.Pattern[str]":
    term = t.terminals.get("SYMBOL")
    if term is None:
        raise AnalysisError("terminal SYMBOL not found in the shipped tables")
    return re.compile(term[1])


def resolve(ev: Evaluator, text: str) -> Tuple[str, Optional[UnitV], Optional[Pfx]]:
    """Unit.resolve_symbol on E5's registries: exact symbol; first prefix+symbol split; name."""
    if text in ev.unit_by_symbol:
        return "symbol", ev.unit_by_symbol[text], None
    for i in range(1, len(text)):
        p = ev.prefix_by_symbol.get(text[:i])
        u = ev.unit_by_symbol.get(text[i:])
        if p is not None and u is not None:
            return "split", u, p
    if text in ev.unit_by_name:
        return "name", ev.unit_by_name[text], None
    return "unknown", None, None


def same_value(ev: Evaluator, p1: Optional[Pfx], u1: UnitV, p2: Optional[Pfx], u2: UnitV) -> Optional[bool]:
    if u1.dimension is not u2.dimension:
        return False
    r = ev.sizes.size_ratio(u1, u2)
    if r is None:
        return None
    v = r * (p1.value() if p1 else Num(Fraction(1))) / (p2.value() if p2 else Num(Fraction(1)))
    return abs(v.dec() - 1) < Fraction(1, 10 ** 9)


def check_resolve_order(rep: Report, prog: Program) -> None:
    """The model of resolve_symbol used by R13.2 must be the code's: exact symbol, then the first
    prefix+symbol split, then name, else KeyError.  Decided by walking the function under each of the
    eight truth assignments to (exact symbol registered, some split resolves, name registered) and
    looking at what it returns - not at how the statements are arranged."""
    fi = prog.func("Unit.resolve_symbol")
    ps = fi.params()
    text = ps[1] if len(ps) > 1 else "symbol"

    class _Done(Exception):
        def __init__(self, kind: str) -> None:
            self.kind = kind
    # locals that only name a registry: `by_symbol = cls._by_symbol`
    reg_alias: Dict[str, str] = {}
    for n_ in ast.walk(fi.node):
        if isinstance(n_, ast.Assign) and len(n_.targets) == 1 and isinstance(n_.targets[0], ast.Name) and isinstance(n_.value, ast.Attribute) \
                and n_.value.attr in ("_by_symbol", "_by_name"):
            reg_alias[n_.targets[0].id] = ast.unparse(n_.value)

    def classify(v: Optional[ast.AST], env: Dict[str, str]) -> str:
        if v is None or (isinstance(v, ast.Constant) and v.value is None):
            return "none"
        if isinstance(v, ast.Name) and v.id in env:
            return env[v.id]
        t = ast.unparse(v).replace(" ", "")
        for al_, full_ in reg_alias.items():
            t = t.replace(f"{al_}[", f"{full_}[")
        if isinstance(v, ast.BinOp) and isinstance(v.op, ast.Mult):
            return "split"
        if "_by_symbol[" + text + "]" in t:
            return "symbol"
        if "_by_name[" + text + "]" in t or ".named(" + text + ")" in t:
            return "name"
        return "other:" + t[:30]

    def truth(t: ast.AST, facts: Dict[str, bool], env: Optional[Dict[str, str]] = None) -> Optional[bool]:
        if isinstance(t, ast.UnaryOp) and isinstance(t.op, ast.Not):
            v = truth(t.operand, facts, env)
            return None if v is None else not v
        # a local that holds what a helper found (or None)
        if env is not None and isinstance(t, ast.Name) and t.id in env and not env[t.id].startswith("other:"):
            return env[t.id] != "none"
        if env is not None and isinstance(t, ast.Compare) and len(t.ops) == 1 and isinstance(t.ops[0], (ast.Is, ast.IsNot)) \
                and isinstance(t.left, ast.Name) and t.left.id in env and not env[t.left.id].startswith("other:") \
                and isinstance(t.comparators[0], ast.Constant) and t.comparators[0].value is None:
            isnone = env[t.left.id] == "none"
            return isnone if isinstance(t.ops[0], ast.Is) else not isnone
        if isinstance(t, ast.Compare) and len(t.ops) == 1 and isinstance(t.ops[0], (ast.In, ast.NotIn)) and ast.unparse(t.left) == text:
            reg = ast.unparse(t.comparators[0])
            reg = reg_alias.get(reg, reg)
            v = facts["S"] if reg.endswith("_by_symbol") else (facts["N"] if reg.endswith("_by_name") else None)
            return None if v is None else (v if isinstance(t.ops[0], ast.In) else not v)
        return None

    def may_fail(st: ast.stmt) -> bool:
        """a lookup of a *piece* of the text (raises KeyError when no split resolves)"""
        t = ast.unparse(st)
        for al_, full_ in reg_alias.items():
            t = t.replace(f"{al_}[", f"{full_}[")
        return ("Prefix.resolve_symbol(" in t or "_by_symbol[" in t) and f"[{text}]" not in t.replace(" ", "")

    def helper_kind(v: ast.AST, facts: Dict[str, bool]) -> Optional[str]:
        """`cls._resolve_prefixed_symbol(symbol)`: what a method of Unit that is handed the whole text returns under these facts"""
        nonlocal text
        if not (isinstance(v, ast.Call) and isinstance(v.func, ast.Attribute) and isinstance(v.func.value, ast.Name)
                and v.func.value.id in ("cls", "Unit") and f"Unit.{v.func.attr}" in prog.functions and not v.keywords
                and len(v.args) == 1 and isinstance(v.args[0], ast.Name) and v.args[0].id == text):
            return None
        h = prog.functions[f"Unit.{v.func.attr}"]
        if h.qual == fi.qual or len(h.params()) != 2:
            return None
        saved = text
        text = h.params()[1]
        try:
            hb = [x for x in h.node.body if not (isinstance(x, ast.Expr) and isinstance(x.value, ast.Constant))]  # type: ignore[attr-defined]
            try:
                run(hb, facts, {})
                return "none"
            except _Done as d:
                if d.kind == "raise":
                    raise AnalysisError(f"Unit.resolve_symbol: helper {h.qual} raises; outside the resolution-order walker")
                return d.kind
        finally:
            text = saved

    def run(body: List[ast.stmt], facts: Dict[str, bool], env: Dict[str, str]) -> str:
        """-> 'fall' | 'continue' ; raises _Done for return/raise"""
        for st in body:
            if isinstance(st, ast.Expr):
                continue
            if isinstance(st, ast.Return):
                raise _Done(classify(st.value, env))
            if isinstance(st, ast.Raise):
                raise _Done("raise")
            if isinstance(st, ast.Assign) and len(st.targets) == 1 and isinstance(st.targets[0], ast.Name):
                hk = helper_kind(st.value, facts)
                env[st.targets[0].id] = hk if hk is not None else classify(st.value, env)
                continue
            if isinstance(st, (ast.Assign, ast.AnnAssign)):
                continue
            if isinstance(st, ast.If):
                v = truth(st.test, facts, env)
                if v is None:
                    raise AnalysisError(f"Unit.resolve_symbol: cannot decide `{ast.unparse(st.test)[:40]}` from the registration facts")
                r = run(st.body if v else st.orelse, facts, env)
                if r == "continue":
                    return r
                continue
            if isinstance(st, ast.For):
                r = run(st.body, facts, env)   # one representative iteration: the split that resolves, if any
                if st.orelse and r != "break":
                    run(st.orelse, facts, env)
                continue
            if isinstance(st, ast.Try):
                fails = any(may_fail(x) for x in st.body)
                if fails and not facts["P"]:
                    handlers = [h for h in st.handlers if h.type is None or "KeyError" in ast.unparse(h.type) or "LookupError" in ast.unparse(h.type)]
                    if not handlers:
                        raise _Done("raise")
                    r = run(handlers[0].body, facts, env)
                    if r == "continue":
                        return r
                else:
                    r = run(st.body, facts, env)
                    if r == "continue":
                        return r
                    r = run(st.orelse, facts, env)
                    if r == "continue":
                        return r
                continue
            if isinstance(st, ast.Continue):
                return "continue"
            if isinstance(st, ast.Break):
                return "break"
            if isinstance(st, ast.Pass):
                continue
            raise AnalysisError(f"Unit.resolve_symbol: statement `{ast.unparse(st)[:40]}` is outside the resolution-order walker")
        return "fall"
    body = [x for x in fi.node.body if not (isinstance(x, ast.Expr) and isinstance(x.value, ast.Constant))]  # type: ignore[attr-defined]
    got: Dict[Tuple[bool, bool, bool], str] = {}
    for S in (True, False):
        for P in (True, False):
            for N in (True, False):
                try:
                    run(body, {"S": S, "P": P, "N": N}, {})
                    got[(S, P, N)] = "fall"
                except _Done as d:
                    got[(S, P, N)] = d.kind
    want = {(S, P, N): ("symbol" if S else "split" if P else "name" if N else "raise") for S in (True, False) for P in (True, False) for N in (True, False)}
    diff = {k: (got[k], want[k]) for k in want if got[k] != want[k]}
    rep.check("R13.2", "Unit.resolve_symbol:order", not diff,
              f"Unit.resolve_symbol does not resolve in the order exact symbol, first prefix+symbol split, name, KeyError: for (symbol registered, "
              f"a split resolves, name registered) = {list(diff)[:2]} it yields {[v[0] for v in diff.values()][:2]} where the symbol-table analysis assumes "
              f"{[v[1] for v in diff.values()][:2]}", fi.where())


def symbol_table(rep: Report, ev: Evaluator, sym: "re.Pattern[str]", thorough: bool, rid1: str = "R13.1", rid2: str = "R13.2",
                 consequence: str = "rendering and parsing back changes the physical value") -> None:
    # R13.1
    for s, u in sorted(ev.unit_by_symbol.items()):
        rep.check(rid1, f"unit-symbol:{s}", bool(sym.fullmatch(s)), f"unit symbol {s!r} ({u.name}) does not match the SYMBOL terminal "
                  "of the grammar: str() of the unit cannot be parsed", u.where)
    for s, p in sorted(ev.prefix_by_symbol.items()):
        rep.check(rid1, f"prefix-symbol:{s}", bool(sym.fullmatch(s)), f"prefix symbol {s!r} does not match the SYMBOL terminal", p.where)
    # R13.2: every prefix x unit spelling resolves to itself or to an equal-valued unit
    base_syms = {s: u for s, u in ev.unit_by_symbol.items()}
    n = 0
    for ps, p in sorted(ev.prefix_by_symbol.items()):
        for us, u in sorted(base_syms.items()):
            text = ps + us
            how, ru, rp = resolve(ev, text)
            n += 1
            ok = True
            why = ""
            if ru is None:
                ok, why = False, "does not resolve"
            elif how == "split" and ru is u and rp is p:
                ok = True
            else:
                sv = same_value(ev, p, u, rp, ru)
                if sv is not True:
                    ok = False
                    target = (f"{rp.name}-" if rp else "") + str(ru.name)
                    why = (f"resolves ({how}) to {target}, "
                           + ("a unit of a different dimension or size" if sv is False else "whose size relative to it is not determined"))
            if ok:
                if n <= 6:
                    rep.ok(rid2, f"{p.name}+{u.name}")
                else:
                    r = rep.rules[rid2]
                    r.instances += 1
                    r.discharged += 1
            else:
                rep.fail(rid2, f"symbol:{text}={p.name}*{u.name}",
                         f"str({p.name} * {u.name}) is {text!r}, which {why}: {consequence}",
                         u.where)
    # names that lex as one SYMBOL must resolve to their own unit
    for nm, u in sorted(ev.unit_by_name.items()):
        if not sym.fullmatch(nm):
            rep.inventory(rid2, {"name_not_spellable_in_the_grammar": nm})
            continue
        how, ru, rp = resolve(ev, nm)
        ok = ru is u and rp is None
        if not ok and ru is not None:
            ok = same_value(ev, None, u, rp, ru) is True
        rep.check(rid2, f"name:{nm}", ok, f"the registered name {nm!r} is shadowed: it resolves ({how}) to "
                  f"{(rp.name + '-') if rp else ''}{ru.name if ru else None}", u.where)
    # prefixes share no symbol (the table keeps one)
    seen: Dict[str, str] = {}
    for p, name, symbol, module, where in ev.prefix_decls:
        if symbol and p is not None:
            ident = f"{p.base}**{p.exponent}"
            if symbol in seen and seen[symbol] != ident:
                rep.fail(rid2, f"prefix-symbol-shared:{symbol}", f"prefix symbol {symbol!r} is declared for {seen[symbol]} and {ident}", where)
            seen.setdefault(symbol, ident)


def formatter_language(rep: Report, prog: Program, resolver: Resolver, ev: Evaluator, tables: Tables, thorough: bool) -> None:
    sa = StrAbs(prog, resolver)
    drv = Driver(tables)
    wtables = {
        "PREFIX_SYMBOL": sorted(ev.prefix_by_symbol),
        "UNIT_SYMBOL": sorted(s for s, u in ev.unit_by_symbol.items() if u.is_base and u.symbols and u.symbols[0] == s),
    }
    missing = [u.name or str(u.uid) for u in ev.unit_by_id.values() if u.is_base and not u.symbols]
    rep.check("R13.3", "base-units-have-symbols", not missing, f"base units without a symbol (their factor renders as 'None'): {missing[:3]}", "")
    total = 0
    for func, start in (("formatting.unit_str", "unit"), ("formatting.quantity_str", "quantity")):
        lang = sa.function(func)
        rep.analysed.setdefault("formatter_language", {})[func] = [shape(a) for a in lang.alts]
        bad: Dict[str, Tuple[str, str]] = {}
        n_ok = 0
        for a in lang.alts:
            if any(it[0] == "cls" and it[1] == "DECIMAL" for it in a):
                continue   # the property quantifies over int and float magnitudes; Decimal text is C15's concern
            for text, spans in instantiate(a, wtables, sa.superscripts, thorough):
                total += 1
                ok, msg, pos = drv.parse_at(text, start)
                if ok:
                    n_ok += 1
                    continue
                piece = next(((c, r) for s0, e0, c, r in spans if s0 <= pos < e0), None)
                if piece is None:
                    piece = next(((c, r) for s0, e0, c, r in reversed(spans) if s0 <= pos), ("end", "end"))
                # a token error is reported where lexing stops; attribute it to the first piece the grammar has no rule for
                key = f"{func.split('.')[-1]}:{piece[0]}@{piece[1]}"
                bad.setdefault(key, (text, msg))
        for key, (text, msg) in sorted(bad.items()):
            rep.fail("R13.3", key, f"{func} can emit {text!r}, which the `{start}` grammar rejects ({msg}): the piece "
                     f"{key.split(':')[1]} has no counterpart in the grammar", prog.func(func).where())
        rep.ok("R13.3", f"{func}:accepted", note={"witnesses_accepted": n_ok})
    rep.analysed["formatter_witnesses"] = total


def tables_rule(rep: Report, prog: Program, resolver: Resolver, tables: Tables) -> None:
    sa = StrAbs(prog, resolver)
    sup = sa.superscripts
    term = tables.terminals.get("SUPERSCRIPT_EXPONENT")
    if term is None:
        raise AnalysisError("terminal SUPERSCRIPT_EXPONENT not found")
    rx = re.compile(term[1])
    # the image of str(int) characters
    for ch in "-0123456789":
        img = sup.get(ch)
        ok = img is not None and (rx.fullmatch(img + sup.get("1", "")) if ch == "-" else rx.fullmatch(img)) is not None
        rep.check("R13.4", f"SUPERSCRIPTS[{ch}]", bool(ok), f"SUPERSCRIPTS[{ch!r}] = {img!r} is not accepted by the grammar's "
                  "SUPERSCRIPT_EXPONENT: an exponent rendered by str() cannot be read back", "src/measured/formatting.py")
    rep.check("R13.4", "minus-only-leading", rx.fullmatch(sup.get("2", "") + sup.get("-", "")) is None and
              rx.fullmatch(sup.get("-", "") + sup.get("2", "")) is not None,
              "the superscript minus must be accepted in first position only", "src/measured/measured.lark")
    # DIGITS inverts SUPERSCRIPTS on that alphabet
    mi = prog.module("formatting")
    d = mi.globals_assigned.get("DIGITS")
    from ..strlang import eval_module_tables
    tabs = eval_module_tables(mi.tree)
    dg = tabs.get("DIGITS")
    inv_ok = bool(d) and isinstance(dg, dict) and all(dg.get(sup.get(c)) == c for c in "-0123456789")
    vals = [sup[c] for c in "-0123456789"]
    rep.check("R13.4", "DIGITS-inverts", inv_ok and len(set(vals)) == len(vals),
              "DIGITS is not the inverse of SUPERSCRIPTS on the exponent alphabet (or two characters share a superscript)",
              "src/measured/formatting.py")
    # from_superscript uses DIGITS and int
    fs = prog.func("formatting.from_superscript")
    txt = ast.unparse(fs.node)
    rep.check("R13.4", "from_superscript", ("DIGITS[" in txt or "DIGITS.__getitem__" in txt) and "int(" in txt, "from_superscript does not decode through DIGITS into int",
              fs.where())
    # join separator is one of _MULTIPLY's alternatives
    mul = tables.terminals.get("_MULTIPLY")
    seps = set()
    for q in ("formatting.unit_str", "formatting.quantity_str"):
        for n in ast.walk(prog.func(q).node):
            if isinstance(n, ast.Call) and isinstance(n.func, ast.Attribute) and n.func.attr == "join" and isinstance(n.func.value, ast.Constant):
                seps.add(n.func.value.value)
    for sp in sorted(seps):
        rep.check("R13.4", f"separator:{sp}", mul is not None and re.fullmatch(mul[1], sp) is not None,
                  f"the formatter joins terms with {sp!r}, which _MULTIPLY does not accept", "src/measured/formatting.py")


def spellings(rep: Report, prog: Program, tables: Tables) -> None:
    """R13.5: alternatives of one rule differ only in filtered tokens or in aliases whose
    callbacks produce the same type from the same digits."""
    by_origin: Dict[str, List[Tuple]] = {}
    for r in tables.rules:
        by_origin.setdefault(r[0], []).append(r)
    ci = prog.cls("parsing.QuantityTransformer")
    for origin, rs in sorted(by_origin.items()):
        if origin.startswith("__") or len(rs) < 2:
            continue
        cbs = {(r[2] or origin) for r in rs}
        if len(cbs) == 1:
            rep.ok("R13.5", f"rule:{origin}", note="one callback for all alternatives; they differ in filtered tokens / repetition only")
            continue
        rets = set()
        for cb in cbs:
            qs = prog.method("parsing.QuantityTransformer", cb)
            if qs and qs[0] in prog.functions:
                r0 = prog.functions[qs[0]].node.returns  # type: ignore[attr-defined]
                rets.add(ast.unparse(r0) if r0 is not None else "?")
            else:
                rhs = ci.aliases.get(cb)
                rets.add(ast.unparse(rhs.args[0]) if isinstance(rhs, ast.Call) and rhs.args else "?")
        same = len(rets) == 1 or (origin == "magnitude" and rets <= {"int", "float", "Numeric"})
        rep.check("R13.5", f"rule:{origin}", same, f"alternatives of `{origin}` go to callbacks {sorted(cbs)} returning {sorted(rets)}: "
                  "two spellings of one expression may build different things", f"{ci.path}:{ci.node.lineno}")
    # the unit callback divides, unit_sequence multiplies, term raises to the exponent: decided on the resolved call
    # sites of the callback and of the parsing-module helpers it uses, not on its text
    from ..calls import Resolver as _Resolver
    res_ = _Resolver(prog)
    checks = {"unit": "Unit.__truediv__", "unit_sequence": "Unit.__mul__", "term": "Unit.__pow__"}
    for cb, dunder in checks.items():
        qs = prog.method("parsing.QuantityTransformer", cb)
        if not qs:
            continue
        fi = prog.functions[qs[0]]
        targets: Set[str] = set()
        todo = [fi.qual]
        seen_: Set[str] = set()
        while todo:
            q_ = todo.pop()
            if q_ in seen_:
                continue
            seen_.add(q_)
            for cs in res_.callsites(q_):
                targets |= set(cs.targets)
                for t_ in cs.targets:
                    if t_ in prog.functions and prog.functions[t_].module == "parsing":
                        todo.append(t_)
            # reduce(helper, terms): the helper is an argument, not a call
            for n_ in ast.walk(prog.functions[q_].node):
                if isinstance(n_, ast.Call) and ast.unparse(n_.func).split(".")[-1] == "reduce" and n_.args and isinstance(n_.args[0], ast.Name):
                    hq = prog.modules["parsing"].functions.get(n_.args[0].id)
                    if hq:
                        todo.append(hq)
        rep.check("R13.5", f"callback:{cb}", dunder in targets, f"the `{cb}` callback no longer combines its children with {dunder} "
                  f"(operators it reaches: {sorted(t for t in targets if '.__' in t)[:5]})", fi.where())


def exponent_scope(rep: Report, prog: Program, tables: Tables) -> None:
    """R13.10: the writer prints a term as prefix, symbol, superscript and means (prefix x unit) ** exponent (R11.6).  A
    callback for a grammar rule that has an `exponent` child must therefore apply the exponent to the whole term: what it
    returns is `<everything else> ** exponent` - a product with the power taken inside (`prefix * unit ** exponent`) reads the
    same text as another unit."""
    ci = prog.cls("parsing.QuantityTransformer")
    with_exp: Set[str] = set()
    for r in tables.rules:
        origin, expansion, alias = r[0], r[1], r[2]
        if any(str(x[0] if isinstance(x, tuple) else x).lstrip("?!_").startswith("exponent") for x in expansion):
            with_exp.add(alias or origin)
    n = 0
    for cb in sorted(with_exp):
        qs = prog.method("parsing.QuantityTransformer", cb)
        if not qs or qs[0] not in prog.functions:
            continue
        fi = prog.functions[qs[0]]
        ps = fi.params()
        ex = next((p_ for p_ in ps if "exponent" in p_ or p_ in ("power", "exp")), None)
        if ex is None:
            rep.defer(AnalysisError(f"{fi.qual}: the rule has an exponent child but the callback has no exponent parameter"))
            continue
        local = {x.targets[0].id: x.value for x in ast.walk(fi.node) if isinstance(x, ast.Assign) and len(x.targets) == 1 and isinstance(x.targets[0], ast.Name)}
        for rt in [x for x in ast.walk(fi.node) if isinstance(x, ast.Return) and x.value is not None]:
            v = rt.value
            k = 0
            while isinstance(v, ast.Name) and v.id in local and k < 4:
                v = local[v.id]
                k += 1
            n += 1
            ok = isinstance(v, ast.BinOp) and isinstance(v.op, ast.Pow) and isinstance(v.right, ast.Name) and v.right.id == ex
            rep.check("R13.10", f"{fi.qual}:{ast.unparse(rt.value)[:40]}", ok,
                      f"{fi.qual} returns `{ast.unparse(v)[:70]}`: the exponent of a term must apply to everything the term's text names (prefix "
                      f"included) - `(...) ** {ex}` - because that is what str() means by it; here a part of the term stays outside the power",
                      fi.where(rt))
    if n == 0:
        raise AnalysisError("no callback of a rule with an exponent child found (R13.10 anchor moved)")


CATALOGUE_IMPORTERS = {"cli": "the command line is an application: it wants every unit", "hypothesis": "test strategies over all shipped units",
                       "pytest": "test helper", "__main__": "entry point of the command line", "systems": "the catalogue itself"}


def catalogue_import_edges(rep: Report, prog: Program) -> None:
    """R13.11: which units are registered decides what a text means (exact symbols win over prefix + symbol: `hh` is
    hecto-hour until `us` registers the hand).  Importing `measured.systems` registers everything; a library module that does
    so at import time (json, parsing, formatting, conversions, the core) changes the meaning of texts str() has already
    produced for every program that imports that module.  Allowed importers are listed with their reason."""
    n = 0
    for short, mi in sorted(prog.modules.items()):
        for st in ast.walk(mi.tree):
            mods: List[str] = []
            if isinstance(st, ast.ImportFrom):
                base = (st.module or "")
                mods = [f"{base}.{a.name}".lstrip(".") for a in st.names] + [base]
            elif isinstance(st, ast.Import):
                mods = [a.name for a in st.names]
            if not any(m.split(".")[-1] == "systems" for m in mods if m):
                continue
            host = st
            in_function = False
            while host is not None:
                host = getattr(host, "_parent", None)
                if isinstance(host, (ast.FunctionDef, ast.AsyncFunctionDef)):
                    in_function = True
            n += 1
            key = short or "__init__"
            rep.check("R13.11", f"{key}:import systems", key in CATALOGUE_IMPORTERS,
                      f"measured.{key} imports measured.systems" + (" (inside a function)" if in_function else " at import time") + ": every shipped unit "
                      "gets registered as a side effect of using this module, and exact symbols it brings shadow prefix splits that str() has "
                      "already written (7 hh: 700 h before, 7 hands after)", f"{rel(mi.path)}:{st.lineno}",
                      note=CATALOGUE_IMPORTERS.get(key))
    if n == 0:
        rep.ok("R13.11", "package", note="no module imports measured.systems")


def token_resolution(rep: Report, prog: Program, resolver: Resolver) -> None:
    """R13.8: the unit a SYMBOL token stands for is Unit.resolve_symbol(<the token text>) and nothing else.
    R13.2 decides every prefix x symbol spelling against the resolution order of Unit.resolve_symbol; a
    second resolution step in the parser layer (splitting the token, consulting the registries itself)
    would make the parser read some spellings differently from what R13.2 decided."""
    fns = [(q, fi) for q, fi in sorted(prog.functions.items()) if fi.module == "parsing"]
    n = 0
    for q, fi in fns:
        for loc, node in reads_in(prog, resolver, q):
            if loc.split(".")[-1] in ("_by_symbol", "_by_name"):
                n += 1
                rep.fail("R13.8", f"{q}:reads {loc}", f"{q} consults {loc} itself: symbol resolution is duplicated in the parser layer, outside "
                         "Unit.resolve_symbol (the order R13.2 was decided for)", fi.where(node))
        assigned = {x.id for st in ast.walk(fi.node) if isinstance(st, (ast.Assign, ast.AugAssign, ast.For, ast.comprehension))
                    for t in ([st.target] if not isinstance(st, ast.Assign) else st.targets) for x in ast.walk(t) if isinstance(x, ast.Name)}
        for c in ast.walk(fi.node):
            if isinstance(c, ast.Call) and isinstance(c.func, ast.Attribute) and c.func.attr == "resolve_symbol" and "Unit" in ast.unparse(c.func.value):
                n += 1
                a0 = c.args[0] if c.args else None
                ok = isinstance(a0, ast.Name) and a0.id in fi.params() and a0.id not in assigned
                rep.check("R13.8", f"{q}:{ast.unparse(c)[:40]}", ok,
                          f"`{ast.unparse(c)[:50]}` resolves something other than the token text it was given (a piece, a rewritten string): "
                          "the parser reads that spelling differently from str()'s writer and from the symbol table analysis",
                          fi.where(c))
    if n == 0:
        raise AnalysisError("parsing.py: no Unit.resolve_symbol call found (R13.8 anchor moved)")


def prefixed_named_units(rep: Report, ev: Evaluator, rid: str, why: str) -> None:
    """R13.9 / R15.14: which shipped named units lose their text form when a registered prefix is attached.  The formatter
    pushes the unit's prefix onto the first factor by Prefix.root(<that factor's exponent>) and falls back to a leading
    magnitude when the root is not whole (R11.6 decides that this is what it does; R01.2 when a root is whole): so a named
    unit whose first factor has an exponent of magnitude >= 2, or that carries a prefix of its own (a prefix of the other base
    then gives a fractional exponent), has prefixed forms written as `1000 m^2.kg.s^-3`, which the grammar rejects.  That is
    the recorded defect of section 5; this rule keys it by unit, so a unit that *joins* the set (a base unit redefined as a
    derived one) is a new finding."""
    seen: Set[int] = set()
    n = 0
    for nm, u in sorted(ev.unit_by_name.items()):
        if id(u) in seen or not getattr(u, "symbols", None):
            continue
        seen.add(id(u))
        fs = list(u.factors.items())
        if not fs:
            continue
        n += 1
        e1 = fs[0][1]
        own = u.prefix.base != 0 and u.prefix.exponent != 0
        first = ev.unit_by_id[fs[0][0]]
        rep.check(rid, f"named-unit:{u.name or nm}", abs(e1) < 2 and not own,
                  f"{u.name or nm!r} (symbol {u.symbols[0]!r}) " + (f"has {first.name!r}**{e1} as its first factor" if abs(e1) >= 2 else
                                                                    f"carries the prefix {u.prefix.base}**{u.prefix.exponent} itself") +
                  f": with a registered prefix whose exponent that does not divide (Kilo, Milli, ...) its text form is a leading magnitude followed by the "
                  f"factors, which the `unit` grammar rejects - {why}", u.where)
    if n < 100:
        raise AnalysisError(f"only {n} named units with symbols evaluated (R13.9 anchor)")


def term_prefix_guard(rep: Report, prog: Program) -> None:
    """R13.7: a prefix the formatter attaches to a rendered term is either a factor's own prefix or
    the result of Prefix.root(..) - the only operation that rejects a prefix whose exponent is not
    integral (Kibi*Milli is 2**22.96...).  A product of prefixes that reaches a term unguarded is
    rendered as a power the grammar cannot read back."""
    from ..cfg import CFG
    from ..termwalk import term_splitter
    fi = term_splitter(prog)
    cfg = CFG(fi.node)
    n = 0
    term_tuples: List[Tuple[ast.stmt, ast.Tuple]] = []
    for tp in ast.walk(fi.node):
        # a term is a (prefix, symbol, exponent) tuple wherever it is built: assigned, appended, or in the returned list
        if not (isinstance(tp, ast.Tuple) and len(tp.elts) == 3 and isinstance(tp.ctx, ast.Load)):
            continue
        host = tp
        while host is not None and not isinstance(host, ast.stmt):
            host = getattr(host, "_parent", None)
        if isinstance(host, ast.stmt) and not isinstance(host, (ast.FunctionDef, ast.AnnAssign)) or (isinstance(host, ast.AnnAssign) and host.value is not None):
            term_tuples.append((host, tp))  # type: ignore[arg-type]
    for st, tp in term_tuples:
        p0 = tp.elts[0]
        nid = cfg.node_of(st)
        if nid is None:
            continue
        n += 1
        bad: List[str] = []

        def guarded(e: ast.AST, at: int, depth: int = 0) -> bool:
            if isinstance(e, ast.Call) and isinstance(e.func, ast.Attribute) and e.func.attr == "root":
                return True
            if isinstance(e, ast.Attribute) and e.attr == "prefix" and isinstance(e.value, ast.Name) and e.value.id != fi.params()[0]:
                return True   # a factor's own prefix
            if isinstance(e, ast.Name) and depth < 6:
                defs = cfg.reaching_defs(at, e.id)
                if not defs:
                    return False
                for d in defs:
                    if d is None:
                        return False
                    if isinstance(d, ast.Assign) and len(d.targets) == 1 and isinstance(d.targets[0], ast.Name):
                        dn = cfg.node_of(d)
                        if dn is None or not guarded(d.value, dn, depth + 1):
                            bad.append(ast.unparse(d)[:60])
                            return False
                    elif isinstance(d, ast.Assign) and isinstance(d.targets[0], ast.Tuple):
                        # prefix, symbol, exponent = first   (first comes from the factors' own prefixes)
                        src = d.value
                        dn = cfg.node_of(d)
                        if not (isinstance(src, ast.Name) and dn is not None and _own_prefix_terms(cfg, dn, src.id)):
                            bad.append(ast.unparse(d)[:60])
                            return False
                    else:
                        return False
                return True
            return False
        ok = guarded(p0, nid)
        rep.check("R13.7", f"{fi.qual}:{ast.unparse(st)[:40]}", ok,
                  f"`{ast.unparse(st)[:60]}` puts a prefix into a rendered term that comes from `{bad[0] if bad else ast.unparse(p0)}` without "
                  "passing Prefix.root(..): a combined prefix with a non-integral exponent (Kibi*Milli) is written as a power the "
                  "grammar cannot parse back", fi.where(st))
    if n == 0:
        raise AnalysisError("formatting._unit_to_magnitude_and_terms: no term tuple is built (R13.7 anchor moved)")


def _own_prefix_terms(cfg, at: int, name: str) -> bool:
    """`name` is (an element of) the list of (factor.prefix, factor.symbol, exponent) terms."""
    for d in cfg.reaching_defs(at, name):
        if d is None or not isinstance(d, ast.Assign):
            return False
        v = d.value
        comps = [x for x in ast.walk(v) if isinstance(x, (ast.ListComp, ast.GeneratorExp))]
        if not comps:
            return False
        for c in comps:
            elt = c.elt
            if not (isinstance(elt, ast.Tuple) and elt.elts and isinstance(elt.elts[0], ast.Attribute) and elt.elts[0].attr == "prefix"):
                return False
    return True


def run(rep: Report) -> None:
    prog = Program()
    resolver = Resolver(prog)
    rep.rule("R13.1", "every declared unit and prefix symbol full-matches the grammar's SYMBOL terminal", floor=150)
    rep.rule("R13.2", "unambiguous symbol table: for every registered prefix p and unit symbol u, the text p.symbol+u.symbol "
             "resolves (exact symbol, first prefix split, name) to p*u or to a unit of equal value; registered names are not shadowed", floor=3000)
    rep.rule("R13.3", "formatter language within parser language: the regular language abstracted from unit_str / quantity_str "
             "(piece classes from static types and registries) is accepted by the shipped LALR tables", floor=3)
    rep.rule("R13.4", "tables: SUPERSCRIPTS maps the characters of str(int) into the grammar's superscript alphabet (minus "
             "leading only), DIGITS inverts it, the join separator is a _MULTIPLY alternative", floor=14)
    rep.rule("R13.5", "spellings: alternatives of one rule differ only in filtered tokens, or their callbacks produce the same "
             "type; unit divides, unit_sequence multiplies, term raises", floor=5)
    rep.rule("R03.7", "Quantity.__init__ with a unit text keeps magnitude and unit as given (shared with C03)", floor=2)
    rep.rule("R13.8", "the parser layer resolves a SYMBOL token only as Unit.resolve_symbol(<token text>): no second resolution step", floor=1)
    rep.rule("R13.7", "a prefix attached to a rendered term is a factor's own prefix or has passed Prefix.root (integrality guard)", floor=1)
    rep.rule("R13.6", "no memoised function on the resolution path reads the registries (a stale answer would survive a later registration)", floor=1)
    thorough = rep.tier == "thorough"
    sh = extract_shipped()
    tables = normalise(sh.data, sh.memo)
    ev = evaluate()
    sym = symbol_regex(tables)
    check_resolve_order(rep, prog)
    symbol_table(rep, ev, sym, thorough)
    from .c09 import unreached_modules
    for m in unreached_modules(ev):
        symbol_table(rep, evaluate(entry=m), sym, thorough)   # a data module that `systems` does not import is shipped all the same
    formatter_language(rep, prog, resolver, ev, tables, thorough)
    tables_rule(rep, prog, resolver, tables)
    spellings(rep, prog, tables)
    term_prefix_guard(rep, prog)
    token_resolution(rep, prog, resolver)
    rep.rule("R13.11", "only the listed application / test modules import the whole unit catalogue (measured.systems); no library module does", floor=1)
    catalogue_import_edges(rep, prog)
    rep.rule("R13.10", "a callback of a grammar rule with an exponent child applies the exponent to the whole term (prefix included), as str() means it", floor=1)
    exponent_scope(rep, prog, tables)
    rep.rule("R13.9", "a shipped named unit keeps a parseable text form under every registered prefix (its first factor has exponent +-1 and it carries "
             "no prefix of its own) - the members of the recorded leading-magnitude defect, unit by unit", floor=100)
    prefixed_named_units(rep, ev, "R13.9", "str(prefix * unit) does not parse back")
    from .c06 import immutability
    rep.rule("R06.6", "rendering cannot change what is rendered: no attribute of a Quantity / Level / Measurement is assigned outside its constructor "
             "(an in-place operator reached from str() would make parse(str(q)) differ from q) - shared with C06", floor=10)
    immutability(rep, prog, resolver)
    from ..quantity_rules import check_quantity_ctor
    check_quantity_ctor(rep, prog, "R03.7")
    # R13.6
    from .c08 import NAMING, memo_functions
    n6 = 0
    for m in memo_functions(prog):
        sub = Reach(resolver, [m])
        regs = {loc for g in sub.reached for loc, node in reads_in(prog, resolver, g)
                if loc.split(".")[-1] in NAMING and sub.feasible_node(g, node)}
        if regs:
            n6 += 1
            rep.fail("R13.6", m, f"{m} is memoised over {sorted(regs)}: a text once resolved keeps its meaning after a unit with that "
                     "exact symbol is registered, so str(unit) may parse to a different unit", prog.functions[m].where())
    if n6 == 0:
        rep.ok("R13.6", "package", note="no memoised function reads a name/symbol registry")
    rep.analysed.update({"unit_symbols": len(ev.unit_by_symbol), "prefix_symbols": len(ev.prefix_by_symbol), "unit_names": len(ev.unit_by_name)})
    rep.not_decided += ["that the object parsed back is the identical object (needs C02 and the runtime registries of the modules imported)",
                        "subsets of imported modules (the analysis covers the full shipped set; a collision can only disappear in a subset)"]
    rep.trust("E5 declaration model and unit sizes (C09); shipped LALR tables equal the grammar (C16); mypy expression types for the string abstraction")
