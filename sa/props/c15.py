"""C15 - pickle, copy and JSON round-trip every value, preserving singleton identity."""
from __future__ import annotations

import ast
from typing import Dict, List, Optional, Set, Tuple

from ..calls import Resolver
from ..core import AnalysisError, Report
from ..grammar import Driver, extract_shipped, normalise
from ..model import Program
from ..strlang import StrAbs, instantiate, shape
from .c09 import evaluate

TITLE = "pickle, copy and JSON round-trip every value, preserving singleton identity"
CODEC_CLASSES = ("Dimension", "Prefix", "Unit", "Quantity")
PICKLE_HOOKS = ("__reduce__", "__reduce_ex__", "__getstate__", "__setstate__", "__copy__", "__deepcopy__")


_EXPAND: List[Any] = []      # set by run(): expands one-expression helpers of the core module (sa/inline.py)


def written_dict(fn: ast.AST) -> Dict[str, ast.AST]:
    """key -> value expression of the dict a writer returns: a literal, dict(k=v, ..), or a local that starts
    as one of those and is filled key by key."""
    out: Dict[str, ast.AST] = {}

    def add(e: Optional[ast.AST]) -> None:
        if e is not None and _EXPAND:
            e = _EXPAND[0](e)       # `_tagged("Unit", {...})` -> the helper's own dict display with the arguments substituted
        if isinstance(e, ast.Dict):
            for k, v in zip(e.keys, e.values):
                if isinstance(k, ast.Constant) and isinstance(k.value, str):
                    out[k.value] = v
                elif k is None:
                    add(v)          # {**fields}
        elif isinstance(e, ast.Call) and ast.unparse(e.func) == "dict":
            for a in e.args:
                add(a)
            for kw in e.keywords:
                if kw.arg:
                    out[kw.arg] = kw.value
    for r in ast.walk(fn):
        if not (isinstance(r, ast.Return) and r.value is not None):
            continue
        if isinstance(r.value, ast.Name):
            nm = r.value.id
            arms: Dict[str, ast.AST] = {}
            for n in ast.walk(fn):
                # `if c: d["k"] = a` / `else: d["k"] = b`  is  d["k"] = a if c else b
                if isinstance(n, ast.If) and len(n.body) == 1 and len(n.orelse) == 1:
                    pair = []
                    for st in (n.body[0], n.orelse[0]):
                        if isinstance(st, ast.Assign) and len(st.targets) == 1 and isinstance(st.targets[0], ast.Subscript) \
                                and isinstance(st.targets[0].value, ast.Name) and st.targets[0].value.id == nm \
                                and isinstance(st.targets[0].slice, ast.Constant) and isinstance(st.targets[0].slice.value, str):
                            pair.append((st.targets[0].slice.value, st.value))
                    if len(pair) == 2 and pair[0][0] == pair[1][0]:
                        arms[pair[0][0]] = ast.copy_location(ast.IfExp(test=n.test, body=pair[0][1], orelse=pair[1][1]), n)
            for n in ast.walk(fn):
                if isinstance(n, ast.Assign) and len(n.targets) == 1 and isinstance(n.targets[0], ast.Name) and n.targets[0].id == nm:
                    add(n.value)
                elif isinstance(n, ast.AnnAssign) and isinstance(n.target, ast.Name) and n.target.id == nm:
                    add(n.value)
                elif isinstance(n, ast.Assign) and len(n.targets) == 1 and isinstance(n.targets[0], ast.Subscript) and isinstance(n.targets[0].value, ast.Name) \
                        and n.targets[0].value.id == nm and isinstance(n.targets[0].slice, ast.Constant) and isinstance(n.targets[0].slice.value, str):
                    out[n.targets[0].slice.value] = n.value
            out.update(arms)
        else:
            add(r.value)
    return out


def dict_keys_written(fn: ast.AST) -> Set[str]:
    return set(written_dict(fn))


def keys_read(fn: ast.AST, param: str) -> Set[str]:
    out: Set[str] = set()
    for n in ast.walk(fn):
        if isinstance(n, ast.Subscript) and isinstance(n.value, ast.Name) and n.value.id == param and isinstance(n.slice, ast.Constant):
            out.add(n.slice.value)
        if isinstance(n, ast.Call) and isinstance(n.func, ast.Attribute) and n.func.attr == "get" and isinstance(n.func.value, ast.Name) \
                and n.func.value.id == param and n.args and isinstance(n.args[0], ast.Constant):
            out.add(n.args[0].value)
    return out


KEY_PARAMS = {"Dimension": ["exponents"], "Prefix": ["base", "exponent"], "Unit": ["prefix", "factors", "dimension"],
              "Logarithm": ["base", "prefix"], "LogarithmicUnit": ["logarithm", "reference"]}


def newargs_cover_key(rep: Report, prog: Program, rid: str, classes: Tuple[str, ...], required: bool) -> None:
    """__getnewargs_ex__ hands copy/pickle the arguments for __new__: position by position they must be
    the attributes __new__ interns under.  A hook that leaves one out makes the copy fetch *another*
    interned object - and then writes the pickled state over it."""
    for cls in classes:
        ci = prog.cls(cls)
        if "__getnewargs_ex__" not in ci.methods and "__getnewargs__" not in ci.methods:
            if required:
                rep.fail(rid, f"{cls}.__getnewargs_ex__", f"{cls} defines no __getnewargs_ex__", f"{ci.path}:{ci.node.lineno}")
            else:
                rep.ok(rid, f"{cls}.__getnewargs_ex__", note="no pickle hook (copy/pickle of this class is not supported: TypeError)")
            continue
        new = prog.func(f"{cls}.__new__")
        gna = prog.functions[ci.methods.get("__getnewargs_ex__") or ci.methods["__getnewargs__"]]
        params = [p_ for p_ in new.params() if p_ != "cls"]
        rets = [r for r in ast.walk(gna.node) if isinstance(r, ast.Return) and r.value is not None]
        if len(rets) != 1:
            raise AnalysisError(f"{cls}.__getnewargs_ex__: expected one return")
        local: Dict[str, ast.AST] = {}
        alldefs: Dict[str, List[ast.AST]] = {}
        for n in ast.walk(gna.node):
            if isinstance(n, ast.Assign) and len(n.targets) == 1 and isinstance(n.targets[0], ast.Name):
                local.setdefault(n.targets[0].id, n.value)
                alldefs.setdefault(n.targets[0].id, []).append(n.value)
            elif isinstance(n, ast.AnnAssign) and isinstance(n.target, ast.Name) and n.value is not None:
                local.setdefault(n.target.id, n.value)
                alldefs.setdefault(n.target.id, []).append(n.value)

        def deref(e: ast.AST) -> ast.AST:
            seen = 0
            while isinstance(e, ast.Name) and e.id in local and seen < 5:
                e = local[e.id]
                seen += 1
            return e

        def self_attrs(e: ast.AST, depth: int = 0) -> Set[str]:
            """attributes of self that may flow into e (every definition of every local it uses)"""
            out_ = {n.attr for n in ast.walk(e) if isinstance(n, ast.Attribute) and isinstance(n.value, ast.Name) and n.value.id == gna.params()[0]}
            if depth < 4:
                for x in ast.walk(e):
                    if isinstance(x, ast.Name) and x.id in alldefs:
                        for d in alldefs[x.id]:
                            out_ |= self_attrs(d, depth + 1)
            return out_
        rv = deref(rets[0].value)
        if gna.name == "__getnewargs__":
            args: ast.AST = rv
            kwargs: ast.AST = ast.Dict(keys=[], values=[])
        else:
            if not (isinstance(rv, ast.Tuple) and len(rv.elts) == 2):
                rep.fail(rid, f"{cls}.__getnewargs_ex__", "does not return (args, kwargs)", gna.where())
                continue
            args, kwargs = deref(rv.elts[0]), deref(rv.elts[1])
        key_params = KEY_PARAMS[cls]
        given: Dict[str, ast.AST] = {}
        if isinstance(args, ast.Tuple):
            for i, a in enumerate(args.elts):
                if i < len(params):
                    given[params[i]] = a
        if isinstance(kwargs, ast.Call) and ast.unparse(kwargs.func) == "dict" and not kwargs.args:
            kwargs = ast.Dict(keys=[ast.Constant(value=k.arg) for k in kwargs.keywords if k.arg], values=[k.value for k in kwargs.keywords if k.arg])
        if isinstance(kwargs, ast.Dict):
            for k, v in zip(kwargs.keys, kwargs.values):
                if isinstance(k, ast.Constant) and isinstance(k.value, str):
                    given[k.value] = v
        ok, why = True, ""
        for kp in key_params:
            e = given.get(kp)
            if e is None:
                ok, why = False, f"the key parameter `{kp}` of {cls}.__new__ is not passed (it falls back to its default, another interned object)"
                break
            names = self_attrs(e)
            if kp not in names:
                ok, why = False, f"`{kp}` is passed `{ast.unparse(e)[:40]}`, not self.{kp}"
                break
        rep.check(rid, f"{cls}.__getnewargs_ex__", ok, f"{cls}.__getnewargs_ex__: {why or 'wrong shape'}: copy/pickle would fetch (and then overwrite) the "
                  "object interned under another key", gna.where())
        if cls == "Unit":
            kd = kwargs if isinstance(kwargs, ast.Dict) else None
            has_name = kd is not None and any(isinstance(k, ast.Constant) and k.value == "name" and "self.name" in ast.unparse(deref(v))
                                              for k, v in zip(kd.keys, kd.values))
            rep.check(rid, "Unit.__getnewargs_ex__:name", has_name, "a base unit pickles with empty factors and must pass its name, "
                      "which is what __new__ falls back to", gna.where())


def structural_decoding(rep: Report, prog: Program, rid: str) -> None:
    """The decoders of the interned structural classes rebuild the object from the structural
    key that was written (Dimension: exponents; Prefix: base and exponent) on every path.  A
    path that answers from anything else (a name lookup, a cache) can return a different
    object than the one that was encoded - and Unit.__from_json__ hands the decoded dimension
    straight to the interning Unit constructor."""
    for cls, keys in (("Dimension", ("exponents",)), ("Prefix", ("base", "exponent"))):
        fi = prog.func(f"{cls}.__from_json__")
        jparam = fi.params()[1]
        defs: Dict[str, List[ast.AST]] = {}
        for n in ast.walk(fi.node):
            if isinstance(n, ast.Assign) and len(n.targets) == 1 and isinstance(n.targets[0], ast.Name):
                defs.setdefault(n.targets[0].id, []).append(n.value)
            elif isinstance(n, ast.AnnAssign) and isinstance(n.target, ast.Name) and n.value is not None:
                defs.setdefault(n.target.id, []).append(n.value)
            elif isinstance(n, ast.Assign) and len(n.targets) == 1 and isinstance(n.targets[0], (ast.Tuple, ast.List)) \
                    and isinstance(n.value, (ast.Tuple, ast.List)) and len(n.targets[0].elts) == len(n.value.elts):
                for t_, v_ in zip(n.targets[0].elts, n.value.elts):
                    if isinstance(t_, ast.Name):
                        defs.setdefault(t_.id, []).append(v_)

        def keys_of(e: ast.AST, depth: int = 0) -> Set[str]:
            out: Set[str] = set()
            for x in ast.walk(e):
                if isinstance(x, ast.Subscript) and isinstance(x.value, ast.Name) and x.value.id == jparam and isinstance(x.slice, ast.Constant):
                    out.add(x.slice.value)
                elif isinstance(x, ast.Call) and isinstance(x.func, ast.Attribute) and x.func.attr == "get" and isinstance(x.func.value, ast.Name) \
                        and x.func.value.id == jparam and x.args and isinstance(x.args[0], ast.Constant):
                    out.add(x.args[0].value)
                elif isinstance(x, ast.Starred) or (isinstance(x, ast.keyword) and x.arg is None):
                    if isinstance(x.value, ast.Name) and x.value.id == jparam:
                        out |= set(keys)
                elif isinstance(x, ast.Name) and x.id in defs and depth < 4:
                    for d in defs[x.id]:
                        out |= keys_of(d, depth + 1)
            return out
        rets = [r for r in ast.walk(fi.node) if isinstance(r, ast.Return) and r.value is not None]
        if not rets:
            raise AnalysisError(f"{cls}.__from_json__: no return found")
        for i, r in enumerate(rets):
            got = keys_of(r.value)
            missing = [k for k in keys if k not in got]
            rep.check(rid, f"{cls}.__from_json__:return#{i}", not missing,
                      f"`{ast.unparse(r)[:70]}` answers without the encoded {', '.join(missing)}: the decoded {cls} need not be the one "
                      "that was written (names are local to a process; the structural key is what identifies the object)" +
                      (", and Unit.__from_json__ passes it to the interning Unit constructor as the unit's dimension" if cls == "Dimension" else ""),
                      fi.where(r))


def decoders_are_readers(rep: Report, prog: Program, resolver: Resolver) -> None:
    """R15.12: decoding looks objects up (or interns structurally) - it declares nothing.  No path from a
    __from_json__ (context-pruned: the arguments it actually passes decide the callee's arms) writes a name or
    symbol registry or the names of an existing object; a decoder that forwards the payload's name into the
    constructor re-registers it on every decode."""
    from ..calls import Reach
    from ..effects import NAMING_ATTRS, writes_in
    entries = [q for q, f in prog.functions.items() if f.name == "__from_json__" and f.module == ""]
    if len(entries) < 4:
        raise AnalysisError(f"only {len(entries)} __from_json__ decoders found")
    for e in entries:
        reach = Reach(resolver, [e])
        bad = []
        for f in sorted(reach.reached):
            fi = prog.functions[f]
            for w in writes_in(prog, resolver, f):
                if not reach.feasible_node(f, w.node):
                    continue
                kind = w.location.split(".")[-1]
                if kind in ("_by_name", "_by_symbol") or (w.location in ("attr:names", "attr:symbols") and fi.name != "__init__") \
                        or (w.location in ("attr:name", "attr:symbol") and fi.name not in ("__init__", "_register")):
                    bad.append((f, w))
        rep.check("R15.12", e, not bad,
                  f"{e} reaches {bad[0][0] if bad else ''}, which writes {bad[0][1].location if bad else ''} "
                  f"({' -> '.join(reach.path_to(bad[0][0])[-4:]) if bad else ''}): decoding a value registers or re-registers names - after a round trip "
                  "the unit reports its names twice", prog.functions[e].where())


def codec_hooks(rep: Report, prog: Program) -> None:
    """R15.11: json has three places a decoder can come from - `json._default_decoder` (used by json.load(fp), which
    passes object_hook=None explicitly), the `object_hook` default of json.loads, and an explicit cls= - and one
    for the encoder.  codecs_installed must set each of the implicit ones and put each back."""
    fi = prog.func("json.codecs_installed")
    hooks = ("json._default_encoder", "json._default_decoder", "json.loads.__kwdefaults__['object_hook']")
    jm = prog.module("json")

    def stores_of(fn: ast.AST) -> Dict[str, List[ast.AST]]:
        out_: Dict[str, List[ast.AST]] = {}
        for n in ast.walk(fn):
            if isinstance(n, ast.Assign):
                for t in n.targets:
                    k = ast.unparse(t).replace('"', "'")
                    if k in hooks:
                        out_.setdefault(k, []).append(n)
        return out_
    fin_nodes = {id(x) for t in ast.walk(fi.node) if isinstance(t, ast.Try) and t.finalbody for b in t.finalbody for x in ast.walk(b)}
    phase: Dict[str, Set[str]] = {h: set() for h in hooks}
    for h, ns in stores_of(fi.node).items():
        for n in ns:
            phase[h].add("restore" if id(n) in fin_nodes else "install")
    # one level of helpers in the same module (`_install_codecs()`, `_restore_codecs(originals)`)
    for c in ast.walk(fi.node):
        if isinstance(c, ast.Call) and isinstance(c.func, ast.Name):
            hq = jm.functions.get(c.func.id)
            if hq and hq in prog.functions:
                for h in stores_of(prog.functions[hq].node):
                    phase[h].add("restore" if id(c) in fin_nodes else "install")
    for h in hooks:
        installed, restored = "install" in phase[h], "restore" in phase[h]
        rep.check("R15.11", f"codecs_installed:{h}", installed and restored,
                  f"codecs_installed {'does not set' if not installed else 'does not restore'} {h}: " +
                  ("json.load(fp) and json.loads(text, object_hook=None) go through json._default_decoder and would return plain dicts"
                   if "decoder" in h else "values handed to the standard json functions are not encoded/decoded on that route"), fi.where())


# pydantic-core schema builders that convert the value they validate (lax mode: 5 -> 5.0, "5" -> 5, 5.0 -> 5, ...)
COERCING_SCHEMAS = {"float_schema", "int_schema", "decimal_schema", "bool_schema", "complex_schema", "bytes_schema",
                    "date_schema", "time_schema", "datetime_schema", "timedelta_schema", "literal_schema", "enum_schema",
                    "list_schema", "tuple_schema", "set_schema", "frozenset_schema", "dict_schema", "model_schema",
                    "dataclass_schema", "json_schema", "url_schema", "uuid_schema", "nullable_schema", "with_default_schema"}


def pydantic_schema(rep: Report, prog: Program) -> None:
    """The statement makes the pydantic representation the JSON encoding: the validator handed to pydantic has to be the
    library's own decoder and the serializer its own encoder.  A schema of pydantic's in front of the decoder validates -
    and in lax mode converts - the magnitude before __from_json__ sees it (float_schema turns every JSON integer into a
    float), so the magnitude type written by __json__ no longer comes back."""
    n = 0
    for cname in ("Quantity", "Unit", "Dimension", "Prefix"):
        ci = prog.cls(cname)
        q = ci.methods.get("__get_pydantic_core_schema__")
        if q is None:
            continue
        fi = prog.func(q)
        n += 1
        # the schema may be built by a module-level helper that is handed the class: `return _plain_validator_schema(cls)`
        clsnames = {"cls", cname}
        body_ = [st for st in fi.node.body if not (isinstance(st, ast.Expr) and isinstance(st.value, ast.Constant))]  # type: ignore[attr-defined]
        if len(body_) == 1 and isinstance(body_[0], ast.Return) and isinstance(body_[0].value, ast.Call) and isinstance(body_[0].value.func, ast.Name) \
                and body_[0].value.func.id in prog.modules[fi.module].functions:
            hc = body_[0].value
            hq = prog.modules[fi.module].functions[hc.func.id]
            hfi = prog.functions.get(hq)
            if hfi is not None and not hc.keywords:
                hp = hfi.params()
                passed = [hp[i] for i, a in enumerate(hc.args) if i < len(hp) and isinstance(a, ast.Name) and a.id in clsnames]
                stores = {x.id for x in ast.walk(hfi.node) if isinstance(x, ast.Name) and isinstance(x.ctx, ast.Store)}
                if passed and not (set(passed) & stores):
                    clsnames |= set(passed)
                    fi = hfi
        calls = [c for c in ast.walk(fi.node) if isinstance(c, ast.Call)]
        coercing = [c for c in calls if (c.func.attr if isinstance(c.func, ast.Attribute) else getattr(c.func, "id", "")) in COERCING_SCHEMAS]
        rep.check("R15.13", f"{cname}.__get_pydantic_core_schema__:no-coercing-schema", not coercing,
                  f"{cname}'s pydantic schema runs " + ", ".join(sorted({ast.unparse(c.func) for c in coercing})) + " on the wire form before the "
                  "library's decoder: pydantic converts the value it validates (an int magnitude comes back as a float), so the JSON "
                  "round trip through a pydantic model no longer keeps the magnitude type", fi.where(coercing[0]) if coercing else fi.where())
        # validators: every function handed to a *validator_function builder leads to __from_json__
        vals: List[ast.AST] = []
        sers: List[ast.AST] = []
        local1: Dict[str, List[ast.AST]] = {}
        for st in ast.walk(fi.node):
            if isinstance(st, ast.Assign) and len(st.targets) == 1 and isinstance(st.targets[0], ast.Name):
                local1.setdefault(st.targets[0].id, []).append(st.value)

        def deref1(e: ast.AST) -> ast.AST:
            n_ = 0
            while isinstance(e, ast.Name) and len(local1.get(e.id, [])) == 1 and n_ < 4:
                e = local1[e.id][0]
                n_ += 1
            return e
        for c in calls:
            nm = c.func.attr if isinstance(c.func, ast.Attribute) else getattr(c.func, "id", "")
            first = c.args[0] if c.args else next((k.value for k in c.keywords if k.arg == "function"), None)
            if nm.endswith("validator_function") and first is not None:
                vals.append(deref1(first))
            if nm.endswith("serializer_function_ser_schema") and first is not None:
                sers.append(deref1(first))

        def leads(e: ast.AST) -> bool:
            if not (isinstance(e, ast.Attribute) and isinstance(e.value, ast.Name) and e.value.id in clsnames):
                return False
            if e.attr == "__from_json__":
                return True
            t = ci.methods.get(e.attr)
            return t is not None and any(isinstance(x, ast.Attribute) and x.attr == "__from_json__" for x in ast.walk(prog.func(t).node))
        okv = bool(vals) and all(leads(v) for v in vals)
        rep.check("R15.13", f"{cname}.__get_pydantic_core_schema__:validator", okv,
                  f"{cname}'s pydantic validator(s) {[ast.unparse(v) for v in vals]} do not all lead to {cname}.__from_json__ (the decoder "
                  "of the library's JSON encoding)", fi.where())
        oks = bool(sers) and all(isinstance(x, ast.Attribute) and x.attr == "__json__" for x in sers)
        rep.check("R15.13", f"{cname}.__get_pydantic_core_schema__:serializer", oks,
                  f"{cname}'s pydantic serializer(s) {[ast.unparse(x) for x in sers]} are not {cname}.__json__", fi.where())
    if n == 0:
        raise AnalysisError("no class defines __get_pydantic_core_schema__ (anchor of R15.13 moved)")


def run(rep: Report) -> None:
    prog = Program()
    resolver = Resolver(prog)
    from ..inline import expand_expr
    _EXPAND[:] = [lambda e: expand_expr(prog, "", e)]
    rep.rule("R15.17", "readers hand stored numbers to the constructors as they were written (no int / round / float / abs on the way)", floor=4)
    rep.rule("R15.1", "__getnewargs_ex__ of Dimension/Prefix/Unit returns, position by position, the attributes __new__ builds "
             "its intern key from (copy and pickle re-enter the interning constructor); a base unit also passes its name", floor=4)
    rep.rule("R15.2", "writer/reader tables: keys read by __from_json__ are written by __json__; the __measured__ tag each writer "
             "emits is dispatched by MeasuredJSONDecoder.object_hook to the same class; all four classes covered", floor=12)
    rep.rule("R15.3", "Decimal magnitudes: the writer's isinstance(Decimal) -> str is paired with the reader's isinstance(str) -> "
             "Decimal; int and float pass through untouched", floor=2)
    rep.rule("R15.4", "the unit text stored by Quantity.__json__ / __composite_values__ is str(unit), read back by Unit.parse, and "
             "the formatter's language is within the parser's (R13.3 at the serialisation sites)", floor=4)
    rep.rule("R15.5", "Unit.__from_json__: base units resolve by name (every base unit is named); derived units rebuild "
             "through the interning constructor", floor=3)
    rep.rule("R03.7", "Quantity.__init__ (the reader of the stored unit text) keeps magnitude and unit as given (shared with C03)", floor=2)
    rep.rule("R15.12", "no decoder writes a name/symbol registry or the names of an existing object", floor=4)
    rep.rule("R15.11", "codecs_installed sets and restores each implicit json hook: default encoder, default decoder, loads' object_hook default", floor=3)
    rep.rule("R15.10", "no memoised function on the decoding side reads the name/symbol registries (the unit text of a stored quantity must "
             "be resolved against the registrations of now, not of the first time it was seen)", floor=1)
    rep.rule("R15.9", "no encoder/decoder is memoised over values whose equality ignores the magnitude type (5 m, 5.0 m, Decimal('5') m)", floor=1)
    rep.rule("R15.8", "the unit text a quantity is stored under resolves back to that unit: every prefix x unit spelling and every name resolves "
             "to itself or to an equal-valued unit (the symbol-table rule of C13, at the serialisation sites)", floor=1000)
    rep.rule("R15.7", "Dimension/Prefix decoders rebuild from the encoded structural key (exponents; base and exponent) on every path", floor=2)
    rep.rule("R15.16", "MeasuredJSONDecoder hands parse_float / parse_int / parse_constant through unchanged (numbers decode as the encoder wrote them)", floor=3)
    rep.rule("R15.15", "Unit.__json__ writes the unit's prefix and dimension as their own __json__() encodings (structural, not by name)", floor=2)
    rep.rule("R15.13", "the pydantic schema hands the wire form to the library's own decoder and encoder (__from_json__ / __json__) with "
             "no converting pydantic schema in between", floor=3)
    rep.rule("R15.6", "pickle/copy of a Quantity carry the Unit object itself (no custom reduce/copy hook routes it through text)", floor=1)

    # R15.1
    newargs_cover_key(rep, prog, "R15.1", ("Dimension", "Prefix", "Unit"), required=True)
    newargs_cover_key(rep, prog, "R15.1", ("Logarithm", "LogarithmicUnit"), required=False)
    for cls in ():
        new = prog.func(f"{cls}.__new__")
        gna = prog.func(f"{cls}.__getnewargs_ex__")
        params = [p for p in new.params() if p != "cls"]
        rets = [r for r in ast.walk(gna.node) if isinstance(r, ast.Return) and r.value is not None]
        if len(rets) != 1:
            raise AnalysisError(f"{cls}.__getnewargs_ex__: expected one return")
        rv = rets[0].value
        local: Dict[str, ast.AST] = {}
        for n in ast.walk(gna.node):
            if isinstance(n, ast.Assign) and len(n.targets) == 1 and isinstance(n.targets[0], ast.Name):
                local[n.targets[0].id] = n.value
        def deref(e: ast.AST) -> ast.AST:
            seen = 0
            while isinstance(e, ast.Name) and e.id in local and seen < 5:
                e = local[e.id]
                seen += 1
            return e
        rv = deref(rv)
        if not (isinstance(rv, ast.Tuple) and len(rv.elts) == 2):
            rep.fail("R15.1", f"{cls}.__getnewargs_ex__", "does not return (args, kwargs)", gna.where())
            continue
        args, kwargs = deref(rv.elts[0]), deref(rv.elts[1])
        key_params = {"Dimension": ["exponents"], "Prefix": ["base", "exponent"], "Unit": ["prefix", "factors", "dimension"]}[cls]
        ok = isinstance(args, ast.Tuple) and len(args.elts) >= len(key_params)
        why = ""
        if ok:
            for i, kp in enumerate(key_params):
                if i >= len(params) or params[i] != kp:
                    ok, why = False, f"__new__'s parameter {i} is {params[i] if i < len(params) else None}, expected {kp}"
                    break
                e = deref(args.elts[i])
                names = {n.attr for n in ast.walk(e) if isinstance(n, ast.Attribute) and isinstance(n.value, ast.Name) and n.value.id == "self"}
                if kp not in names:
                    ok, why = False, f"position {i} passes `{ast.unparse(e)[:40]}`, not self.{kp}"
                    break
        rep.check("R15.1", f"{cls}.__getnewargs_ex__", ok, f"{cls}.__getnewargs_ex__: {why or 'wrong shape'}: copy/pickle would intern under "
                  "another key", gna.where())
        if cls == "Unit":
            kd = kwargs if isinstance(kwargs, ast.Dict) else None
            has_name = kd is not None and any(isinstance(k, ast.Constant) and k.value == "name" and "self.name" in ast.unparse(v)
                                              for k, v in zip(kd.keys, kd.values))
            rep.check("R15.1", "Unit.__getnewargs_ex__:name", has_name, "a base unit pickles with empty factors and must pass its name, "
                      "which is what __new__ falls back to", gna.where())
    # no other pickling hooks on the interned classes
    for cls in ("Dimension", "Prefix", "Unit"):
        ci = prog.cls(cls)
        extra = [h for h in PICKLE_HOOKS if h in ci.methods or h in ci.aliases]
        rep.check("R15.1", f"{cls}:no-competing-hooks", not extra, f"{cls} defines {extra}: pickle/copy may bypass __getnewargs_ex__ and "
                  "the interning constructor", f"{ci.path}:{ci.node.lineno}")

    # R15.2
    hook = prog.func("json.MeasuredJSONDecoder.object_hook")
    dispatch: Dict[str, str] = {}
    for n in ast.walk(hook.node):
        if isinstance(n, ast.If) and isinstance(n.test, ast.Compare) and isinstance(n.test.comparators[0], ast.Constant):
            tag = n.test.comparators[0].value
            for r in n.body:
                if isinstance(r, ast.Return) and isinstance(r.value, ast.Call) and isinstance(r.value.func, ast.Attribute) \
                        and r.value.func.attr == "__from_json__":
                    dispatch[tag] = ast.unparse(r.value.func.value)
    # table-driven form: for tag, cls in <literal pairs>: if type_name == tag: return cls.__from_json__(o)
    jmi = prog.module("json")
    for n in ast.walk(hook.node):
        if not (isinstance(n, ast.For) and isinstance(n.target, ast.Tuple) and len(n.target.elts) == 2 and all(isinstance(x, ast.Name) for x in n.target.elts)):
            continue
        tvar, cvar = (x.id for x in n.target.elts)  # type: ignore[attr-defined]
        it = n.iter
        if isinstance(it, ast.Call) and isinstance(it.func, ast.Attribute) and it.func.attr == "items":
            it = it.func.value
        if isinstance(it, ast.Name):
            sts = jmi.globals_assigned.get(it.id) or []
            it = getattr(sts[0], "value", None) if len(sts) == 1 else None
        pairs: List[Tuple[Any, str]] = []
        if isinstance(it, (ast.Tuple, ast.List)):
            pairs = [(e.elts[0].value, ast.unparse(e.elts[1])) for e in it.elts
                     if isinstance(e, (ast.Tuple, ast.List)) and len(e.elts) == 2 and isinstance(e.elts[0], ast.Constant)]
        elif isinstance(it, ast.Dict):
            pairs = [(k.value, ast.unparse(v)) for k, v in zip(it.keys, it.values) if isinstance(k, ast.Constant)]
        compares = any(isinstance(c, ast.Compare) and len(c.ops) == 1 and isinstance(c.ops[0], ast.Eq)
                       and tvar in {x.id for x in ast.walk(c) if isinstance(x, ast.Name)} for c in ast.walk(n))
        calls = any(isinstance(c, ast.Call) and isinstance(c.func, ast.Attribute) and c.func.attr == "__from_json__"
                    and isinstance(c.func.value, ast.Name) and c.func.value.id == cvar for c in ast.walk(n))
        if pairs and compares and calls:
            for tag, cls_ in pairs:
                dispatch.setdefault(tag, cls_)
    for cls in CODEC_CLASSES:
        w = prog.func(f"{cls}.__json__")
        rd = prog.func(f"{cls}.__from_json__")
        written = dict_keys_written(w.node)
        read = keys_read(rd.node, rd.params()[1])
        rep.check("R15.2", f"{cls}:keys", bool(written) and read <= written,
                  f"{cls}.__from_json__ reads {sorted(read - written)} which {cls}.__json__ does not write", rd.where())
        tags = set()
        tv = written_dict(w.node).get("__measured__")
        if isinstance(tv, ast.Constant):
            tags.add(tv.value)
        rep.check("R15.2", f"{cls}:tag", tags == {cls}, f"{cls}.__json__ emits tag(s) {sorted(tags)}", w.where())
        rep.check("R15.2", f"{cls}:dispatch", dispatch.get(cls) == cls,
                  f"MeasuredJSONDecoder.object_hook sends tag {cls!r} to {dispatch.get(cls)}", hook.where())
    enc = prog.func("json.MeasuredJSONEncoder.default")
    rep.check("R15.2", "encoder:__json__", "__json__" in ast.unparse(enc.node), "MeasuredJSONEncoder.default no longer calls __json__", enc.where())

    # R15.3
    w = prog.func("Quantity.__json__")
    rd = prog.func("Quantity.__from_json__")

    def conversion_arms(fn: ast.AST, test_type: str, conv: str) -> Tuple[bool, str]:
        """Is there an `isinstance(<m>, test_type)` arm (statement or conditional expression)
        whose result is exactly conv(<m>)?"""
        found, why = False, f"no isinstance(magnitude, {test_type}) arm"
        for n in ast.walk(fn):
            test = body_expr = None
            extra = 0
            if isinstance(n, ast.If):
                test = n.test
                if len(n.body) >= 1 and isinstance(n.body[0], (ast.Assign, ast.Return)):
                    body_expr = n.body[0].value
                    extra = len(n.body) - 1
            elif isinstance(n, ast.IfExp):
                test, body_expr = n.test, n.body
            if test is None or body_expr is None:
                continue
            tt = ast.unparse(test).replace(" ", "")
            if not (tt.startswith("isinstance(") and tt.endswith(f",{test_type})")):
                continue
            var = tt[len("isinstance("):-len(f",{test_type})")]
            got = ast.unparse(body_expr).replace(" ", "")
            if got == f"{conv}({var})" and extra == 0:
                return True, ""
            found, why = False, f"the {test_type} arm does `{ast.unparse(body_expr)[:60]}`" + (f" (+{extra} more statements)" if extra else "")
        return found, why
    wok, wwhy = conversion_arms(w.node, "Decimal", "str")
    rep.check("R15.3", "Quantity.__json__:decimal", wok, f"Quantity.__json__: {wwhy}; exactly Decimal magnitudes must be written as str", w.where())
    rok, why = conversion_arms(rd.node, "str", "Decimal")
    rep.check("R15.3", "Quantity.__from_json__:decimal", rok, f"Quantity.__from_json__: {why}; a string magnitude was written for a Decimal "
              "and must come back as Decimal(text) - anything else changes the magnitude type", rd.where())

    # R15.4
    sites = {"Quantity.__json__": None, "Quantity.__composite_values__": None}
    for q in sites:
        fi = prog.func(q)
        texts = [ast.unparse(n) for n in ast.walk(fi.node) if isinstance(n, ast.Call) and isinstance(n.func, ast.Name) and n.func.id == "str"
                 and n.args and ast.unparse(n.args[0]) == "self.unit"]
        other = [ast.unparse(n)[:40] for n in ast.walk(fi.node)
                 if (isinstance(n, ast.Call) and isinstance(n.func, ast.Name) and n.func.id in ("repr", "format") and "unit" in ast.unparse(n))
                 or (isinstance(n, ast.FormattedValue) and "unit" in ast.unparse(n.value))]
        rep.check("R15.4", f"{q}:unit-text", bool(texts) and not other,
                  f"{q} stores the unit as {other or 'something other than str(self.unit)'}: the reader (Unit.parse) reads the str() format", fi.where())
    qi = prog.func("Quantity.__init__")
    reads = {t for cs in resolver.callsites(qi.qual) for t in cs.targets}
    for t in list(reads):
        if t in prog.functions and prog.functions[t].module == "" and prog.functions[t].cls is None:
            reads |= {t2 for cs in resolver.callsites(t) for t2 in cs.targets}   # a one-step helper such as _as_unit
    rep.check("R15.4", "Quantity.__init__:reader", "Unit.parse" in reads,
              "Quantity.__init__ no longer reads a unit text with Unit.parse: the stored str(unit) has no reader", qi.where())
    ev = evaluate()
    from .c13 import prefixed_named_units
    rep.rule("R15.14", "a quantity in a prefixed shipped named unit has a unit text the decoder can read (the members of the recorded leading-magnitude "
             "defect, unit by unit - shared with C13 R13.9)", floor=100)
    prefixed_named_units(rep, ev, "R15.14", "a quantity in that unit stored as JSON / SQL composite (unit text is str(unit)) does not decode")
    sh = extract_shipped()
    tables = normalise(sh.data, sh.memo)
    sa = StrAbs(prog, resolver)
    drv = Driver(tables)
    wtables = {"PREFIX_SYMBOL": sorted(ev.prefix_by_symbol),
               "UNIT_SYMBOL": sorted(s for s, u in ev.unit_by_symbol.items() if u.is_base and u.symbols and u.symbols[0] == s)}
    lang = sa.function("formatting.unit_str")
    bad: Dict[str, Tuple[str, str]] = {}
    n_ok = 0
    for a in lang.alts:
        if any(it[0] == "cls" and it[1] == "DECIMAL" for it in a):
            continue
        for text, spans in instantiate(a, wtables, sa.superscripts, rep.tier == "thorough"):
            ok, msg, pos = drv.parse_at(text, "unit")
            if ok:
                n_ok += 1
                continue
            piece = next(((c, r) for s0, e0, c, r in spans if s0 <= pos < e0), ("end", "end"))
            bad.setdefault(f"unit-text:{piece[0]}@{piece[1]}", (text, msg))
    for key, (text, msg) in sorted(bad.items()):
        rep.fail("R15.4", key, f"the stored unit text can be {text!r}, which Unit.parse rejects ({msg}): such a quantity does not "
                 "decode from JSON / the SQL composite", prog.func("formatting.unit_str").where())
    rep.ok("R15.4", "unit-text:accepted", note={"witnesses_accepted": n_ok})

    # R15.8: the stored unit text must also *resolve* back to the same unit (shared with C13 R13.2)
    from ..grammar import extract_shipped as _es, normalise as _norm
    from .c13 import symbol_regex, symbol_table
    _sh = _es()
    symbol_table(rep, ev, symbol_regex(_norm(_sh.data, _sh.memo)), rep.tier == "thorough", rid1="R15.8", rid2="R15.8",
                 consequence="a quantity in that unit comes back from JSON / the SQL composite as a quantity of another unit")
    structural_decoding(rep, prog, "R15.7")
    codec_hooks(rep, prog)
    decoders_are_readers(rep, prog, resolver)
    from ..quantity_rules import check_quantity_ctor
    check_quantity_ctor(rep, prog, "R03.7")
    from ..quantity_rules import check_numeric_memo
    check_numeric_memo(rep, prog, resolver, "R15.9")
    from .c19 import memo_over_registries
    memo_over_registries(rep, prog, resolver, "R15.10")
    # R15.5
    uf = prog.func("Unit.__from_json__")
    jparam = uf.params()[1]
    base_ok = False
    udefs: Dict[str, ast.AST] = {}
    for n in ast.walk(uf.node):
        if isinstance(n, ast.Assign) and len(n.targets) == 1 and isinstance(n.targets[0], ast.Name):
            udefs.setdefault(n.targets[0].id, n.value)
        elif isinstance(n, ast.AnnAssign) and isinstance(n.target, ast.Name) and n.value is not None:
            udefs.setdefault(n.target.id, n.value)

    def expanded(e: ast.AST, depth: int = 0) -> str:
        """Text of e plus the text of the local definitions it uses."""
        txt = ast.unparse(e).replace('"', "'")
        if depth < 3:
            for x in ast.walk(e):
                if isinstance(x, ast.Name) and x.id in udefs and x.id != jparam:
                    txt += " " + expanded(udefs[x.id], depth + 1)
        return txt
    for n in ast.walk(uf.node):
        if isinstance(n, (ast.If, ast.IfExp)) and f"{jparam}['factors']" in expanded(n.test):
            for sub in ast.walk(n):
                if isinstance(sub, ast.Subscript) and ast.unparse(sub.value).endswith("._by_name") and f"{jparam}['name']" in expanded(sub.slice):
                    base_ok = True
                if isinstance(sub, ast.Call) and ast.unparse(sub.func).endswith(".named"):
                    base_ok = True
    rep.check("R15.5", "Unit.__from_json__:base-by-name", base_ok,
              "a unit serialised without factors (a base unit) is no longer resolved by its name", uf.where())
    ctor = [cs for cs in resolver.callsites(uf.qual) if cs.external == "ctor:Unit" and (len(cs.args) + len(cs.kwargs)) >= 3]
    rep.check("R15.5", "Unit.__from_json__:derived", bool(ctor),
              "derived units are not rebuilt through the interning constructor Unit(prefix, factors, dimension)", uf.where())
    unnamed = [u for u in ev.unit_by_id.values() if u.is_base and not u.names]
    rep.check("R15.5", "base-units-named", not unnamed, f"{len(unnamed)} base unit(s) without a name cannot be decoded", "")
    uj = prog.func("Unit.__json__")
    marker = False
    local_defs = {n.targets[0].id: n.value for n in ast.walk(uj.node) if isinstance(n, ast.Assign) and len(n.targets) == 1 and isinstance(n.targets[0], ast.Name)}
    v = written_dict(uj.node).get("factors")
    if v is not None:
        e = local_defs.get(v.id, v) if isinstance(v, ast.Name) else v
        txt = ast.unparse(e)
        marker = "None" in txt or any(isinstance(x, ast.Assign) and "None" in ast.unparse(x.value) and isinstance(v, ast.Name)
                                      and any(isinstance(t, ast.Name) and t.id == v.id for t in x.targets) for x in ast.walk(uj.node))
    rep.check("R15.5", "Unit.__json__:base-marker", marker,
              "Unit.__json__ no longer marks base units by factors = None (the reader's test for a base unit)", uj.where())

    # R15.6
    qc = prog.cls("Quantity")
    hooks = [h for h in PICKLE_HOOKS if h in qc.methods or h in qc.aliases]
    okq = True
    why = ""
    for h in hooks:
        fi = prog.functions.get(qc.methods.get(h, ""))
        txt = ast.unparse(fi.node) if fi else ast.unparse(qc.aliases[h])
        if "self.unit" not in txt.replace("str(self.unit)", "") or "__composite_values__" in txt or "str(self.unit)" in txt:
            okq = False
            why = f"Quantity.{h} routes the unit through its text form"
    rep.check("R15.6", "Quantity:pickle-carries-unit", okq, f"{why}: pickle/copy re-parse str(unit), so the unit comes back as another "
              "object (kg for Kilo*Gram) or fails to parse", f"{qc.path}:{qc.node.lineno}")
    rep.check("R15.6", "Quantity:slots", "__slots__" in qc.class_attrs or not hooks, "Quantity lost its __slots__ (default pickling relied on them)", f"{qc.path}:{qc.node.lineno}")
    # R15.16: the decoder reads numbers the way the encoder writes them.  MeasuredJSONEncoder leaves numbers to the json module
    # (ints, floats incl. Infinity / NaN as json writes them); a decoder that installs its own parse_float / parse_int /
    # parse_constant - anything but handing the caller's argument through - changes the type or rejects what was written
    dinit = prog.func("json.MeasuredJSONDecoder.__init__")
    dparams = set(dinit.params())
    sup_calls = [c for c in ast.walk(dinit.node) if isinstance(c, ast.Call) and isinstance(c.func, ast.Attribute) and c.func.attr == "__init__"]
    for c in sup_calls:
        for kw in c.keywords:
            if kw.arg in ("parse_float", "parse_int", "parse_constant"):
                plain = (isinstance(kw.value, ast.Name) and kw.value.id in dparams) or (isinstance(kw.value, ast.Constant) and kw.value.value is None)
                rep.check("R15.16", f"MeasuredJSONDecoder.__init__:{kw.arg}", plain,
                          f"MeasuredJSONDecoder passes `{kw.arg}={ast.unparse(kw.value)[:50]}` to the json decoder: numbers are no longer read back the way "
                          "MeasuredJSONEncoder wrote them (a float('inf') magnitude is written as Infinity and then refused, or comes back as another type)",
                          dinit.where(kw.value))
    if not sup_calls:
        rep.defer(AnalysisError("MeasuredJSONDecoder.__init__ no longer calls the json decoder's __init__ (R15.16 anchor moved)"))
    # R15.15: a unit's prefix and dimension travel as their own structural encodings.  A name (or symbol) in their place
    # cannot carry an anonymous prefix (Byte's 2**3, Kilo*Hecto) or an unnamed dimension: it decodes as the identity
    ujw = written_dict(prog.func("Unit.__json__").node)
    local_u: Dict[str, List[ast.AST]] = {}
    for n in ast.walk(prog.func("Unit.__json__").node):
        if isinstance(n, ast.Assign) and len(n.targets) == 1 and isinstance(n.targets[0], ast.Name):
            local_u.setdefault(n.targets[0].id, []).append(n.value)
        elif isinstance(n, ast.AnnAssign) and isinstance(n.target, ast.Name) and n.value is not None:
            local_u.setdefault(n.target.id, []).append(n.value)

    def _alts(e: Optional[ast.AST], depth: int = 0) -> List[Optional[ast.AST]]:
        """what may be written: every definition of a local, both arms of a conditional expression"""
        if isinstance(e, ast.Name) and e.id in local_u and depth < 4:
            return [a for d in local_u[e.id] for a in _alts(d, depth + 1)]
        if isinstance(e, ast.IfExp):
            return _alts(e.body, depth + 1) + _alts(e.orelse, depth + 1)
        return [e]
    for fld in ("prefix", "dimension"):
        v = ujw.get(fld)
        cands = [a for a in _alts(v) if not (isinstance(a, ast.Constant) and a.value is None)] if v is not None else []
        structural = bool(cands) and all(a is not None and any(isinstance(c, ast.Call) and isinstance(c.func, ast.Attribute) and c.func.attr == "__json__"
                                                               for c in ast.walk(a)) for a in cands)
        if cands:
            v = next((a for a in cands if a is not None and not any(isinstance(c, ast.Call) and isinstance(c.func, ast.Attribute) and c.func.attr == "__json__"
                                                                    for c in ast.walk(a))), v)
        rep.check("R15.15", f"Unit.__json__:{fld}", structural,
                  f"Unit.__json__ writes `{ast.unparse(v)[:60] if v is not None else None}` under {fld!r}: not the {fld}'s own __json__() encoding, so a unit whose "
                  f"{fld} has no name (byte carries 2**3; kilo*hecto) comes back with the identity {fld} - another unit", prog.func("Unit.__json__").where(v))
    # R15.17: what a writer stored comes back as it was stored.  The writers store numbers raw (a prefix exponent is a float for
    # Kilo * Byte or Kibi * Kilo, a dimension exponent an int); a reader that passes them through int() / round() / float() /
    # abs() on the way to the constructor decodes another object (1 kB comes back as 4096 b)
    n17 = 0
    for cname in ("Dimension", "Prefix", "Unit", "Quantity"):
        rq = prog.cls(cname).methods.get("__from_json__")
        if rq is None:
            continue
        rfi = prog.func(rq)
        jp = rfi.params()[1] if len(rfi.params()) > 1 else "json_object"
        tainted = {jp}
        for _ in range(3):
            for st in ast.walk(rfi.node):
                if isinstance(st, ast.Assign) and any(isinstance(x, ast.Name) and x.id in tainted for x in ast.walk(st.value)):
                    for t in st.targets:
                        tainted |= {x.id for x in ast.walk(t) if isinstance(x, ast.Name)}
        lossy = [c for c in ast.walk(rfi.node) if isinstance(c, ast.Call) and ast.unparse(c.func) in ("int", "float", "round", "abs", "math.floor", "math.ceil", "math.trunc",
                                                                                                    "floor", "ceil", "trunc")
                 and any(isinstance(x, ast.Name) and x.id in tainted for a in c.args for x in ast.walk(a))]
        n17 += 1
        rep.check("R15.17", f"{cname}.__from_json__:verbatim", not lossy,
                  f"{cname}.__from_json__ passes a stored number through `{ast.unparse(lossy[0])[:50] if lossy else ''}`: the writer stores it as it is (a prefix exponent is "
                  "fractional for Kilo * Byte, Kibi * Kilo, Giga / Gibi), so another object is decoded (1 kB comes back as 4096 b)", rfi.where(lossy[0] if lossy else None))
    # R15.13: the pydantic form is the JSON form - nothing of pydantic's own stands between the wire and __from_json__
    pydantic_schema(rep, prog)
    rep.not_decided += ["equality of decoded float magnitudes (json float repr round-trip is trusted)", "third-party pickle variants beyond the pickle protocol hooks"]
    rep.trust("json/pickle/copy protocol semantics of CPython; E5 tables; shipped parser tables (C16)")
