"""C19 - declared names/symbols bind faithfully; failed definitions change nothing."""
from __future__ import annotations

import ast
from typing import Dict, List, Optional, Set, Tuple

from ..calls import Reach, Resolver
from ..cfg import CFG
from ..core import AnalysisError, Report
from ..decl import NON_DECL_MODULES, Evaluator
from ..effects import NAMING_ATTRS, Write, handlers_around, raise_sites, reads_in, writes_in
from ..model import FuncInfo, Program
from .c09 import evaluate, shipped_modules

TITLE = "Declared names/symbols bind faithfully; failed definitions change nothing"
ENTRIES = ["Unit.define", "Unit.alias", "Unit.derive", "Unit.__init__", "Dimension.define", "Dimension.derive",
           "Dimension.__init__", "Prefix.__init__", "Dimension.unit", "Dimension.scale"]
# Dimension.scale defines the unit and then calls translate(); translate()'s `scale == zero.unit` guard
# cannot fire for a unit that was defined a statement earlier (the zero point was built before it
# existed), so that one raise is recognised as infeasible (_fresh_unit_guard) - any other raise that
# translate() may grow is a raise after the registration.
NAME_ATTRS = ("name", "symbol", "names", "symbols")


def naming_writes(prog: Program, resolver: Resolver, q: str) -> List[Write]:
    fi = prog.functions[q]
    out = []
    for w in writes_in(prog, resolver, q):
        kind = w.location.split(".")[-1]
        if kind in NAMING_ATTRS:
            out.append(w)
        elif kind == "_known" and (w.how == "delete" or any(x in w.how for x in ("pop", "clear", "remove"))):
            # an entry taken *out* of an intern table (re-keying, eviction): unlike the insertion of a fresh object by __new__,
            # this changes what existing keys resolve to
            out.append(w)
        elif w.location.startswith("attr:"):
            # attribute initialisation of the fresh object inside __init__ does not count
            tgt = None
            n = w.node
            if isinstance(n, ast.Assign):
                tgt = n.targets[0]
            elif isinstance(n, (ast.AugAssign, ast.AnnAssign)):
                tgt = n.target
            flat = list(tgt.elts) if isinstance(tgt, (ast.Tuple, ast.List)) else [tgt]
            recvs = {ast.unparse(t.value) for t in flat if isinstance(t, ast.Attribute)}
            if fi.name == "__init__" and recvs == {"self"} and _is_plain_init_store(fi, n):
                continue
            out.append(w)
    return out


def _is_plain_init_store(fi: FuncInfo, n: ast.AST) -> bool:
    """self.name = name / self.names = tuple() in __init__ (initialising the new object), also
    as a tuple assignment `self.names, self.symbols = tuple(), tuple()`."""
    def plain(v: Optional[ast.AST]) -> bool:
        return isinstance(v, (ast.Name, ast.Constant)) or (isinstance(v, ast.Call) and ast.unparse(v.func) in ("tuple", "list") and not v.args)
    v = getattr(n, "value", None)
    if isinstance(v, (ast.Tuple, ast.List)):
        return all(plain(x) for x in v.elts)
    return plain(v)


def _fresh_unit_guard(prog: Program, func: str, node: ast.AST) -> bool:
    """`if scale == zero.unit: raise` in conversions.translate: scale-versus-the-zero-point's-unit."""
    if func != "conversions.translate":
        return False
    fi = prog.functions[func]
    ps = fi.params()
    if len(ps) < 2:
        return False
    p = getattr(node, "_parent", None)
    if not isinstance(p, ast.If) or not any(node is x for x in p.body):
        return False
    t = p.test
    if not (isinstance(t, ast.Compare) and len(t.ops) == 1 and isinstance(t.ops[0], (ast.Eq, ast.Is))):
        return False
    sides = {ast.unparse(t.left).replace(" ", ""), ast.unparse(t.comparators[0]).replace(" ", "")}
    return sides == {ps[0], f"{ps[1]}.unit"}


class Summary:
    """Per entry point, over the context-pruned reachable set (arguments such as name=None decide guards in
    the callees: unit arithmetic inside an error message constructs prefixes, but never names them)."""

    def __init__(self, prog: Program, resolver: Resolver, reach: Optional[Reach] = None) -> None:
        self.prog, self.r = prog, resolver
        self.reach = reach
        self.wr: Dict[str, bool] = {}
        self.rs: Dict[str, bool] = {}
        self.bad: Dict[str, Optional[Tuple[str, ast.AST, str, ast.AST]]] = {}

    def _feasible(self, q: str, node: ast.AST) -> bool:
        return self.reach is None or q not in self.reach.reached or self.reach.feasible_node(q, node)

    def _writes(self, q: str) -> List[Write]:
        return [w for w in naming_writes(self.prog, self.r, q) if self._feasible(q, w.node)]

    def _sites(self, q: str):
        if self.reach is not None and q in self.reach.reached:
            return self.reach.sites.get(q, [])
        return self.r.callsites(q)

    def may_write(self, q: str, stack: Tuple[str, ...] = ()) -> bool:
        if q in self.wr:
            return self.wr[q]
        if q in stack:
            return False
        r = bool(self._writes(q))
        if not r:
            for cs in self._sites(q):
                if any(self.may_write(t, stack + (q,)) for t in cs.targets):
                    r = True
                    break
        self.wr[q] = r
        return r

    def may_raise(self, q: str, stack: Tuple[str, ...] = ()) -> bool:
        if q in self.rs:
            return self.rs[q]
        if q in stack:
            return False
        fi = self.prog.functions[q]
        r = False
        for x in raise_sites(self.prog, q):
            if x.kind in ("raise", "assert", "reraise") and not handlers_around(fi, x.node) and not _fresh_unit_guard(self.prog, q, x.node) \
                    and self._feasible(q, x.node):
                r = True
        if not r:
            for cs in self._sites(q):
                if handlers_around(fi, cs.node):
                    continue
                if any(self.may_raise(t, stack + (q,)) for t in cs.targets):
                    r = True
                    break
        self.rs[q] = r
        return r

    def write_then_raise(self, q: str, stack: Tuple[str, ...] = ()) -> Optional[Tuple[str, ast.AST, str, ast.AST]]:
        """A CFG path inside q (or inside a callee) on which a naming write precedes a raise:
        -> (function of the write, write node, function of the raise, raise node)"""
        if q in self.bad:
            return self.bad[q]
        if q in stack:
            return None
        self.bad[q] = None
        fi = self.prog.functions[q]
        cfg = CFG(fi.node)
        w_nodes: Dict[int, Tuple[str, ast.AST]] = {}
        r_nodes: Dict[int, Tuple[str, ast.AST]] = {}
        for w in self._writes(q):
            n = cfg.node_of(w.node)
            if n is not None:
                w_nodes.setdefault(n, (q, w.node))
        for x in raise_sites(self.prog, q):
            if x.kind in ("raise", "assert", "reraise") and not handlers_around(fi, x.node) and not _fresh_unit_guard(self.prog, q, x.node) \
                    and self._feasible(q, x.node):
                n = cfg.node_of(x.node)
                if n is not None:
                    r_nodes.setdefault(n, (q, x.node))
        res = None
        for cs in self._sites(q):
            n = cfg.node_of(cs.node)
            if n is None:
                continue
            wrote_in: Optional[str] = None
            for t in cs.targets:
                inner = self.write_then_raise(t, stack + (q,))
                if inner is not None and res is None and not handlers_around(fi, cs.node):
                    res = inner
                # a constructor call runs __new__ and then __init__: a name registered by the first is there when the second rejects
                if cs.external and cs.external.startswith("ctor:") and wrote_in and self.may_raise(t) and res is None and not handlers_around(fi, cs.node):
                    res = (wrote_in, cs.node, t, cs.node)
                if self.may_write(t):
                    wrote_in = wrote_in or t
                    w_nodes.setdefault(n, (t, cs.node))
                if self.may_raise(t) and not handlers_around(fi, cs.node):
                    r_nodes.setdefault(n, (t, cs.node))
        if res is None:
            for wn, (wf, wnode) in w_nodes.items():
                after = cfg.reachable_after(wn)
                for rn, (rf, rnode) in r_nodes.items():
                    if rn in after and rn != wn:
                        res = (wf, wnode, rf, rnode)
                        break
                if res:
                    break
        self.bad[q] = res
        return res


def _conditions(fi: FuncInfo, node: ast.AST) -> List[Tuple[str, bool, ast.If]]:
    """(test text, arm, If) of every enclosing `if` of node, outermost first."""
    out: List[Tuple[str, bool, ast.If]] = []
    child = node
    p = getattr(node, "_parent", None)
    while p is not None and p is not fi.node:
        if isinstance(p, ast.If):
            arm = any(child is x for x in p.body)
            out.append((ast.unparse(p.test).replace(" ", ""), arm, p))
        child = p
        p = getattr(p, "_parent", None)
    return list(reversed(out))


def guarded_bindings(rep: Report, prog: Program, resolver: Resolver) -> None:
    """R19.2: registry[k] = v is preceded, on every path that reaches it, by a raising test that k is
    unbound or bound to v.  The test may name the registry through a local alias, use `k in reg and
    reg[k] is not v` or `reg.get(k, v) is not v` (directly or through a local), and may sit under the
    same condition as the store (`if name: <guard>` ... `if name: <store>`)."""
    from ..effects import local_aliases, location_of
    n = 0
    for q, fi in prog.functions.items():
        if fi.module in ("hypothesis", "pytest"):
            continue
        cfg = None
        for w in writes_in(prog, resolver, q):
            kind = w.location.split(".")[-1]
            if kind not in ("_by_name", "_by_symbol") or w.how != "store":
                continue
            node = w.node
            tgt = node.targets[0] if isinstance(node, ast.Assign) else None
            if not isinstance(tgt, ast.Subscript):
                continue
            n += 1
            reg = ast.unparse(tgt.value)
            keytxt = ast.unparse(tgt.slice)
            cfg = cfg or CFG(fi.node)
            dom = cfg.dominators()
            wn = cfg.node_of(node)
            wconds = {(t, a) for t, a, _ in _conditions(fi, node)}
            al = local_aliases(fi)
            assigned_names = {x.id for st in ast.walk(fi.node) if isinstance(st, (ast.Assign, ast.AugAssign))
                              for t in (st.targets if isinstance(st, ast.Assign) else [st.target]) for x in ast.walk(t) if isinstance(x, ast.Name) and isinstance(x.ctx, ast.Store)}
            ok = False
            for g in ast.walk(fi.node):
                if not (isinstance(g, ast.If) and g.body and isinstance(g.body[-1], ast.Raise)):
                    continue
                if any(node is x for b in g.body for x in ast.walk(b)):
                    continue
                # what the test talks about, with locals expanded
                exprs: List[ast.AST] = [g.test]
                for x in ast.walk(g.test):
                    if isinstance(x, ast.Name) and x.id in al and x.id not in fi.params():
                        exprs += al[x.id]
                names = {x.id for e in exprs for x in ast.walk(e) if isinstance(x, ast.Name)}
                key_names = {x.id for x in ast.walk(tgt.slice) if isinstance(x, ast.Name)}
                mentions_reg = any(location_of(prog, resolver, fi, x) == w.location for e in exprs for x in ast.walk(e)
                                   if isinstance(x, (ast.Name, ast.Attribute)))
                if not mentions_reg and fi.cls:
                    # the test may sit in a one-expression predicate of the class: `self._name_taken_by_another(name)`
                    for c_ in ast.walk(g.test):
                        if isinstance(c_, ast.Call) and isinstance(c_.func, ast.Attribute) and isinstance(c_.func.value, ast.Name) \
                                and c_.func.value.id in ("self", "cls", fi.cls) and f"{fi.cls}.{c_.func.attr}" in prog.functions:
                            hfi_ = prog.functions[f"{fi.cls}.{c_.func.attr}"]
                            hb_ = [x for x in hfi_.node.body if not (isinstance(x, ast.Expr) and isinstance(x.value, ast.Constant))]  # type: ignore[attr-defined]
                            if len(hb_) == 1 and isinstance(hb_[0], ast.Return) and hb_[0].value is not None \
                                    and any(location_of(prog, resolver, hfi_, x) == w.location for x in ast.walk(hb_[0].value)
                                            if isinstance(x, (ast.Name, ast.Attribute))):
                                mentions_reg = True
                if not (mentions_reg and key_names and key_names <= names):
                    continue
                # position: the guard's outermost enclosing `if` dominates the store, and the guard runs under
                # no condition the store does not also run under
                gconds = _conditions(fi, g)
                outer = gconds[0][2] if gconds else g
                on = cfg.node_of(outer)
                cond_ok = all((t, a) in wconds for t, a, _ in gconds) and not ({x for t, a, i in gconds for x in
                              {y.id for y in ast.walk(i.test) if isinstance(y, ast.Name)}} & (assigned_names - set(al)))
                if wn is not None and on is not None and on in dom.get(wn, set()) and cond_ok:
                    ok = True
            if not ok:
                # the validation may live in a helper of the class that is called, with the key, before the store
                for cs in resolver.callsites(q):
                    if not (cs.kind == "call" and cs.targets and isinstance(cs.node, ast.Call)):
                        continue
                    cn = cfg.node_of(cs.node)
                    if cn is None or wn is None or cn not in dom.get(wn, set()) or cn == wn:
                        continue
                    if _conditions(fi, cs.node) and not all((t_, a_) in wconds for t_, a_, _ in _conditions(fi, cs.node)):
                        continue
                    for tq in cs.targets:
                        h = prog.functions.get(tq)
                        if h is None or h.cls != fi.cls:
                            continue
                        hps = h.params()[1:] if cs.bound else h.params()
                        amap = {p_: ast.unparse(a_) for p_, a_ in zip(hps, cs.args)}
                        amap.update({k_: ast.unparse(v_) for k_, v_ in cs.kwargs.items()})
                        for g in ast.walk(h.node):
                            if not (isinstance(g, ast.If) and g.body and isinstance(g.body[-1], ast.Raise)):
                                continue
                            gnames = {amap.get(x.id, x.id) for x in ast.walk(g.test) if isinstance(x, ast.Name)}
                            mentions = any(location_of(prog, resolver, h, x) == w.location for x in ast.walk(g.test) if isinstance(x, (ast.Name, ast.Attribute)))
                            key_names = {x.id for x in ast.walk(tgt.slice) if isinstance(x, ast.Name)}
                            if mentions and key_names and key_names <= gnames:
                                ok = True
            rep.check("R19.2", f"{q}:{reg}[{keytxt}]", ok,
                      f"`{ast.unparse(node)}` binds {keytxt} without first rejecting a key already bound to another object: "
                      "a name or symbol can be silently rebound to a second object", fi.where(node))
    if n < 4:
        raise AnalysisError(f"only {n} registry bindings found (floor 4)")


def _initialized_decider(value: bool):
    """decide(test) for `if self._initialized:` / `if not self._initialized:` given the flag's value."""
    def decide(t: ast.AST) -> Optional[bool]:
        txt = ast.unparse(t).replace(" ", "")
        if txt in ("self._initialized", "self._initializedisTrue"):
            return value
        if txt in ("notself._initialized", "self._initializedisFalse"):
            return not value
        return None
    return decide


def late_naming(rep: Report, prog: Program, resolver: Resolver, ev: Evaluator) -> Dict[str, bool]:
    """R19.3: a class whose constructor is the declaring API (called with name=/symbol= in
    shipped declarations) must register a name given for an already-interned instance."""
    decl_classes: Dict[str, int] = {}
    for c in ev.trace:
        if c.kind in ("Prefix",) and c.named:
            decl_classes[c.kind] = decl_classes.get(c.kind, 0) + 1
    handles: Dict[str, bool] = {}
    for cls in ("Prefix", "Dimension", "Unit"):
        fi = prog.func(f"{cls}.__init__")
        # what runs for an instance that is already initialised: does it look at name/symbol?
        cfg = CFG(fi.node).pruned(_initialized_decider(True))
        live = cfg.reachable(cfg.entry)
        ok = False
        looks: Set[int] = set()
        for nid in live:
            nd = cfg.nodes[nid]
            if nd.ast is None or isinstance(nd.ast, ast.Return):
                continue
            if nd.kind == "test" and isinstance(nd.ast, (ast.If, ast.While)):
                # a decision taken on the given name / symbol looks at it (`if name or symbol:`)
                if {"name", "symbol"} & {x.id for x in ast.walk(nd.ast.test) if isinstance(x, ast.Name)}:
                    looks.add(nid)
                continue
            if nd.kind != "stmt":
                continue
            used = {x.id for x in ast.walk(nd.ast) if isinstance(x, ast.Name)}
            acts = any(isinstance(x, (ast.Call, ast.Assign, ast.Raise)) for x in ast.walk(nd.ast))
            if {"name", "symbol"} & used and acts:
                ok = True
                looks.add(nid)
        # ... and on *every* path of that arm: a guard on the instance's own state (`if self.name is None:`) in front of the
        # registration drops the declaration for some instances
        if ok and cfg.exit_return in cfg.reachable(cfg.entry, avoid=looks):
            ok = False
        handles[cls] = ok
        if cls in decl_classes:
            rep.check("R19.3", f"{cls}.__init__:initialized-path", ok,
                      f"{cls}(..., name=, symbol=) is the declaring API ({decl_classes[cls]} shipped declarations) but for an "
                      "already interned instance __init__ can return without looking at name/symbol: a structurally equal "
                      "object created earlier makes the declaration a silent no-op", fi.where())
        else:
            rep.inventory("R19.3i", {"class": cls, "early_return_ignores_names": not ok,
                                     "note": "declaring APIs are define/derive/alias, not the constructor"})
    return handles


def interned_construction(rep: Report, prog: Program, resolver: Resolver, summ: "Summary", handles: Dict[str, bool]) -> None:
    """R19.7 / R19.8: __new__ interns the instance *before* __init__ validates anything, so a
    rejected definition leaves whatever __init__ had done so far in the intern table.
      R19.7  at every point where __init__ can raise, every attribute __init__ gives the object has
             already been assigned (no half-built object stays interned);
      R19.8  `_initialized = True` is not set before a point that can still raise, unless the
             already-initialised arm registers the name itself (otherwise the rejected call leaves an
             initialised anonymous object and the next valid declaration is a silent no-op)."""
    for cls in ("Dimension", "Prefix", "Unit"):
        new = prog.func(f"{cls}.__new__")
        if not any("_known" in w.location for w in writes_in(prog, resolver, new.qual)):
            rep.ok("R19.7", f"{cls}.__init__", note="not interned by __new__")
            rep.ok("R19.8", f"{cls}.__init__", note="not interned by __new__")
            continue
        fi = prog.func(f"{cls}.__init__")
        # the paths a *fresh* instance takes (an initialised one was completed by an earlier call)
        cfg = CFG(fi.node).pruned(_initialized_decider(False))
        live = cfg.reachable(cfg.entry)
        stores: Dict[int, str] = {}
        for st in ast.walk(fi.node):
            tgts = st.targets if isinstance(st, ast.Assign) else ([st.target] if isinstance(st, (ast.AnnAssign, ast.AugAssign)) else [])
            tgts = [x for t in tgts for x in (t.elts if isinstance(t, (ast.Tuple, ast.List)) else [t])]
            for t in tgts:
                if isinstance(t, ast.Attribute) and isinstance(t.value, ast.Name) and t.value.id == "self":
                    n = cfg.node_of(st)
                    if n is not None:
                        stores[n] = t.attr if n not in stores else stores[n] + "," + t.attr
        required = {a for v in stores.values() for a in v.split(",")} - {"_initialized"}
        rnodes: List[Tuple[int, ast.AST, str]] = []
        for x in raise_sites(prog, fi.qual):
            if x.kind in ("raise", "assert", "reraise") and not handlers_around(fi, x.node):
                n = cfg.node_of(x.node)
                if n is not None:
                    rnodes.append((n, x.node, fi.qual))
        for cs in resolver.callsites(fi.qual):
            n = cfg.node_of(cs.node)
            if n is None or handlers_around(fi, cs.node):
                continue
            for t in cs.targets:
                if summ.may_raise(t):
                    rnodes.append((n, cs.node, t))
                    break
        if not rnodes:
            rep.ok("R19.7", f"{cls}.__init__", note="nothing in __init__ can raise")
            rep.ok("R19.8", f"{cls}.__init__", note="nothing in __init__ can raise")
            continue
        init_nodes = [n for n, v in stores.items() if "_initialized" in v.split(",")]
        must = cfg.must_before({n: set(v.split(",")) for n, v in stores.items()})
        rnodes = [r for r in rnodes if r[0] in live]
        if not rnodes:
            rep.ok("R19.7", f"{cls}.__init__", note="only the already-initialised path can raise")
            rep.ok("R19.8", f"{cls}.__init__", note="only the already-initialised path can raise")
            continue
        for n, node, who in rnodes:
            have = must.get(n, set())
            missing = sorted(required - have)
            rep.check("R19.7", f"{cls}.__init__:{ast.unparse(node)[:40]}", not missing,
                      f"`{ast.unparse(node)[:60]}` ({who}) can raise while the instance - already interned by {cls}.__new__ - has no "
                      f"{', '.join(missing)} yet: the half-built object stays in {cls}._known and later readers of that table fail",
                      fi.where(node))
            early = [i for i in init_nodes if n in cfg.reachable_after(i) and n != i]
            rep.check("R19.8", f"{cls}.__init__:{ast.unparse(node)[:40]}", not early or handles.get(cls, False),
                      f"`self._initialized = True` is set before `{ast.unparse(node)[:60]}` ({who}) can still raise, and the "
                      "already-initialised arm ignores names: after a rejected definition the next valid declaration of that key "
                      "silently keeps name None", fi.where(node))


def key_directed_interning(rep: Report, prog: Program, handles: Dict[str, bool]) -> None:
    """R19.13: a constructor call names the object interned under the structural key *of that call*.  When the
    already-initialised arm of __init__ registers the name and symbol it is given (late naming), an object that
    __new__ fetched from a name or symbol registry instead - an object of another key - gets this call's symbol bound
    to it, and the duplicate-name test (`registry[name] is not self`) passes because the name is its own."""
    for cls in ("Dimension", "Prefix", "Unit"):
        new = prog.func(f"{cls}.__new__")
        by_name = [r for r in ast.walk(new.node) if isinstance(r, ast.Return) and r.value is not None
                   and any(isinstance(x, ast.Attribute) and x.attr in ("_by_name", "_by_symbol") for x in ast.walk(r.value))]
        # a local fetched from a naming registry and returned
        named_locals = {t.id for n in ast.walk(new.node) if isinstance(n, ast.Assign) for t in n.targets if isinstance(t, ast.Name)
                        and any(isinstance(x, ast.Attribute) and x.attr in ("_by_name", "_by_symbol") for x in ast.walk(n.value))}
        by_name += [r for r in ast.walk(new.node) if isinstance(r, ast.Return) and isinstance(r.value, ast.Name) and r.value.id in named_locals]
        late = handles.get(cls, False)
        rep.check("R19.13", f"{cls}.__new__", not (by_name and late),
                  f"{cls}.__new__ can return an object fetched by name (`{ast.unparse(by_name[0])[:60] if by_name else ''}`) although the call's "
                  f"structural key is not that object's, and {cls}.__init__ registers the given name and symbol on an already initialised "
                  "instance: a definition that repeats a taken name with another key no longer raises - it binds its new symbol to the "
                  "existing object", new.where(by_name[0]) if by_name else new.where(),
                  note=("fetches by name, but __init__ leaves an initialised instance untouched" if by_name else "returns only objects interned under the call's key"))


def no_asserts_in_definitions(rep: Report, prog: Program, resolver: Resolver) -> None:
    """R19.11: `python -O` deletes assert statements.  In the functions that validate and register names, an assert
    that carries the uniqueness test lets duplicates through, and one that carries the registration itself
    (`assert reg.setdefault(name, obj) is obj`) registers nothing."""
    reach = Reach(resolver, [q for q in ENTRIES if q in prog.functions])
    n = 0
    for f in sorted(reach.reached):
        fi = prog.functions[f]
        if fi.module != "" or fi.cls not in ("Dimension", "Prefix", "Unit"):
            continue
        touches = any(w.location.split(".")[-1] in NAMING_ATTRS or w.location.startswith("attr:") for w in writes_in(prog, resolver, f)) \
            or any(loc.split(".")[-1] in NAMING_ATTRS for loc, _ in reads_in(prog, resolver, f))
        if not touches:
            continue
        n += 1
        asserts = [a for a in Resolver._own_nodes(fi.node) if isinstance(a, ast.Assert)]
        rep.check("R19.11", f, not asserts,
                  f"{f} validates or registers names and contains `{ast.unparse(asserts[0])[:60] if asserts else ''}`: under python -O the statement - the "
                  "uniqueness test, or the registration it performs - does not exist", fi.where(asserts[0] if asserts else None))
    if n < 5:
        raise AnalysisError(f"only {n} naming functions found under the definition entry points")


def registries_are_dicts(rep: Report, prog: Program) -> None:
    """R19.12: every rule here reads `k in reg`, `reg[k]`, `reg.get(k)` and `reg[k] = v` as the operations of a builtin dict on
    the key as given.  A registry that is some other mapping (case-folding, weak, ordered-with-eviction) answers
    those differently from each other."""
    for cls in ("Dimension", "Prefix", "Unit"):
        ci = prog.cls(cls)
        for reg in ("_by_name", "_by_symbol"):
            v = ci.class_attrs.get(reg)
            if v is None:
                continue
            val = getattr(v, "value", v)
            ok = (isinstance(val, ast.Dict) and not val.keys) or (isinstance(val, ast.Call) and ast.unparse(val.func) == "dict" and not val.args and not val.keywords)
            rep.check("R19.12", f"{cls}.{reg}", bool(ok), f"{cls}.{reg} is initialised as `{ast.unparse(val)[:40] if val is not None else None}`, not a plain dict: "
                      "lookups through `in`, `[]` and `.get` need no longer agree with each other or with what was declared", f"{ci.path}:{getattr(v, 'lineno', ci.node.lineno)}")


def lookup_by_name(rep: Report, prog: Program) -> None:
    """R19.10: `named(name)` answers from the name registry with the given name and from nothing else.  Names and
    symbols are separate namespaces: routing the lookup through symbol resolution returns another unit whenever a
    declared name reads like a (prefixed) symbol."""
    # Prefix.resolve_symbol is the same kind of lookup over the prefix symbols: a respelling in front of the table ("u" -> "μ")
    # answers with another prefix than the one a later `Prefix(.., symbol="u")` declares
    for cls, meth, table in (("Unit", "named", "_by_name"), ("Dimension", "named", "_by_name"), ("Prefix", "resolve_symbol", "_by_symbol")):
        ci = prog.cls(cls)
        if meth not in ci.methods:
            continue
        fi = prog.functions[ci.methods[meth]]
        nm = fi.params()[1] if len(fi.params()) > 1 else "name"
        defs = {n.targets[0].id: n.value for n in ast.walk(fi.node) if isinstance(n, ast.Assign) and len(n.targets) == 1 and isinstance(n.targets[0], ast.Name)}
        rets = [r for r in ast.walk(fi.node) if isinstance(r, ast.Return) and r.value is not None]
        ok = bool(rets)
        bad = ""
        for r in rets:
            v = defs.get(r.value.id, r.value) if isinstance(r.value, ast.Name) else r.value
            # a local that only names the registry (`table = cls._by_name`) is the registry
            import copy as _copy

            class _Al(ast.NodeTransformer):
                def visit_Name(self, n_: ast.Name) -> ast.AST:
                    d_ = defs.get(n_.id)
                    return _copy.deepcopy(d_) if isinstance(d_, ast.Attribute) and d_.attr == table else n_
            v = _Al().visit(_copy.deepcopy(v))
            t = ast.unparse(v).replace(" ", "")
            good = (t.endswith(f".{table}[{nm}]") or t.endswith(f".{table}.get({nm})") or f".{table}.get({nm}," in t) and nm not in defs
            if not good and not (isinstance(v, ast.Constant) and v.value is None):
                ok, bad = False, ast.unparse(v)[:50]
        rep.check("R19.10", f"{cls}.{meth}", ok, f"{cls}.{meth} returns `{bad}` instead of the entry of the registry {table} for `{nm}`: a declared name or symbol "
                  "that is also another spelling (ft, pt, min; u for μ) resolves to a different object than the one it was declared for", fi.where())


def definitions_return_new(rep: Report, prog: Program, rid: str) -> None:
    """R19.14: `Unit.define(dimension, name, symbol)` declares a *new* base unit of that dimension.  If it answers with an object
    it found in a registry, the declaration's own dimension (and the zero point `Dimension.scale` goes on to record) is dropped
    silently: `Time.unit("meter", "m")` hands back the length unit."""
    fi = prog.func("Unit.define")
    defs: Dict[str, List[ast.AST]] = {}
    for st in ast.walk(fi.node):
        if isinstance(st, ast.Assign) and len(st.targets) == 1 and isinstance(st.targets[0], ast.Name):
            defs.setdefault(st.targets[0].id, []).append(st.value)

    def from_registry(e: ast.AST, depth: int = 0) -> bool:
        if isinstance(e, ast.Name) and depth < 3:
            return any(from_registry(d, depth + 1) for d in defs.get(e.id, []))
        return any(isinstance(x, ast.Attribute) and x.attr in ("_by_name", "_by_symbol", "_known") for x in ast.walk(e)) \
            and not (isinstance(e, ast.Call) and isinstance(e.func, ast.Name) and e.func.id in ("cls", "Unit"))
    rets = [r for r in ast.walk(fi.node) if isinstance(r, ast.Return) and r.value is not None]
    if not rets:
        raise AnalysisError("Unit.define: no return found")
    for r in rets:
        found = from_registry(r.value)
        # ... unless what was found is checked against what is being declared
        compared = any(isinstance(c, ast.Compare) and "dimension" in ast.unparse(c) for c in ast.walk(fi.node))
        rep.check(rid, f"Unit.define:return {ast.unparse(r.value)[:30]}", not found or compared,
                  f"Unit.define returns `{ast.unparse(r.value)[:40]}`, an object looked up in a registry, without comparing its dimension with the one being "
                  "declared: a repeated name and symbol silently turn a declaration of another unit into the existing one (Time.unit('meter', 'm') is the metre; "
                  "Temperature.scale(0 * Kelvin, 'celsius', '°C') overwrites the zero point of the existing scale)", fi.where(r))


def memo_over_registries(rep: Report, prog: Program, resolver: Resolver, rid: str) -> None:
    """No memoised function (transitively, context-pruned) reads a name/symbol registry: its answers
    would survive a later declaration."""
    from .c08 import NAMING, memo_functions
    n6 = 0
    for m in memo_functions(prog):
        sub = Reach(resolver, [m])
        regs = set()
        for g in sub.reached:
            for loc, node in reads_in(prog, resolver, g):
                if loc.split(".")[-1] in NAMING and sub.feasible_node(g, node):
                    regs.add(loc)
        if regs:
            n6 += 1
            fi = prog.functions[m]
            rep.fail(rid, m, f"{m} is memoised over {sorted(regs)}: after a later declaration, lookups by that name or symbol "
                     "keep returning the earlier answer", fi.where())
    if n6 == 0:
        rep.ok(rid, "package", note="no memoised function reads a name/symbol registry")


def run(rep: Report) -> None:
    prog = Program()
    resolver = Resolver(prog)
    rep.rule("R19.7", "no half-built interned object: wherever an interning class's __init__ can raise, every attribute it sets has "
             "already been assigned", floor=3)
    rep.rule("R19.8", "_initialized is not set before a point of __init__ that can still raise, unless the initialised arm registers names", floor=3)
    rep.rule("R19.1", "validate before mutate: in every definition entry point, followed through its callees, no raise is "
             "reachable after a write to a name/symbol registry or to the names of an existing object", floor=8)
    rep.rule("R19.2", "guarded binding: every registry[k] = v is dominated by a raising test that k is unbound or bound to v", floor=4)
    rep.rule("R19.3", "naming survives interning: a constructor that is the declaring API registers (or rejects) a name given "
             "for an already interned instance", floor=1)
    rep.rule("R19.3i", "inventory: constructors whose early return ignores names but which are not the declaring API", armed=False)
    rep.rule("R19.4", "anonymous before named: no shipped declaration names a key that was already constructed anonymously "
             "(under every entry module), unless the constructor handles late naming", floor=25)
    rep.rule("R19.5", "uniqueness in shipped tables: no name or symbol is declared for two objects", floor=300)
    rep.rule("R19.13", "an interning __new__ whose __init__ registers names on initialised instances returns only the object of the call's own key, "
             "never one fetched from a name/symbol registry", floor=3)
    rep.rule("R19.11", "no assert statement in the functions that validate or register names (python -O deletes it)", floor=5)
    rep.rule("R19.12", "the name and symbol registries are plain dicts", floor=5)
    rep.rule("R19.14", "Unit.define answers with the unit it constructs, never with one it found under the name or symbol (the declared dimension would be dropped)", floor=1)
    rep.rule("R19.10", "named(name) is the name registry's entry for that name, Prefix.resolve_symbol(symbol) the prefix symbol registry's entry for that symbol", floor=3)
    rep.rule("R19.9", "no shipped dimension or prefix is declared under two names (a second Dimension.derive / Prefix(...) of an equal object renames or doubly names the first)", floor=2)
    rep.rule("R19.6", "no memoised function reads the name/symbol registries without being invalidated by their writers", floor=1)

    # R19.1
    summ = Summary(prog, resolver)
    for q in ENTRIES:
        if q not in prog.functions:
            raise AnalysisError(f"definition entry point {q} not found")
        fi = prog.functions[q]
        bad = Summary(prog, resolver, Reach(resolver, [q])).write_then_raise(q)
        if bad is None:
            rep.ok("R19.1", q)
        else:
            wf, wnode, rf, rnode = bad
            rep.fail("R19.1", f"{q}<-{wf}",
                     f"a failing {q} can leave a registry changed: `{ast.unparse(wnode)[:50]}` in {wf} runs before "
                     f"`{ast.unparse(rnode)[:60]}` in {rf} can raise", prog.functions[wf].where(wnode))
    # R19.2
    guarded_bindings(rep, prog, resolver)
    # E5 tables
    ev = evaluate()
    handles = late_naming(rep, prog, resolver, ev)
    prefix_late = handles.get("Prefix", False)
    interned_construction(rep, prog, resolver, summ, handles)
    key_directed_interning(rep, prog, handles)
    from .c02 import key_is_stored
    rep.rule("R02.13", "an interned object sits under the value of its own key attribute (shared with C02): Dimension.define re-keys the table by it, and a "
             "KeyError half-way leaves the new name bound and half the table widened", floor=2)
    key_is_stored(rep, prog, "R02.13")
    entries = ["systems"] + (shipped_modules() if rep.tier == "thorough" else [])
    seen_keys: Set[str] = set()
    for entry in entries:
        e2 = ev if entry == "systems" else evaluate(entry=entry)
        created_anon: Dict[Tuple, str] = {}
        for c in e2.trace:
            if c.kind not in ("Prefix", "Logarithm"):
                continue
            if c.fresh and not c.named:
                created_anon[(c.kind, c.key)] = c.where
            if c.named:
                key = f"{c.kind}:{c.name or c.symbol}"
                if (c.kind, c.key) in created_anon and not c.fresh:
                    if c.kind == "Prefix" and prefix_late:
                        if key not in seen_keys:
                            rep.ok("R19.4", key, note="late naming handled by the constructor")
                    else:
                        rep.fail("R19.4", key, f"{c.kind} {c.name!r} is declared at {c.where} but an equal anonymous object was "
                                 f"already created at {created_anon[(c.kind, c.key)]}: the object keeps name None and symbol None "
                                 f"(entry module {entry})", c.where)
                elif key not in seen_keys:
                    rep.ok("R19.4", key)
                seen_keys.add(key)
    # R19.5
    by_sym: Dict[str, List[Tuple[str, str]]] = {}
    by_name: Dict[str, List[Tuple[str, str]]] = {}
    for p, name, symbol, module, where in ev.prefix_decls:
        ident = f"{p.base}**{p.exponent}" if p is not None else "?"
        if symbol:
            by_sym.setdefault(symbol, []).append((ident, where))
        if name:
            by_name.setdefault(name, []).append((ident, where))
    for reg, table in (("prefix-symbol", by_sym), ("prefix-name", by_name)):
        for k, lst in sorted(table.items()):
            objs = {i for i, _ in lst}
            rep.check("R19.5", f"{reg}:{k}", len(objs) == 1, f"{reg} {k!r} is declared for {sorted(objs)} (at {[w for _, w in lst]}): "
                      "lookups return only the last one", lst[-1][1])
    usym: Dict[str, Set[int]] = {}
    for kind, text, u, module, where in ev.name_decls:
        usym.setdefault(f"unit-{kind}:{text}", set()).add(u.uid)
    for k, ids in sorted(usym.items()):
        rep.check("R19.5", k, len(ids) == 1, f"{k} is declared for {len(ids)} different units", "")
    for nm, d in ev.dim_by_name.items():
        rep.ok("R19.5", f"dimension-name:{nm}")
    # R19.9: one dimension object, one declared name
    for d, old, new, where in ev.dim_renames:
        rep.fail("R19.9", f"dimension:{old}->{new}", f"the shipped declaration at {where} derives the dimension already declared as {old!r} again as {new!r} "
                 f"(structurally equal dimensions are one interned object): Dimension.named({old!r}) still finds it but it now reports {new!r}", where)
    if not ev.dim_renames:
        rep.ok("R19.9", "shipped-dimensions", note=f"{len(ev.dim_by_name)} named dimensions, none declared under two names")
    # ... and one prefix object, one declared name: `Ronto = Prefix(10, -24, name="ronto", symbol="r")` hands back Yocto, whose
    # initialised arm registers the further name - "ronto" then resolves to 10**-24
    pseen: Dict[Tuple[int, Any], Tuple[str, str]] = {}
    for p, name, symbol, module, where in ev.prefix_decls:
        if p is None or not name:
            continue
        k = (p.base, p.exponent)
        if k in pseen and pseen[k][0] != name:
            rep.fail("R19.9", f"prefix:{pseen[k][0]}->{name}", f"the shipped declaration at {where} constructs the prefix {p.base}**{p.exponent} already declared as "
                     f"{pseen[k][0]!r} ({pseen[k][1]}) again as {name!r} (equal prefixes are one interned object): the name {name!r} is bound to the factor of "
                     f"{pseen[k][0]!r}", where)
        pseen.setdefault(k, (name, where))
    rep.ok("R19.9", "shipped-prefixes", note=f"{len(pseen)} named prefixes")
    lookup_by_name(rep, prog)
    definitions_return_new(rep, prog, "R19.14")
    no_asserts_in_definitions(rep, prog, resolver)
    registries_are_dicts(rep, prog)
    # R19.6 memo over registries (shared with C08)
    memo_over_registries(rep, prog, resolver, "R19.6")
    rep.analysed.update({"entry_points": ENTRIES, "declared_prefixes": len(ev.prefix_decls), "unit_name_symbol_declarations": len(ev.name_decls),
                         "entry_modules_explored": entries})
    rep.not_decided.append("the intern table _known after a failing definition keeps an anonymous, fully built instance (R19.7); "
                           "that it is otherwise unchanged is inventory only")
    rep.trust("E5 declaration model; mypy call resolution")
