"""C10 - temperature scales convert by their exact affine definitions."""
from __future__ import annotations

import ast
from fractions import Fraction
from typing import Dict, List, Optional, Set, Tuple

from ..calls import Resolver
from ..core import AnalysisError, Report
from ..decl import Edge, Evaluator, UnitV
from ..model import Program
from ..num import Num
from .c05 import check_translate, defs_of, closure_names, names_in
from .c09 import evaluate

TITLE = "Temperature scales convert by their exact affine definitions"

# the property's own definitions: C = K - 273.15, F = R - 459.67, R = 9/5 K
K_TO = {
    "kelvin": (Fraction(1), Fraction(0)),
    "celsius": (Fraction(1), Fraction("-273.15")),
    "Rankine": (Fraction(9, 5), Fraction(0)),
    "fahrenheit": (Fraction(9, 5), Fraction("-459.67")),
}
Affine = Tuple[Num, Num]   # x -> A*x + B


def compose(f: Affine, g: Affine) -> Affine:
    """g after f"""
    return (g[0] * f[0], g[0] * f[1] + g[1])


def inverse(f: Affine) -> Affine:
    return (f[0].inv(), -(f[1] / f[0]))


def temperature_maps(rep: Report, ev: Evaluator) -> None:
    temp = ev.dim_by_name.get("temperature")
    if temp is None:
        raise AnalysisError("dimension 'temperature' not declared")
    units = [u for u in ev.unit_by_id.values() if u.is_base and u.dimension is temp]
    edges = [e for e in ev.edges if e.a.dimension is temp and e.a.is_base and e.b.is_base]
    adj: Dict[int, List[Tuple[int, Affine, Edge]]] = {}
    for e in edges:
        # value_b = value_a * ratio (+ offset for scales)
        f: Affine = (e.ratio, e.offset if e.offset is not None else Num(Fraction(0)))
        adj.setdefault(e.a.uid, []).append((e.b.uid, f, e))
        adj.setdefault(e.b.uid, []).append((e.a.uid, inverse(f), e))
    kelvin = ev.unit_by_name.get("kelvin")
    if kelvin is None:
        raise AnalysisError("unit 'kelvin' not declared")
    # spanning tree from kelvin; every non-tree edge must agree (tree shape = unique simple path)
    maps: Dict[int, Affine] = {kelvin.uid: (Num(Fraction(1)), Num(Fraction(0)))}
    used: Set[int] = set()
    order = [kelvin.uid]
    while order:
        u = order.pop(0)
        for v, f, e in adj.get(u, []):
            if v not in maps:
                maps[v] = compose(maps[u], f)
                used.add(e.seq)
                order.append(v)
    for e in edges:
        if e.seq in used:
            continue
        if e.a.uid in maps and e.b.uid in maps:
            f = (e.ratio, e.offset if e.offset is not None else Num(Fraction(0)))
            via = compose(maps[e.a.uid], f)
            same = via[0] == maps[e.b.uid][0] and via[1] == maps[e.b.uid][1]
            rep.check("R10.4", f"cycle:{e.module}:{e.text}", same,
                      f"declaration {e.text} closes a cycle in the temperature graph with a different affine composition "
                      f"({via[0]!r}x+{via[1]!r} vs {maps[e.b.uid][0]!r}x+{maps[e.b.uid][1]!r}): the result depends on the route",
                      e.where)
    # the four scales against the exact definitions
    named: Dict[str, UnitV] = {}
    for nm in K_TO:
        u = ev.unit_by_name.get(nm)
        if u is None or u.uid not in maps:
            rep.fail("R10.1", f"scale:{nm}", f"temperature unit {nm!r} is not declared or not connected to kelvin", "")
            continue
        named[nm] = u
        A, B = maps[u.uid]
        wa, wb = K_TO[nm]
        ok = A.rational and B.rational and A.coef == wa and B.coef == wb
        rep.check("R10.1", f"scale:{nm}", ok,
                  f"declared definitions give {nm} = {A!r} * K + {B!r}; the exact definition is {wa} * K + {wb}",
                  u.where, note=f"{A!r}*K+{B!r}")
    # all 12 ordered pairs
    for a, ua in named.items():
        for b, ub in named.items():
            if a == b:
                continue
            got = compose(inverse(maps[ua.uid]), maps[ub.uid])
            wa = (Num(K_TO[a][0]), Num(K_TO[a][1]))
            wb = (Num(K_TO[b][0]), Num(K_TO[b][1]))
            want = compose(inverse(wa), wb)
            rep.check("R10.4", f"{a}->{b}", got[0] == want[0] and got[1] == want[1],
                      f"composed map {a}->{b} is {got[0]!r}x + {got[1]!r}; exact definition {want[0]!r}x + {want[1]!r}", "",
                      note=f"{got[0]!r}*x+{got[1]!r}")
    # scale units are leaves (only their defining edge)
    for e in edges:
        if e.is_scale:
            others = [x for x in edges if x is not e and (x.a is e.a or x.b is e.a)]
            rep.check("R10.4", f"leaf:{e.a.name}", not others, f"scale {e.a.name!r} has further declared equivalences "
                      f"({[o.text for o in others][:2]}): more than one simple path between temperature units", e.where)
    rep.analysed["temperature_units"] = [u.name for u in units]


def convert_order(rep: Report, prog: Program) -> None:
    """R10.3: within one hop the scale multiplication precedes the offset addition."""
    from .c05 import plan_applier
    fi, _acc = plan_applier(prog)
    fn = fi.node
    loops = [n for n in ast.walk(fn) if isinstance(n, ast.For) and isinstance(n.target, ast.Tuple) and len(n.target.elts) == 3
             and not any(isinstance(c, ast.For) for c in ast.walk(n) if c is not n)]
    if not loops:
        raise AnalysisError("conversions.convert: no inner loop over (scale, offset, unit) hops found")
    for lp in loops:
        s, o = (ast.unparse(x) for x in lp.target.elts[:2])
        mul_i = add_i = None
        for i, st in enumerate(lp.body):
            if isinstance(st, ast.Assign) and isinstance(st.value, (ast.Call, ast.BinOp)):
                txt = ast.unparse(st.value)
                nm = names_in(st.value)
                is_mul = (isinstance(st.value, ast.Call) and ast.unparse(st.value.func) == "_mul") or \
                         (isinstance(st.value, ast.BinOp) and isinstance(st.value.op, ast.Mult))
                is_add = (isinstance(st.value, ast.Call) and ast.unparse(st.value.func) == "_add") or \
                         (isinstance(st.value, ast.BinOp) and isinstance(st.value.op, ast.Add))
                if is_mul and s in nm and mul_i is None:
                    mul_i = i
                if is_add and o in nm and add_i is None:
                    add_i = i
                    # one statement: magnitude = _add(_mul(magnitude, scale ** exponent), offset)
                    ops_ = list(st.value.args) if isinstance(st.value, ast.Call) else [st.value.left, st.value.right]
                    prod = [x for x in ops_ if ((isinstance(x, ast.Call) and ast.unparse(x.func) == "_mul") or
                                                (isinstance(x, ast.BinOp) and isinstance(x.op, ast.Mult))) and s in names_in(x) and o not in names_in(x)]
                    rest = [x for x in ops_ if x not in prod]
                    if mul_i is None and len(ops_) == 2 and len(prod) == 1 and o in names_in(rest[0]) and s not in names_in(rest[0]):
                        mul_i = i - 1
        rep.check("R10.3", "conversions.convert:hop", mul_i is not None and add_i is not None and mul_i < add_i,
                  "within a hop the magnitude must be multiplied by the scale and then shifted by the offset "
                  f"(found multiply at statement {mul_i}, add at {add_i})", fi.where(lp))
    outer = [n for n in ast.walk(fn) if isinstance(n, ast.For) and any(isinstance(c, ast.For) for c in ast.walk(n) if c is not n)]
    for lp in outer:
        it = lp.iter
        rep.check("R10.5", "conversions.convert:plan-iteration", isinstance(it, ast.Name) or (isinstance(it, ast.Call) and ast.unparse(it.func) == "_plan_conversion"),
                  f"convert iterates `{ast.unparse(it)}`: the plan must be applied in its own order", fi.where(lp))


def plan_order(rep: Report, prog: Program) -> None:
    """R10.5: the step that divides by the target prefix is the last step of every plan
    _plan_conversion returns (so it also scales every offset added before it)."""
    fi = prog.func("conversions._plan_conversion")
    fn = fi.node
    end = fi.params()[1]
    defs = defs_of(fn)
    prefix_vars: Set[str] = set()
    for n in ast.walk(fn):
        if isinstance(n, ast.Assign) and isinstance(n.value, ast.Call) and isinstance(n.value.func, ast.Attribute) \
                and n.value.func.attr == "quantify" and ast.unparse(n.value.func.value) == end:
            prefix_vars |= {t.id for t in n.targets if isinstance(t, ast.Name)}

    def is_prefix_tuple(t: ast.AST) -> bool:
        if not isinstance(t, ast.Tuple) or not t.elts:
            return False
        f = t.elts[0]
        return bool(names_in(f) & prefix_vars) or any(
            isinstance(c, ast.Call) and isinstance(c.func, ast.Attribute) and c.func.attr == "quantify" and ast.unparse(c.func.value) == end
            for c in ast.walk(f))

    def seq(e: ast.AST, env: Dict[str, List[str]]) -> List[str]:
        if isinstance(e, ast.List):
            return ["prefix" if is_prefix_tuple(x) else "other" for x in e.elts]
        if isinstance(e, (ast.ListComp, ast.GeneratorExp)):
            return ["other*"]
        if isinstance(e, ast.Name):
            return list(env.get(e.id, ["other*"]))
        if isinstance(e, ast.BinOp) and isinstance(e.op, ast.Add):
            return seq(e.left, env) + seq(e.right, env)
        if isinstance(e, ast.Call):
            f = ast.unparse(e.func)
            if f == "_inline_paths" and e.args:
                return seq(e.args[0], env)       # order-preserving (checked below)
            if f in ("list", "sorted", "reversed") and e.args:
                s = seq(e.args[0], env)
                return list(reversed(s)) if f == "reversed" else (s if f == "list" else ["unordered:" + x for x in s])
            return ["other*"]
        return ["other*"]

    results: List[Tuple[ast.Return, List[str]]] = []

    def walk(stmts: List[ast.stmt], env: Dict[str, List[str]]) -> None:
        for st in stmts:
            if isinstance(st, (ast.Assign, ast.AnnAssign)) and st.value is not None:
                tg = st.targets if isinstance(st, ast.Assign) else [st.target]
                for t in tg:
                    if isinstance(t, ast.Name):
                        env[t.id] = seq(st.value, env)
            elif isinstance(st, ast.AugAssign) and isinstance(st.target, ast.Name) and isinstance(st.op, ast.Add):
                env[st.target.id] = env.get(st.target.id, ["other*"]) + seq(st.value, env)
            elif isinstance(st, ast.If):
                walk(st.body, dict(env))
                walk(st.orelse, dict(env))
            elif isinstance(st, ast.Expr) and isinstance(st.value, ast.Call) and isinstance(st.value.func, ast.Attribute) \
                    and isinstance(st.value.func.value, ast.Name) and st.value.func.attr in ("extend", "append") and len(st.value.args) == 1:
                nm = st.value.func.value.id
                a0 = st.value.args[0]
                add = seq(a0, env) if st.value.func.attr == "extend" else ["prefix" if is_prefix_tuple(a0) else "other"]
                env[nm] = env.get(nm, ["other*"]) + add
            elif isinstance(st, ast.For):
                # a loop that appends to a list: what it appends, any number of times
                for c in ast.walk(st):
                    if isinstance(c, ast.Call) and isinstance(c.func, ast.Attribute) and isinstance(c.func.value, ast.Name) \
                            and c.func.attr in ("append", "extend", "insert") and c.args:
                        nm = c.func.value.id
                        a0 = c.args[-1]
                        env[nm] = env.get(nm, ["other*"]) + (["many:prefix"] if is_prefix_tuple(a0) or c.func.attr != "append" and "prefix" in " ".join(seq(a0, env)) else ["other*"])
            elif isinstance(st, ast.Return) and st.value is not None:
                results.append((st, seq(st.value, env)))
    walk(fn.body, {})
    if not results:
        raise AnalysisError("_plan_conversion: no return found")
    for i, (st, s) in enumerate(results):
        n_prefix = sum(1 for x in s if x.endswith("prefix"))
        ok = n_prefix == 1 and s[-1] == "prefix"
        rep.check("R10.5", f"_plan_conversion:return#{i + 1}", ok,
                  f"plan order is {s}: the step dividing by the target prefix must come exactly once and last, after every hop "
                  "that can add an offset (otherwise a prefixed target of an offset scale gets an unscaled offset)", fi.where(st))
    # _inline_paths preserves order
    ip = prog.func("conversions._inline_paths")
    loops = [n for n in ast.walk(ip.node) if isinstance(n, ast.For)]
    okp = len(loops) == 1 and isinstance(loops[0].iter, ast.Name) and loops[0].iter.id == ip.params()[0] and \
        any(isinstance(c, ast.Call) and isinstance(c.func, ast.Attribute) and c.func.attr == "append" for c in ast.walk(loops[0]))
    if not loops:
        # or one list comprehension over the parameter, returned as it is
        rets = [r.value for r in ast.walk(ip.node) if isinstance(r, ast.Return) and r.value is not None]
        okp = len(rets) == 1 and isinstance(rets[0], ast.ListComp) and len(rets[0].generators) == 1 \
            and isinstance(rets[0].generators[0].iter, ast.Name) and rets[0].generators[0].iter.id == ip.params()[0]
    rep.check("R10.5", "_inline_paths:order", okp, "_inline_paths does not map the plan in order (append in a forward loop)", ip.where())
    from .c05 import check_inline_paths
    check_inline_paths(rep, prog, "R10.5")


def offsets_preserved(rep: Report, prog: Program, resolver: Resolver) -> None:
    """R10.7: a hop is (scale, offset, unit).  Any code that rebuilds hops from hops must carry
    the offset position over from the offset it read (possibly transformed), never replace it
    by something independent of it - that would drop the zero point of a scale."""
    n = 0
    for q, fi in prog.functions.items():
        if fi.module != "conversions":
            continue
        for node in ast.walk(fi.node):
            gens = getattr(node, "generators", None)
            loops = []
            if gens and isinstance(node, (ast.ListComp, ast.GeneratorExp)) and len(gens) == 1:
                loops.append((gens[0].target, gens[0].iter, [node.elt]))
            elif isinstance(node, ast.For):
                built = [a.args[0] for a in ast.walk(node) if isinstance(a, ast.Call) and isinstance(a.func, ast.Attribute)
                         and a.func.attr == "append" and a.args]
                loops.append((node.target, node.iter, built))
            for target, it, elts in loops:
                if not (isinstance(target, ast.Tuple) and len(target.elts) == 3):
                    continue
                if not _is_path(prog, resolver, fi, it):
                    continue
                off = target.elts[1]
                for e in elts:
                    if not (isinstance(e, ast.Tuple) and len(e.elts) == 3):
                        continue
                    n += 1
                    okd = isinstance(off, ast.Name) and off.id != "_" and off.id in names_in(e.elts[1])
                    rep.check("R10.7", f"{q}:{ast.unparse(e)[:50]}", okd,
                              f"`{ast.unparse(e)}` rebuilds a hop from `{ast.unparse(target)}` but its offset `{ast.unparse(e.elts[1])}` does not "
                              "come from the offset that was read: the zero point of a temperature scale is dropped on that route",
                              fi.where(e))
    if n == 0:
        rep.ok("R10.7", "conversions", note="no site rebuilds hops from hops")


def offset_composition(rep: Report, prog: Program, resolver: Resolver) -> None:
    """R10.8, package-wide (the CLI walks the tables on its own): wherever a zero-point offset - read from
    `_offsets`, unpacked from a hop (scale, offset, unit), or received as an argument from such a place -
    is an operand of an addition, the other operand is a product: value*ratio + offset.  Adding it to
    another offset or to a bare accumulator composes two affine maps as if their ratios were 1."""
    from ..cfg import CFG
    n = 0
    work: Dict[str, Set[str]] = {}
    for q, fi in sorted(prog.functions.items()):
        if fi.module in ("hypothesis", "pytest") or fi.module not in ("conversions", "cli", ""):
            continue
        if "_offsets" not in ast.unparse(fi.node) and fi.module != "conversions":
            continue
        work[q] = set()
    done: Set[Tuple[str, frozenset]] = set()
    queue = sorted(work)
    while queue:
        q = queue.pop(0)
        fi = prog.functions[q]
        offs: Set[str] = set(work.get(q, set()))
        for node in ast.walk(fi.node):
            if isinstance(node, ast.Assign) and len(node.targets) == 1 and isinstance(node.targets[0], ast.Name) and "_offsets" in ast.unparse(node.value) \
                    and not isinstance(node.value, (ast.Dict, ast.DictComp)):
                offs.add(node.targets[0].id)
            tgt = None
            if isinstance(node, ast.For):
                tgt, it = node.target, node.iter
            elif isinstance(node, ast.comprehension):
                tgt, it = node.target, node.iter
            if tgt is not None and isinstance(tgt, ast.Tuple) and len(tgt.elts) == 3 and isinstance(tgt.elts[1], ast.Name) and tgt.elts[1].id != "_" \
                    and _is_path(prog, resolver, fi, it):
                offs.add(tgt.elts[1].id)
        key = (q, frozenset(offs))
        if not offs or key in done:
            continue
        done.add(key)
        cfg = CFG(fi.node)

        def is_off(e: ast.AST) -> bool:
            # Decimal(offset), float(offset): the same offset in another number type
            while isinstance(e, ast.Call) and ast.unparse(e.func) in ("Decimal", "float", "Fraction", "decimal.Decimal") and len(e.args) == 1 and not e.keywords:
                e = e.args[0]
            return (isinstance(e, ast.Name) and e.id in offs) or ("_offsets" in ast.unparse(e) and not isinstance(e, ast.Name))

        def is_product(e: ast.AST, at: Optional[int], depth: int = 0) -> bool:
            if isinstance(e, ast.Call) and ast.unparse(e.func) in ("_mul", "_div"):
                return True
            if isinstance(e, ast.BinOp) and isinstance(e.op, (ast.Mult, ast.Div)):
                return True
            if isinstance(e, ast.Name) and at is not None and depth < 3:
                ds = cfg.reaching_defs(at, e.id)
                return bool(ds) and all(d is not None and isinstance(d, ast.Assign) and is_product(d.value, cfg.node_of(d), depth + 1) for d in ds)
            return False
        # offsets handed to a package function: continue there
        for cs in resolver.callsites(q):
            if cs.kind != "call" or not cs.targets:
                continue
            for t in cs.targets:
                if t not in prog.functions or prog.functions[t].module not in ("conversions", "cli", ""):
                    continue
                if prog.functions[t].name in ("_add", "_sub", "_mul", "_div", "_pow"):
                    continue   # the Decimal-preserving operators themselves: the call site is what is judged
                ps = prog.functions[t].params()
                if cs.bound and ps:
                    ps = ps[1:]
                passed = {ps[i] for i, a in enumerate(cs.args) if i < len(ps) and is_off(a)} | {k for k, v in cs.kwargs.items() if is_off(v) and k in ps}
                if passed and not passed <= work.get(t, set()):
                    work[t] = work.get(t, set()) | passed
                    queue.append(t)
        for node in ast.walk(fi.node):
            a = b = None
            if isinstance(node, ast.Call) and ast.unparse(node.func) == "_add" and len(node.args) == 2:
                a, b = node.args
            elif isinstance(node, ast.BinOp) and isinstance(node.op, ast.Add):
                a, b = node.left, node.right
            elif isinstance(node, ast.AugAssign) and isinstance(node.op, ast.Add) and isinstance(node.target, ast.Name):
                a, b = ast.Name(id=node.target.id, ctx=ast.Load()), node.value     # `acc += offset`
            if a is None or not (is_off(a) or is_off(b)):
                continue
            other = b if is_off(a) else a
            n += 1
            at = cfg.node_of(node)
            rep.check("R10.8", f"{q}:{ast.unparse(node)[:50]}", is_product(other, at) and not (is_off(a) and is_off(b)),
                      f"`{ast.unparse(node)[:70]}` adds a zero-point offset to `{ast.unparse(other)[:30]}`, which is not a product value*ratio: "
                      "offsets along a route are summed without being scaled by the ratios that follow (10 degC lists as 291.15 R)",
                      fi.where(node))
    if n < 2:
        raise AnalysisError(f"only {n} offset additions found (convert and the CLI each have one): R10.8 anchors moved")


def _is_path(prog: Program, resolver: Resolver, fi, it: ast.AST) -> bool:
    """Is `it` a list of (number, number, Unit) hops according to mypy?"""
    t = prog.mypy_type(fi.module, it)
    if t is None:
        return False
    try:
        from mypy import types as T
        t = T.get_proper_type(t)
        if isinstance(t, T.Instance) and t.args:
            el = T.get_proper_type(t.args[0])
            if isinstance(el, T.TupleType) and len(el.items) == 3:
                last = T.get_proper_type(el.items[2])
                mid = T.get_proper_type(el.items[1])
                return isinstance(last, T.Instance) and last.type.fullname == "measured.Unit" and not (isinstance(mid, T.Instance) and mid.type.fullname in ("builtins.list", "measured.Unit"))
    except Exception:
        return False
    return False


LOSSY = {"int", "float", "round", "abs", "Decimal", "Fraction", "math.floor", "math.ceil", "math.trunc", "floor", "ceil", "trunc"}


def cli_magnitudes_verbatim(rep: Report, prog: Program) -> None:
    """R10.9: the table the command line prints shows each converted magnitude as str(magnitude), padded.  A printed value
    that went through int()/float()/round()/abs() is another value: int("-0") is 0, so -0.5556 degC (31 degF) prints as
    0.5556; a rounded one hides the offset's digits."""
    q = "cli.dot_aligned"
    if q not in prog.functions:
        rep.ok("R10.9", "cli", note="no dot_aligned in the CLI")
        return
    fi = prog.func(q)
    bad = [c for c in ast.walk(fi.node) if isinstance(c, ast.Call) and ast.unparse(c.func) in LOSSY]
    spec = [v for v in ast.walk(fi.node) if isinstance(v, ast.FormattedValue) and v.format_spec is not None
            and any(ch in ast.unparse(v.format_spec) for ch in "defgn%")]
    yields = [y for y in ast.walk(fi.node) if isinstance(y, (ast.Yield, ast.Return)) and y.value is not None]
    strs = any(isinstance(c, ast.Call) and ast.unparse(c.func) in ("str", "map") and (ast.unparse(c.func) == "str" or (c.args and ast.unparse(c.args[0]) == "str"))
               for c in ast.walk(fi.node)) or any(isinstance(v, ast.FormattedValue) for v in ast.walk(fi.node))
    rep.check("R10.9", f"{q}:verbatim", not bad and not spec and bool(yields) and strs,
              (f"{q} passes (part of) a magnitude through `{ast.unparse(bad[0])[:40]}`" if bad else
               f"{q} formats a magnitude with the numeric format `{ast.unparse(spec[0].format_spec)[:20]}`" if spec else
               f"{q} no longer prints str(magnitude)") +
              ": the printed equivalent is not the converted value (a sign, a digit or an exponent can be lost: 31 degF prints as 0.5556 degC)",
              fi.where(bad[0] if bad else (spec[0] if spec else None)))


def run(rep: Report) -> None:
    prog = Program()
    resolver = Resolver(prog)
    rep.rule("R05.7", "Quantity.in_unit is conversions.convert(self, unit), unchanged, on every path (shared with C05)", floor=1)
    rep.rule("R10.8", "an offset taken from the offsets table or from a hop is only ever added to a product (magnitude x ratio): zero points are "
             "never summed along a route without being scaled", floor=2)
    rep.rule("R10.7", "hops rebuilt from hops keep the offset that was read (no zero point is dropped while inlining or lifting paths)", floor=1)
    rep.rule("R10.1", "declared zero points and degree ratio give C = K - 273.15, R = 9/5 K, F = R - 459.67 exactly "
             "(literal text as rationals)", floor=4)
    rep.rule("R05.1", "translate stores mutually inverse, correctly oriented ratio and offset (R10.2)", floor=5)
    rep.rule("R10.3", "within a hop convert multiplies by the scale, then adds the offset", floor=1)
    rep.rule("R10.4", "the declared temperature graph is a tree with leaf scales; the composed affine map of each of the 12 "
             "ordered pairs has exactly the coefficients of the definition (hence for all magnitudes)", floor=14)
    rep.rule("R06.2", "comparisons across scales compare converted magnitudes only (R10.6 = C06 R06.2)", floor=4)
    rep.rule("R10.5", "the target-prefix step is the last step of every plan and plans are applied in order", floor=3)
    ev = evaluate()
    temperature_maps(rep, ev)
    check_translate(rep, prog, resolver)
    convert_order(rep, prog)
    plan_order(rep, prog)
    offsets_preserved(rep, prog, resolver)
    from ..quantity_rules import check_decimal_helpers
    rep.rule("R03.2", "the Decimal-preserving helpers (ratios and offsets are applied with them) are exact - shared with C03", floor=5)
    check_decimal_helpers(rep, prog, "R03.2")
    from .c05 import check_in_unit
    check_in_unit(rep, prog, "R05.7")
    offset_composition(rep, prog, resolver)
    from ..quantity_rules import check_comparisons
    check_comparisons(rep, prog, resolver, "R06.2")
    rep.assume("the planner follows the (unique) simple path between two temperature units; comparisons across scales "
               "go through in_unit (C06 R06.2)")
    from .c07 import effect_free_asserts
    rep.rule("R07.9", "no assert in the package does part of a definition or a conversion (python -O would drop it: a scale registered inside an "
             "assert has no zero point in optimised mode) - shared with C07", floor=1)
    effect_free_asserts(rep, prog, resolver, "R07.9")
    rep.rule("R10.9", "the command line prints each converted magnitude verbatim (str, padded): no int / float / round / abs and no numeric format on it", floor=1)
    cli_magnitudes_verbatim(rep, prog)
    rep.not_decided.append("floating-point rounding of round trips")
    rep.trust("E5 declaration model; mypy 2.3.1 expression types (translate analysis)")
