"""C01 - a unit's dimension always equals the product of its factors' dimensions.

`Unit.__new__` ignores the `dimension` argument once a key is interned, so the first
construction of a key fixes its dimension for the process.  The history property thus
reduces to: every construction site passes the right dimension for the factors it
passes.  E4 computes, per site, the factor component and the dimension component as
elements of free abelian groups over the operands; `dim` being a homomorphism, the two
must be the same group expression (or the dimension must be a fold over the very
mapping passed as factors).
"""
from __future__ import annotations

import ast
from typing import Any, Dict, List, Optional, Set, Tuple

from ..absint import DictV, Event, GroupV, OpaqueV, Unsupported
from ..calls import Reach, Resolver
from ..cfg import CFG
from ..core import AnalysisError, Report
from ..e4util import default_arg_sets, rename, run_function
from ..model import CallSite, FuncInfo, Program

TITLE = "A unit's dimension always equals the product of its factors' dimensions"
SKIP_MODULES = {"hypothesis", "pytest"}


def unit_ctor_sites(prog: Program, resolver: Resolver) -> List[Tuple[FuncInfo, CallSite]]:
    out = []
    for q, fi in prog.functions.items():
        for cs in resolver.callsites(q):
            if cs.external == "ctor:Unit" and isinstance(cs.node, ast.Call):
                if len(cs.args) >= 3 or "dimension" in cs.kwargs:
                    out.append((fi, cs))
    return out


def classify(ev: Event) -> Tuple[str, str]:
    """-> (verdict, explanation); verdict in ok-fresh | ok-derived | decoded | bad"""
    f, d = ev.data["f"], ev.data["d"]
    if isinstance(f, DictV):
        f = f.g
    if isinstance(f, GroupV) and "empty" in f.flags and not f.mono:
        return "ok-fresh", "empty factor mapping: a fresh base unit, its dimension is free"
    if isinstance(f, OpaqueV) or isinstance(d, OpaqueV) or not isinstance(f, GroupV) or not isinstance(d, GroupV):
        return "decoded", f"factors={type(f).__name__} dimension={type(d).__name__} are not derived from operands"
    want = rename(f.mono, "F:", "D:")
    signed = any(a.endswith("+") or a.endswith("-") for a, _ in f.mono)
    from ..algebra import mono_equal_mod
    if not mono_equal_mod(d.mono, want, "D", getattr(ev, "trivial", None)):
        return "bad", (f"factor component {f.mono} and dimension component {d.mono} are different group "
                       "expressions over the operands")
    if signed and "fold" not in d.flags:
        return "bad", ("factors are split by the sign of the factor exponents but the dimension by the sign of "
                       "the dimension exponents: different partitions when a base unit has a mixed-sign dimension")
    return "ok-derived", f"factors {f.mono} ~ dimension {d.mono}"


def _norm(t: str) -> str:
    return t.replace(" ", "")


def _flatten_and(c: ast.AST) -> List[ast.AST]:
    return list(c.values) if isinstance(c, ast.BoolOp) and isinstance(c.op, ast.And) else [c]


def _floor_divs(fn: ast.AST) -> List[Tuple[ast.BinOp, Optional[ast.AST], Optional[ast.Compare]]]:
    """Every `a // b` in fn: (node, enclosing comprehension or None, enclosing exactness
    comparison `a // b != a / b` or None)."""
    out = []
    for n in ast.walk(fn):
        if isinstance(n, ast.BinOp) and isinstance(n.op, ast.FloorDiv):
            comp = _enclosing_comp(n, fn)
            cmp = None
            par = getattr(n, "_parent", None)
            while par is not None and not isinstance(par, ast.stmt):
                if isinstance(par, ast.Compare) and _is_exactness_test(par, n):
                    cmp = par
                    break
                if par is fn:
                    break
                par = getattr(par, "_parent", None)
            out.append((n, comp, cmp))
    return out


def _guard_facts(fn: ast.AST, subst: Optional[Dict[str, str]] = None) -> List[Tuple[str, str, List[str], ast.AST]]:
    """Exactness tests in fn as (container text, divisor text, filters, node); names that
    are parameters are replaced through `subst` (helper extraction)."""
    subst = subst or {}

    def tx(node: Optional[ast.AST]) -> str:
        if node is None:
            return ""
        t = _norm(ast.unparse(node))
        if isinstance(node, ast.Name) and node.id in subst:
            return subst[node.id]
        if isinstance(node, ast.Call) and isinstance(node.func, ast.Attribute) and isinstance(node.func.value, ast.Name) \
                and node.func.value.id in subst and node.func.attr == "items":
            return subst[node.func.value.id] + ".items()"
        return t
    out = []
    for n, comp, cmp in _floor_divs(fn):
        if cmp is None:
            continue
        if comp is not None:
            g = comp.generators[0]
            cont = tx(g.iter)
            flt = [_norm(ast.unparse(x)) for c in g.ifs for x in _flatten_and(c)]
        else:
            cont = "scalar:" + tx(n.left)
            flt = []
        out.append((cont, tx(n.right), flt, n))
    return out


def _inline_quotient_locals(fn: ast.AST) -> ast.AST:
    """`q = a // b` ... `if q != a / b: raise` ... `int(q)`: a local that only names a floor division is replaced by
    the division (on a copy), so that the guard and the use are recognised in their usual form."""
    import copy as _copy
    single: Dict[str, ast.AST] = {}
    counts: Dict[str, int] = {}
    for n in ast.walk(fn):
        if isinstance(n, (ast.Assign, ast.AugAssign, ast.AnnAssign, ast.For)):
            tg = n.targets if isinstance(n, ast.Assign) else [n.target]
            for t in tg:
                for x in ast.walk(t):
                    if isinstance(x, ast.Name):
                        counts[x.id] = counts.get(x.id, 0) + 1
        if isinstance(n, ast.Assign) and len(n.targets) == 1 and isinstance(n.targets[0], ast.Name) and isinstance(n.value, ast.BinOp) \
                and isinstance(n.value.op, ast.FloorDiv):
            single[n.targets[0].id] = n.value
    single = {k: v for k, v in single.items() if counts.get(k) == 1 and not any(counts.get(x.id, 0) for x in ast.walk(v) if isinstance(x, ast.Name))}
    if not single:
        return fn
    new = _copy.deepcopy(fn)

    class _Sub(ast.NodeTransformer):
        def visit_Name(self, n: ast.Name) -> ast.AST:
            if isinstance(n.ctx, ast.Load) and n.id in single:
                return ast.copy_location(_copy.deepcopy(single[n.id]), n)
            return n

        def visit_Assign(self, n: ast.Assign) -> Any:
            if len(n.targets) == 1 and isinstance(n.targets[0], ast.Name) and n.targets[0].id in single:
                return ast.copy_location(ast.Pass(), n)
            return self.generic_visit(n)
    new = _Sub().visit(new)
    ast.fix_missing_locations(new)
    for parent in ast.walk(new):
        for ch in ast.iter_child_nodes(parent):
            ch._parent = parent  # type: ignore[attr-defined]
    return new


def check_root_guard(rep: Report, prog: Program, resolver: Resolver, qual: str) -> None:
    """R01.2: every floor division feeding the constructor is dominated by a raising
    exactness test over an iteration domain at least as large (the test may live in a
    helper the guard calls)."""
    fi = prog.func(qual)
    fn = _inline_quotient_locals(fi.node)
    cfg = CFG(fn)
    dom = cfg.dominators()
    # guards: If statements that end in raise, with the exactness facts their test implies
    guards: List[Tuple[ast.AST, List[Tuple[str, str, List[str], ast.AST]]]] = []
    from ..absint import Interp
    for st in ast.walk(fn):
        if not (isinstance(st, ast.If) and st.body and isinstance(st.body[-1], ast.Raise)):
            continue
        facts = [f for f in _guard_facts(st.test)]
        for cs in resolver.callsites(qual):
            if isinstance(cs.node, ast.Call) and any(cs.node is n for n in ast.walk(st.test)):
                comp = _enclosing_comp(cs.node, st)
                tvars: List[str] = []
                if comp is not None:
                    tvars = [x.id for x in ast.walk(comp.generators[0].target) if isinstance(x, ast.Name)]
                for t in cs.targets:
                    callee = prog.functions[t]
                    params = callee.params()
                    off = 1 if cs.bound else 0
                    sub: Dict[str, str] = {}
                    for i, a in enumerate(cs.args):
                        if off + i < len(params):
                            sub[params[off + i]] = _norm(ast.unparse(a))
                    for k, a in cs.kwargs.items():
                        sub[k] = _norm(ast.unparse(a))
                    for cont, div, flt, node in _guard_facts(callee.node, sub):
                        if cont.startswith("scalar:") and comp is not None and cont[len("scalar:"):] in tvars:
                            # an element-level predicate applied to every element of the comprehension
                            g = comp.generators[0]
                            cont = _norm(ast.unparse(g.iter))
                            flt = flt + [_norm(ast.unparse(x)) for c in g.ifs for x in _flatten_and(c)]
                        facts.append((cont, div, flt, node))
        # the same test written as an explicit validation loop: for v in C: if <exactness>: raise
        anchor: ast.AST = st
        loop = getattr(st, "_parent", None)
        extra_conds: List[str] = []
        while isinstance(loop, ast.If):
            extra_conds += [_norm(ast.unparse(x)) for x in _flatten_and(loop.test)]
            loop = getattr(loop, "_parent", None)
        if isinstance(loop, ast.For) and Interp._guard_only(loop.body) and not loop.orelse:
            lvars = [x.id for x in ast.walk(loop.target) if isinstance(x, ast.Name)]
            lifted = []
            for cont, div, flt, node in facts:
                if cont.startswith("scalar:") and cont[len("scalar:"):] in lvars:
                    own = [_norm(ast.unparse(x)) for x in _flatten_and(st.test)
                           if not any(isinstance(y, ast.BinOp) and isinstance(y.op, ast.FloorDiv) for y in ast.walk(x))]
                    lifted.append((_norm(ast.unparse(loop.iter)), div, flt + own + extra_conds, node))
            if lifted:
                facts = lifted
                anchor = loop
        if facts:
            guards.append((anchor, facts))
    divs = [(n, comp) for n, comp, cmp in _floor_divs(fn) if cmp is None]
    # divmod(x, d): quotient and remainder in one step; the guard is a raising test of the remainder
    dm_done = False
    for n in ast.walk(fn):
        if isinstance(n, ast.Assign) and isinstance(n.value, ast.Call) and ast.unparse(n.value.func) == "divmod" and len(n.value.args) == 2 \
                and isinstance(n.targets[0], ast.Tuple) and len(n.targets[0].elts) == 2 and all(isinstance(x, ast.Name) for x in n.targets[0].elts):
            rem = n.targets[0].elts[1].id  # type: ignore[attr-defined]
            key = f"{qual}:divmod({ast.unparse(n.value.args[0])}, {ast.unparse(n.value.args[1])})"
            ok, why = False, "the remainder is never tested by a raising guard"
            for st in ast.walk(fn):
                if isinstance(st, ast.If) and st.body and isinstance(st.body[-1], ast.Raise) and rem in {x.id for x in ast.walk(st.test) if isinstance(x, ast.Name)}:
                    conj = _flatten_and(st.test)
                    extra = [ast.unparse(c) for c in conj if rem not in {x.id for x in ast.walk(c) if isinstance(x, ast.Name)}]
                    if extra:
                        why = f"the remainder guard only fires when {' and '.join(extra)}: other non-exact roots are floored silently"
                    else:
                        ok = True
            rep.check("R01.2", key, ok, f"{key.split(':', 1)[1]} feeds the constructor but {why}", fi.where(n))
            dm_done = True
    if not divs and dm_done:
        return
    if not divs:
        true_divs = [n for n in ast.walk(fn) if isinstance(n, ast.BinOp) and isinstance(n.op, ast.Div)
                     and any(isinstance(c, ast.Call) and any(n is x for a in c.args for x in ast.walk(a)) for c in ast.walk(fn))]
        if true_divs:
            rep.fail("R01.2", f"{qual}:{ast.unparse(true_divs[0])[:40]}", f"{qual} passes the true quotient `{ast.unparse(true_divs[0])[:50]}` to the constructor: an exact "
                     "root of an int exponent comes out as a float (4.0), which interns under the key of the int (4) when that does not exist yet - later "
                     "expressions for the same object then get the float-valued one (its scale is 10000.0, not 10000)", fi.where(true_divs[0]))
            return
        raise AnalysisError(f"{qual}: no floor division found (R01.2 anchor moved)")
    for n, comp in divs:
        key = f"{qual}:{ast.unparse(n)}"
        if comp is not None:
            g = comp.generators[0]
            cont = _norm(ast.unparse(g.iter))
            flt = [_norm(ast.unparse(x)) for c in g.ifs for x in _flatten_and(c)]
        else:
            cont = "scalar:" + _norm(ast.unparse(n.left))
            flt = []
        divisor = _norm(ast.unparse(n.right))
        stn = cfg.node_of(n)
        ok = False
        why = "no dominating exactness guard that raises"
        for gst, facts in guards:
            gid = cfg.by_ast.get(id(gst))
            if gid is None or stn is None or gid not in dom.get(stn, set()):
                continue
            for gcont, gdiv, gflt, _ in facts:
                if gcont != cont or gdiv != divisor:
                    why = "the raising guard tests a different container or divisor"
                    continue
                extra = [x for x in gflt if x != "unitisnotOne" and x not in flt and not x.endswith("isnotOne")]
                if extra:
                    why = f"guard skips elements the division covers (filter: {' and '.join(extra)})"
                    continue
                ok = True
                break
            if ok:
                break
        rep.check("R01.2", key, ok,
                  f"{ast.unparse(n)} feeds the constructor but {why}: a non-exact root is floor-divided silently "
                  "and the unit is interned with a dimension that is not the product of its factors' dimensions",
                  fi.where(n))


def _enclosing_comp(n: ast.AST, fn: ast.AST) -> Optional[ast.AST]:
    p = getattr(n, "_parent", None)
    while p is not None and p is not fn:
        if isinstance(p, (ast.DictComp, ast.GeneratorExp, ast.ListComp, ast.SetComp)):
            return p
        p = getattr(p, "_parent", None)
    return None


def _enclosing_stmt(n: ast.AST, fn: ast.AST) -> Optional[ast.AST]:
    p = n
    while p is not None and p is not fn:
        if isinstance(p, ast.stmt):
            return p
        p = getattr(p, "_parent", None)
    return None


def _is_exactness_test(cmp: ast.AST, fd: ast.BinOp) -> bool:
    if not isinstance(cmp, ast.Compare) or len(cmp.ops) != 1 or not isinstance(cmp.ops[0], ast.NotEq):
        return False
    sides = [cmp.left, cmp.comparators[0]]
    other = [s for s in sides if s is not fd]
    if len(other) != 1:
        return False
    o = other[0]
    return (isinstance(o, ast.BinOp) and isinstance(o.op, ast.Div)
            and ast.unparse(o.left) == ast.unparse(fd.left) and ast.unparse(o.right) == ast.unparse(fd.right))


def run(rep: Report) -> None:
    prog = Program()
    resolver = Resolver(prog)
    rep.rule("R01.1", "constructor-site homomorphism: at every Unit(...) site that passes a dimension, the factor "
             "component and the dimension component are the same group expression over the operands (or the "
             "dimension is a fold over the mapping passed as factors)", floor=8)
    rep.rule("R01.2", "every floor division that flows into a constructor in Dimension.root / Prefix.root / Unit.root "
             "is dominated by a raising exactness test over the same elements", floor=3)
    rep.rule("R01.3", "no module other than measured/__init__.py constructs a Unit with an explicit dimension")
    rep.rule("R01.9", "only the core module calls the interning constructor Unit(prefix, factors, dimension)", floor=8)
    rep.rule("R01.8", "re-constructing an interned object leaves its value fields alone: __init__ assigns them only for a fresh instance", floor=3)
    rep.rule("R01.7", "the dimension a serialised unit is rebuilt with is decoded from the encoded exponents on every path "
             "(Unit.__from_json__ passes it to the interning constructor unchecked)", floor=2)
    rep.rule("R01.4", "Unit.__new__ returns the interned object for a known key (first construction fixes the dimension)", armed=False)
    rep.rule("R01.5", "rendering/splitting entry points reach only R01.1-checked construction sites", armed=False)

    sites = unit_ctor_sites(prog, resolver)
    by_func: Dict[str, List[CallSite]] = {}
    for fi, cs in sites:
        if fi.module in SKIP_MODULES:
            continue
        if fi.module != "":
            rep.fail("R01.3", f"{fi.qual}", f"{fi.qual} builds a Unit with a hand-passed dimension outside the algebra "
                     "module; only the checked operators may do so", fi.where(cs.node))
            continue
        by_func.setdefault(fi.qual, []).append(cs)
    if not any(True for fi, _ in sites if fi.module != "" and fi.module not in SKIP_MODULES):
        rep.ok("R01.3", "package", note="0 sites outside measured/__init__.py")

    analysed_funcs = []
    for qual, css in sorted(by_func.items()):
        fi = prog.func(qual)
        events_by_node: Dict[int, List[Event]] = {id(cs.node): [] for cs in css}
        arg_sets = default_arg_sets(prog, resolver, qual, "unit")
        errors = []
        for args in arg_sets:
            try:
                r = run_function(prog, resolver, qual, ("dimension", "prefix", "unit"), args, inline_depth=3 if rep.tier == "thorough" else 2)
            except Unsupported as e:
                errors.append(str(e))
                continue
            for ev in r.events:
                if ev.kind == "ctor" and ev.data.get("cls") == "Unit" and id(ev.node) in events_by_node:
                    events_by_node[id(ev.node)].append(ev)
        analysed_funcs.append(qual)
        for cs in css:
            evs = events_by_node[id(cs.node)]
            key = f"{qual}#{_site_index(css, cs)}"
            if not evs:
                raise AnalysisError(f"constructor site {key} at {fi.where(cs.node)} was not reached by the abstract "
                                    f"interpretation ({errors[:1]})")
            verdicts = [classify(ev) for ev in evs]
            bad = [m for v, m in verdicts if v == "bad"]
            dec = [m for v, m in verdicts if v == "decoded"]
            if bad:
                rep.fail("R01.1", key, bad[0], fi.where(cs.node))
            elif dec and fi.name == "__from_json__":
                rep.ok("R01.1", key, note="deserialised: dimension is decoded data (inventory; see C15)")
            elif dec:
                rep.fail("R01.1", key, f"dimension is not computed from the operands: {dec[0]}", fi.where(cs.node))
            else:
                rep.ok("R01.1", key, note=verdicts[0][1])
    # R01.7: the decoded dimension that Unit.__from_json__ passes on is the encoded one
    from .c15 import structural_decoding
    structural_decoding(rep, prog, "R01.7")
    # R01.9: the interning constructor trusts its dimension argument, so only the core module (whose every site R01.1 decides) may call it
    n9 = 0
    for q9, f9 in sorted(prog.functions.items()):
        for cs in resolver.callsites(q9):
            if cs.external == "ctor:Unit" and (len(cs.args) + len(cs.kwargs)) >= 3:
                n9 += 1
                rep.check("R01.9", f"{q9}:Unit(...)", f9.module == "", f"{q9} (module {f9.module or 'measured'}) calls Unit(prefix, factors, dimension) directly: "
                          "outside the core module nothing derives the dimension from the factors, and the first construction of a key fixes its "
                          "dimension for the process", f9.where(cs.node))
    for short, mi in prog.modules.items():
        if short in ("", "_parser"):
            continue
        for node in ast.walk(mi.tree):
            if isinstance(node, ast.Call) and isinstance(node.func, ast.Name) and node.func.id == "Unit" and len(node.args) + len(node.keywords) >= 3 \
                    and not any(node in ast.walk(f_.node) for f_ in prog.functions.values() if f_.module == short):
                n9 += 1
                rep.fail("R01.9", f"{short}:<module>:Unit(...)", f"module {short} calls Unit(prefix, factors, dimension) at import time: the dimension it passes is "
                         "not derived from the factors by the core operators", f"src/measured/{short}.py:{node.lineno}")
    # R01.8: constructing an already interned unit again must not touch it
    from ..cfg import CFG
    from .c19 import _initialized_decider
    for cls_ in ("Unit", "Dimension", "Prefix"):
        ifi = prog.func(f"{cls_}.__init__")
        pruned = CFG(ifi.node).pruned(_initialized_decider(True))
        live = pruned.reachable(pruned.entry)
        bad = []
        for nid in live:
            nd = pruned.nodes[nid]
            if nd.kind != "stmt" or nd.ast is None:
                continue
            tgs = nd.ast.targets if isinstance(nd.ast, ast.Assign) else ([nd.ast.target] if isinstance(nd.ast, (ast.AugAssign, ast.AnnAssign)) else [])
            for t in tgs:
                for x in (t.elts if isinstance(t, (ast.Tuple, ast.List)) else [t]):
                    if isinstance(x, ast.Attribute) and isinstance(x.value, ast.Name) and x.value.id == ifi.params()[0] \
                            and x.attr in ("dimension", "factors", "prefix", "exponents", "base", "exponent"):
                        bad.append((nd.ast, x.attr))
        rep.check("R01.8", f"{cls_}.__init__:initialised-path", not bad,
                  f"{cls_}.__init__ assigns self.{bad[0][1] if bad else ''} (`{ast.unparse(bad[0][0])[:50] if bad else ''}`) also for an instance that is already "
                  f"interned and initialised: every later {cls_}(...) call for the same key overwrites the live singleton with the caller's argument "
                  "(a unit's dimension is not part of its key)", ifi.where(bad[0][0] if bad else None))
    # R01.2
    for q in ("Dimension.root", "Prefix.root", "Unit.root"):
        check_root_guard(rep, prog, resolver, q)
    # R01.4 inventory
    new = prog.func("Unit.__new__")
    rep.inventory("R01.4", {"function": "Unit.__new__", "note": "dimension argument unused when key in _known",
                            "uses_of_dimension": sum(1 for n in ast.walk(new.node) if isinstance(n, ast.Name) and n.id == "dimension" and isinstance(n.ctx, ast.Load))})
    # R01.5 inventory: reachability from rendering entry points
    entries = [q for q in ("formatting.unit_format", "formatting.unit_pretty", "formatting.unit_mathml",
                           "formatting.quantity_str", "formatting.quantity_format", "formatting.quantity_mathml",
                           "formatting.unit_str", "cli.print_quantity") if q in prog.functions]
    reach = Reach(resolver, entries, prune=False)
    hit = sorted(q for q in by_func if q in reach.reached)
    rep.inventory("R01.5", {"entries": entries, "reachable_functions": len(reach.reached), "constructor_sites_reached": hit})
    rep.analysed.update({"constructor_sites": sum(len(v) for v in by_func.values()), "functions": analysed_funcs,
                         "mypy_diagnostics": len(getattr(prog, "mypy_errors", []))})
    rep.assume("Dimension arithmetic is the exponent-vector group (decided by C02 R02.5)")
    rep.trust("mypy 2.3.1 expression types (operator dispatch), CPython ast")


def _site_index(css: List[CallSite], cs: CallSite) -> int:
    order = sorted(css, key=lambda c: (c.node.lineno, c.node.col_offset))  # type: ignore[attr-defined]
    return order.index(cs) + 1
